#!/bin/sh
# MANIFEST.setup_cmd: offline build of the Lean library, the model drivers and a warm Go build cache.
# Every check rebuilds what it needs itself (incrementally), so a failure here is not fatal: keep going.
cd /verif/go || exit 1
cp /repo/go.sum go.sum
GOFLAGS=-mod=mod GOPROXY=off go run ./cmd/factgen /repo /verif/lean/Generated/Facts.lean
# regenerate the SSA translation of the straight-line part of xmath/num (second tie of C01)
(cd /verif/gossa && GOFLAGS=-mod=mod GOPROXY=off go run . /repo /verif/lean/Generated/SSA_Num.lean >/dev/null) || echo "setup: ssagen failed (the C01 check will report it)"
# the same translator over xmath/fixed and xmath/fixed/f64 (second tie of C03)
(cd /verif/gossa && GOFLAGS=-mod=mod GOPROXY=off go run . /repo /verif/lean/Generated/SSA_F64.lean f64 >/dev/null) || echo "setup: ssagen f64 failed (the C03 check will report it)"
# f128 (calls into the regenerated SSA_Num definitions, so after it) and geom (Rect/Point/Matrix over an abstract number type: second tie of C18)
(cd /verif/gossa && GOFLAGS=-mod=mod GOPROXY=off go run . /repo /verif/lean/Generated/SSA_F128.lean f128 >/dev/null) || echo "setup: ssagen f128 failed (the C03 check will report it)"
(cd /verif/gossa && GOFLAGS=-mod=mod GOPROXY=off go run . /repo /verif/lean/Generated/SSA_Geom.lean geom >/dev/null) || echo "setup: ssagen geom failed (the C18 check will report it)"
# lock-state tables of the four mutex-guarded packages (lock-discipline tie of C12 C13 C16 C17)
for t in rotation tracelog rate notifier; do
  (cd /verif/gossa && GOFLAGS=-mod=mod GOPROXY=off go run ./lockfacts /repo /verif/lean/Generated/Lock_$t.lean -only $t -bare >/dev/null) || echo "setup: lockfacts $t failed (the check will report it)"
done
cd /verif/lean || exit 1
for f in Props/C[0-9][0-9].lean; do
  [ -f "$f" ] || continue
  id=$(basename "$f" .lean)
  n=$(echo "$id" | tr 'C' 'c')
  if [ -f "Driver/$id.lean" ]; then
    extra=""; for g in Props/${id}Gen*.lean Props/${id}Lock.lean; do [ -f "$g" ] && extra="$extra Props.$(basename "$g" .lean)"; done
    lake build "Props.$id" $extra "drv_$n" || echo "setup: lake build Props.$id drv_$n failed (the check will report it)"
  else
    lake build "Props.$id" || echo "setup: lake build Props.$id failed"
  fi
done
cd /verif/go
GOFLAGS=-mod=mod GOPROXY=off go build ./... 2>/dev/null || true
exit 0
