#!/bin/sh
# MANIFEST.setup_cmd: offline build of the Lean library, the model drivers and a warm Go build cache.
set -e
cd /verif/go
cp /repo/go.sum go.sum
GOFLAGS=-mod=mod GOPROXY=off go run ./cmd/factgen /repo /verif/lean/Generated/Facts.lean
cd /verif/lean
lake build
for f in Driver/C[0-9][0-9].lean; do
  [ -f "$f" ] || continue
  n=$(basename "$f" .lean | tr 'C' 'c')
  lake build "drv_$n"
done
cd /verif/go
cp /repo/go.sum go.sum
GOFLAGS=-mod=mod GOPROXY=off go build ./... || true
