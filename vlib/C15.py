"""C15 — task queue: Lean threaded model `TQW.tnext`/`TQW.TStep` over the protocol `TQ.Step` (Model/TaskQueue.lean), theorems Props/C15.lean, driver
drv_c15, harness go/cmd/c15 (white-box option `taskqueue.VerifInCap` injected with -overlay).

Two streams:
  forced — forced schedules: tasks block on per-task release channels; after every script line the real queue must show
           the quiescent observable that the model predicts (ctx.diff, stateful).  The model's prediction is attached to
           each line as a hint (`… ## <prediction>`): the harness waits until it sees the predicted observable (generous
           deadline), then a grace period for "nothing extra happens", and prints what it observed; the comparison is
           between that and the driver's output.  Lines on which the model's quiescent observable depends on the
           schedule (`nondet …`) end their history (the rest of the history is dropped before the run).
  stress — random stress, every configuration in a child process, judged on the event log (ctx.impl_oracle).
"""
import types

HINT = " ## "


def _strip(l):
    return l.split(HINT, 1)[0]


def _undetermined(m):
    return m.startswith("nondet") or m.startswith("too-big")


def _real_cap(ctx, lines):
    """black-box build (overlay fallback): the queue runs with the `in` capacity that New gives it; the harness has
    measured it and the model is told that capacity instead of the scripted one"""
    cap = ctx.extra.get("forced_in_capacity_measured")
    if not cap:
        return lines
    out = []
    for l in lines:
        w = l.split(" ")
        if w[0] == "new" and len(w) >= 4:
            w[3] = str(cap)
            l = " ".join(w)
        out.append(l)
    return out


def _annotate(ctx, lines, truncate):
    """attach the model's prediction to every line; with truncate, cut each history at its first undetermined line"""
    lines = _real_cap(ctx, [_strip(l) for l in lines])
    mo = ctx.run_model("drv_c15", lines)
    if mo is None:
        return lines
    out = []
    skipping = False
    dropped = 0
    for l, m in zip(lines, mo):
        if l.startswith("reset"):
            skipping = False
        if skipping:
            dropped += 1
            continue
        if _undetermined(m):
            if truncate:
                skipping = True
                dropped += 1
                if l != "end":
                    out.append("end")   # hint attached by the next pass
                continue
            out.append(l)
            continue
        if l.startswith("reset") or l.startswith("new") or m == "bad-op":
            out.append(l)
        else:
            out.append(l + HINT + m)
    ctx.extra["forced_lines_dropped_schedule_dependent"] = ctx.extra.get("forced_lines_dropped_schedule_dependent", 0) + dropped
    if truncate and dropped:
        return _annotate(ctx, out, True)
    return out


def _accept(a, b):
    """a = implementation output, b = model output"""
    if a == b:
        return True
    if b.startswith("nondet "):
        body = b[len("nondet "):]
        pre = ""
        for p in ("shut-refused ", "sub-refused ", "shut "):
            if body.startswith(p):
                pre, body = p, body[len(p):]
        alts = [x.strip() for x in body.split(" | ")]
        if pre == "shut ":
            return any(a == x or a == "shut-refused " + x for x in alts)
        return any(a == pre + x for x in alts)
    return False


def _install(ctx):
    orig_gen, orig_corpus, orig_mismatch = ctx.gen, ctx.corpus, ctx._mismatch

    def gen(self, area, seed, n, name="harness"):
        lines = orig_gen(area, seed, n, name)
        return _annotate(self, lines, True) if area == "forced" else lines

    def corpus(self, area):
        lines = orig_corpus(area)
        if area == "forced" and self.extra.get("forced_in_capacity_measured"):
            # fallback build: histories with a large burst in one line are too expensive for the model's exploration
            # when `in` is large (the submitter can be dozens of sends ahead of the dispatcher): leave them out
            hists, cur = [], []
            for l in lines:
                if l.startswith("reset") and cur:
                    hists.append(cur)
                    cur = []
                cur.append(l)
            if cur:
                hists.append(cur)
            keep = [h for h in hists if not any(x.startswith("sub ") and len(x) > 4 + 8 for x in h)]
            self.extra["forced_corpus_histories_left_out_in_fallback"] = len(hists) - len(keep)
            lines = [l for h in keep for l in h]
        return _annotate(self, lines, True) if area == "forced" else lines

    def mismatch(self, area, driver, name, hist, canon, extra_env=None):
        # used for minimisation and replay: hints are recomputed for the (shortened) history, and a line on which the
        # model allows several observables accepts any of them
        if area != "forced":
            return orig_mismatch(area, driver, name, hist, canon, extra_env)
        plain = _real_cap(self, [_strip(l) for l in hist])
        mo = self.run_model(driver, plain, timeout=240)
        if mo is None:
            return None
        ann = [l if (_undetermined(m) or l.startswith("reset") or l.startswith("new") or m == "bad-op") else l + HINT + m
               for l, m in zip(plain, mo)]
        env = dict(extra_env or {})
        if not self.replay:
            env["C15_DEADLINE_MS"] = "500"   # minimisation: the queue is already known to be defective, keep runs short
        io = self.run_impl(area, ann, name, timeout=180, extra_env=env)
        if io is None:
            return None
        for k, (a, b) in enumerate(zip(io, mo)):
            if a != "skipped-after-crash" and not _accept(a, b):
                return (k, io, mo)
        return None

    orig_minimise, orig_run_impl = ctx._minimise, ctx.run_impl

    def minimise(self, area, driver, name, hist, canon, extra_env=None, budget=80):
        return orig_minimise(area, driver, name, hist, canon, extra_env, budget=14 if area == "forced" else budget)

    def run_impl(self, area, lines, name="harness", timeout=900, extra_env=None):
        outs = orig_run_impl(area, lines, name, timeout, extra_env)
        if area == "forced" and outs:
            k = sum(1 for o in outs if o == "skipped-after-crash")
            if k:
                self.extra["forced_lines_not_run_after_crash_or_hang"] = self.extra.get(
                    "forced_lines_not_run_after_crash_or_hang", 0) + k
        return outs

    ctx.gen = types.MethodType(gen, ctx)
    ctx.corpus = types.MethodType(corpus, ctx)
    ctx._mismatch = types.MethodType(mismatch, ctx)
    ctx._minimise = types.MethodType(minimise, ctx)
    ctx.run_impl = types.MethodType(run_impl, ctx)
    ctx.reported_total["forced"] = 1   # at most two minimised reports for the area (the limit of core is 3)


def _tidy_replays(ctx):
    """the hints are recomputed on replay: store the plain script"""
    import json
    for v in ctx.violations:
        p = v.get("replay")
        if not p or v.get("kind") != "correspondence":
            continue
        try:
            rep = json.load(open(p))
            rep["ops"] = [_strip(l) for l in rep["ops"]]
            rep["failing_line"] = _strip(rep.get("failing_line", ""))
            json.dump(rep, open(p, "w"), indent=1)
            v["what"] = v["what"].split(HINT, 1)[0] + ("`" if HINT in v["what"] else "")
        except Exception:
            pass


def _trivial(line, out):
    return out in ("ok",) or out.startswith("st=- fin=- rec=- sub=0")


def _tag(line, out):
    op = _strip(line).split(" ", 1)[0]
    t = op
    if "refused" in out:
        t += ":refused"
    elif op in ("shut", "relshut"):
        t += ":returned" if out.endswith("sd=2") else ":waiting"
    return t


def run(ctx):
    ctx.modelled += [
        "the model (TQW.TStep, run by the driver as TQW.tnext) abstracts the Go runtime: channel operations are atomic steps, "
        "goroutine scheduling is arbitrary interleaving (no fairness); the dispatcher and each of the `workers` worker "
        "goroutines are threads of their own, a panic unwinds to the deferred errs.Recovery of runTask, the handler call "
        "is a step of its own; the driver explores all interleavings up to the symmetry of the worker threads",
        "forced schedules print the start and finish ORDER for one-worker queues (fifo_single_worker is confronted with "
        "the code); for more workers the sets are compared (the order of starts on different threads is not pinned by "
        "a forced schedule) and one-worker order under random schedules is judged by the stress oracle",
        "forced schedules: the harness polls for the model's predicted quiescent observable (deadline 3 s; after 3 missed "
        "deadlines the rest of the stream is not run, the lines are counted in forced_lines_not_run_after_crash_or_hang) and then "
        "watches a grace period; an event later than the grace period is seen on the following line of the history "
        "(observables are cumulative) or by the final `obs` (25 ms)",
        "the `in` channel capacity (2*NumCPU in New) is a parameter of the model; the harness sets it to 1..5 through the "
        "injected option taskqueue.VerifInCap (go/overlay/c15_incap.go) and also runs the default capacity (stress)",
        "handler configuration: `new W D C H` / stress mode H = 0 recording handler, 1 no RecoveryHandler option, 2 "
        "RecoveryHandler(nil), 3 handler that records and panics; the model has Cfg.handler (true for 0 and 3); the "
        "guard `defer Recovery(nil)` around a panicking handler is exercised, not modelled",
        "panic values are abstracted in the model (a task returns or panics); the harness varies the value over ten kinds "
        "and attributes handler calls to tasks by goroutine id, independently of the value and of the errs package",
        "not judged, only transcribed (coverage.observations): a task calling runtime.Goexit, tasks submitting to their own "
        "queue; Workers < 1 (default pool) is run but the bound running <= Workers is then not judged",
    ]
    ctx.assumptions += [
        "tasks end, by returning or by panicking (the liveness theorem C15.shutdown_returns needs nothing else: no "
        "fairness); a task that calls runtime.Goexit ends its worker goroutine without a completion signal, Shutdown "
        "then never returns (transcribed in coverage.observations): outside the domain",
        "Submit is not called with nil, nor after or concurrently with Shutdown (a Submit that is blocked on a full `in` "
        "channel when Shutdown closes it panics with 'send on closed channel' by construction): outside the domain",
        "tasks do not call Submit on the queue that runs them: modelled (TQW.Variant.nest); the safety theorems hold for "
        "such tasks, the liveness theorems do not (C15.contrast_reentrant_bounded_deadlock / _unbounded_deadlock; real "
        "code: Workers(1), Depth(d >= 0), one task submitting 2*NumCPU+3+d tasks blocks for ever in its last Submit)",
        "workers >= 1 (New replaces smaller values by 1+NumCPU); in-channel capacity >= 1",
    ]
    import os, time
    t0 = time.time()
    phases = ctx.extra.setdefault("phase_seconds", {})

    def mark(name, _t=[t0]):
        phases[name] = round(time.time() - _t[0], 1)
        _t[0] = time.time()

    ctx.lean(props=["Props.C15"], drivers=["drv_c15"])
    mark("lean build + axiom audit (shared lock)")
    ctx.harness("./cmd/c15", overlay={"taskqueue/verif_incap.go": "c15_incap.go"})
    mark("go build")
    if ctx.extra.get("overlay_fallback") and "harness" in ctx.harness_bin:
        # black-box build: no injected `in` capacity; measure the real one (2*NumCPU in New) and use it for every queue
        ans = (ctx.run_impl("forced", ["cap"], timeout=60) or ["?"])[0]
        if ans.startswith("cap=") and ans[4:].isdigit() and int(ans[4:]) >= 1:
            ctx.extra["forced_in_capacity_measured"] = int(ans[4:])
            ctx.modelled.append("overlay fallback: forced schedules ran with the real `in` capacity (%s, measured from outside) "
                                "instead of 1..5; blocking Submit is then reached only by the long one-worker histories" % ans[4:])
        else:
            ctx.extra["skipped_areas"] = ["forced"]
            ctx.modelled.append("overlay fallback: the `in` capacity could not be measured (%s); area forced skipped" % ans[:80])
    _install(ctx)
    what = ("forced schedule: each line is followed by a wait for quiescence; outputs are the observed sets (st=started, "
            "fin=finished, rec=recovery-handler calls, sub=Submit calls returned, sd=Shutdown 0 not called/1 waiting/2 "
            "returned; `id*k` = seen k times); `crash:*` = the harness process died on that line")
    thm = ("C15.conservation / exactly_once / running_le_workers / fifo / fifo_single_worker / no_worker_dies / "
           "panic_reported_once / shutdown_after_all_done / shutdown_returns (Props/C15.lean) hold for every reachable "
           "state of the threaded model; on this forced schedule the real queue does not reach the quiescent state "
           "(for one worker: including the start and finish order) that the model predicts")
    skip_forced = "forced" in ctx.extra.get("skipped_areas", [])
    # with the real (large) `in` capacity the submitter runs far ahead of the dispatcher and the model's exploration of
    # all interleavings is more expensive: half of the lines in the fallback build
    k = 2 if ctx.extra.get("forced_in_capacity_measured") else 1
    if not skip_forced:
        ctx.diff(area="forced", driver="drv_c15", n={"quick": 6000 // k, "thorough": 200000 // k}, stateful=True,
                 trivial=_trivial, tagger=_tag, timeout=1500, theorem=thm, what=what)
    mark("forced")
    # the same stream on a single P (cooperative scheduling: different interleavings of dispatcher, workers, submitter)
    if not ctx.replay and not ctx.violations and not skip_forced:
        ctx.seed += 7777
        ctx.diff(area="forced", driver="drv_c15", n={"quick": 2000 // k, "thorough": 60000 // k}, stateful=True,
                 trivial=_trivial, tagger=lambda l, o: "gomaxprocs1:" + _tag(l, o), timeout=1500, theorem=thm,
                 what=what + " [this stream ran with GOMAXPROCS=1]", extra_env={"GOMAXPROCS": "1"})
        ctx.seed -= 7777
    mark("forced GOMAXPROCS=1")
    _tidy_replays(ctx)
    if ctx.replay:
        _replay_stress(ctx)
    ctx.impl_oracle("recovery", n={"quick": 132, "thorough": 1320}, label="errs.Recovery called directly: every panic value "
                    "kind (and no panic) x recording / nil / panicking handler: nothing escapes, handler called exactly once "
                    "per panic with a non-nil error", timeout=600)
    _observations(ctx)
    mark("recovery + probes")
    _oracle_parallel(ctx, "stress", {"quick": 320, "thorough": 8000}, "random stress in child processes, event log "
                     "checked: exactly once, Shutdown after all finished, running <= Workers, one worker => submission "
                     "order, every panic reported once, no hang, no crash", shards=4)
    mark("stress")


def _oracle_parallel(ctx, area, n, label, shards):
    """ctx.impl_oracle, with the lines run by several harness processes at once (every line is a child process anyway)"""
    from concurrent.futures import ThreadPoolExecutor
    if "harness" not in ctx.harness_bin or ctx.replay:
        return
    total = n[ctx.tier] if isinstance(n, dict) else n
    lines = ctx.gen(area, ctx.seed * 7919 + 17, total)
    chunks = [lines[i::shards] for i in range(shards)]
    with ThreadPoolExecutor(max_workers=shards) as ex:
        results = list(ex.map(lambda ch: ctx.run_impl(area, ch, timeout=3000) or [], chunks))
    ctx.rules.append("area %s (%s): implementation-side oracle, no Lean model; counted separately" % (area, label))
    bad = 0
    for ch, outs in zip(chunks, results):
        for l, o in zip(ch, outs):
            ctx.extra["oracle_" + area] = ctx.extra.get("oracle_" + area, 0) + 1
            if o.startswith("FAIL") or o.startswith("crash") or o == "panic":
                known = ctx._known_match(area, l, [l])
                if known:
                    ctx.known_hits.append(known)
                    continue
                bad += 1
                if bad <= 3:
                    rep = {"property": ctx.id, "kind": "impl-oracle", "area": area, "harness": "harness", "ops": [l],
                           "impl_outputs": [o], "concrete_failing_input": True, "note": label}
                    ctx.violations.append({"kind": "impl-oracle", "what": "%s: %s on `%s`" % (area, o[:200], l[:160]),
                                           "replay": ctx._write_replay(rep), "concrete": True})
            elif len(ctx.samples) < 16 and ctx.extra["oracle_" + area] % 100 == 1:
                ctx.samples.append({"area": area, "op": l[:200], "oracle": o[:200]})


def _observations(ctx):
    """situations outside the domain of the property (runtime.Goexit in a task, tasks that Submit to their own queue): transcribed into the evidence, never judged"""
    if ctx.replay or "harness" not in ctx.harness_bin:
        return
    from concurrent.futures import ThreadPoolExecutor
    lines = ctx.gen("probe", 1, 4)
    with ThreadPoolExecutor(max_workers=5) as ex:
        outs = [(o or ["no answer"])[0] for o in ex.map(lambda l: ctx.run_impl("probe", [l], timeout=120), lines)]
    ctx.extra["observations"] = [o[4:] if o.startswith("obs ") else o for o in outs]
    ctx.rules.append("area probe: %d situations outside the domain, transcribed only (coverage.observations)" % len(outs))


def _replay_stress(ctx):
    import json
    rep = json.load(open(ctx.replay))
    if rep.get("area") not in ("stress", "recovery"):
        return
    outs = ctx.run_impl(rep["area"], rep["ops"]) or []
    for l, o in zip(rep["ops"], outs):
        ctx.evals += 1
        print("replay: `%s` -> %s" % (l, o))
        if o.startswith("FAIL") or o.startswith("crash") or o == "panic":
            ctx.violations.append({"kind": "impl-oracle", "what": "replay still fails: " + o[:200], "replay": ctx.replay,
                                   "concrete": True})
