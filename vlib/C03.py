"""C03 — fixed-point arithmetic: Lean model `Fixed.F64` / `Fixed.F128` (Model/Fixed.lean), theorems Props/C03.lean.

Areas (harness go/cmd/c03, all sixteen configurations D1..D16 instantiated at compile time):
  fx       operations whose exact intermediates and result are representable (the hypotheses of the theorems hold;
           classified in the generator with math/big): implementation vs model, line by line
           plus EVERY integer-target As line, also where the integer part does not fit the target kind: Go's
           integer -> integer conversion is fully defined (truncation to the target width), so model and code must agree
           on the wrapped value (C03.f64_f128_agree_as_int has no fitsKind hypothesis); these lines are in the twin
           comparison too
  fxwrap   operations that overflow somewhere, or divide by zero: wrap-around / panic behaviour, model vs implementation;
           outside the hypotheses of the property, so a difference is recorded as model drift, not as a violation.
           Mod is NOT in this stream unless its divisor is zero: since the fix "Mod computes the remainder directly" it
           has no intermediate product, its exact result always fits, and every Mod with b != 0 is judged in area fx
           (C03.f64_mod_spec / f128_mod_spec need only b != 0)
  fxcfg    Places()/Multiplier() of every configuration against k / 10^k computed by the harness (oracle)
  fxfloatm float paths of From / As (float64 and float32 kinds): implementation vs the Lean model
           (Model/FixedFloat.lean on the binary64 model GoSem.F64), raw for raw and bit for bit
  fxfloat  float paths of From / As: implementation-side oracle against exact big.Rat arithmetic (the literal bound of
           the property, end to end, independent of the model)
"""

OVERLAY = {"xmath/fixed/f128/verif_c03.go": "c03_f128_raw.go", "xmath/num/verif_c03.go": "c03_num_words.go"}
CONST_OPS = ("mult", "places", "maxsafe", "maximum", "minimum", "fjsonbad")


def _float_outside(line):
    """A From-float line whose exact result the fixed-point type cannot represent (NaN, +-Inf, |x|*10^k beyond the raw
    range): the property constrains nothing there (f128 panics / returns 0 / saturates today)."""
    import struct
    from fractions import Fraction
    w = line.split(" ")
    if len(w) != 4 or not w[2].startswith("from"):
        return False
    try:
        bits = int(w[3], 16)
        x = struct.unpack(">f", struct.pack(">I", bits))[0] if "f32" in w[2] else struct.unpack(">d", struct.pack(">Q", bits))[0]
        if x != x or x in (float("inf"), float("-inf")):
            return True
        lim = 2 ** (63 if w[0] == "f64" else 127)
        return abs(Fraction(x)) * 10 ** int(w[1]) >= lim
    except (ValueError, struct.error):
        return False


def _demote(ctx, n0, prefix, pred, key):
    """Moves the correspondence mismatches reported since index n0 that concern inputs OUTSIDE the hypotheses of the
    property from the violations to the evidence (model drift) and prints them as notes."""
    def line_of(v):
        w = v.get("what", "")
        return w[w.rfind(" on `") + 5:-1] if " on `" in w else ""
    drift = [v for v in ctx.violations[n0:] if v.get("kind") == "correspondence" and v.get("what", "").startswith(prefix)
             and pred(line_of(v))]
    ctx.violations[n0:] = [v for v in ctx.violations[n0:] if v not in drift]
    ctx.extra[key] = [v["what"] for v in drift]
    for v in drift:
        print("NOTE (not a violation of C03: outside its hypotheses) behaviour differs from the model: " + v["what"])


def _agreement(ctx, n):
    """Direct check of the clause `f64 and f128 produce identical results wherever both can represent the operands and
    the result`, on the implementation's own outputs (no model involved): the generator of area fx emits the same
    64-bit operands for both types; the two answers must be the same text."""
    if "harness" not in ctx.harness_bin or ctx.replay:
        return
    lines = ctx.gen("fx", ctx.seed * 104729 + 5, n)
    outs = ctx.run_impl("fx", lines, timeout=120)
    if outs is None:
        return
    seen = {}
    pairs = bad = 0
    for l, o in zip(lines, outs):
        ty, rest = l.split(" ", 1)
        if rest.split(" ")[1] in ("maximum", "minimum"):
            continue
        if o.startswith(("crash", "skipped-after-crash", "hang")):
            continue  # reported by the correspondence stream; not a disagreement of the two types
        if rest in seen and seen[rest][0] != ty:
            pairs += 1
            if seen[rest][1] != o and bad < 2:
                bad += 1
                ops = [seen[rest][0] + " " + rest, l]
                rep = {"property": ctx.id, "kind": "impl-oracle", "area": "fx", "harness": "harness", "ops": ops,
                       "impl_outputs": [seen[rest][1], o], "concrete_failing_input": True,
                       "note": "f64 and f128 disagree although operands, intermediates and result fit 64 bits "
                               "(contradicts C03.f64_f128_agree)"}
                ctx.violations.append({"kind": "impl-oracle", "concrete": True, "replay": ctx._write_replay(rep),
                                       "what": "f64/f128 disagree on `%s`: %s vs %s" % (rest, seen[rest][1], o)})
        else:
            seen[rest] = (ty, o)
    ctx.extra["f64_f128_twin_pairs"] = pairs
    ctx.rules.append("twin agreement: %d operand tuples of area fx executed on both f64 and f128, outputs compared "
                     "directly (implementation only)" % pairs)


def _agreement_float(ctx, n):
    """The same clause for `As` to float64: on every common raw value f64 (nearest float64 of the exact decimal text) and
    f128 (128-bit quotient, then nearest float64) must return the same bits.  Double rounding cannot separate them: a
    non-zero distance of raw/10^D (|raw| < 2^63, D <= 16) from a 53-bit rounding midpoint is at least 2^-108 relative,
    far above the 2^-128 of the intermediate.  Implementation only, no model involved.  (`From` of a float is NOT
    compared: there the two types legitimately differ by the last unit, e.g. 0.29 at D2 is raw 28 in f64 and 29 in
    f128 - both inside the bound of the property.)"""
    if "harness" not in ctx.harness_bin or ctx.replay:
        return
    lines = [l for l in ctx.gen("fxfloatm", ctx.seed * 7919 + 11, n) if l.startswith("f64 ") and l.split(" ")[2] in ("asf64", "asf64n")]
    twins = ["f128" + l[3:] for l in lines]
    o64 = ctx.run_impl("fxfloatm", lines, timeout=120)
    o128 = ctx.run_impl("fxfloatm", twins, timeout=120)
    if o64 is None or o128 is None:
        return
    bad = 0
    for l, t, a, b in zip(lines, twins, o64, o128):
        if a.startswith(("crash", "skipped-after-crash", "hang")) or b.startswith(("crash", "skipped-after-crash", "hang")):
            continue
        if a != b and bad < 2:
            bad += 1
            rep = {"property": ctx.id, "kind": "impl-oracle", "area": "fxfloatm", "harness": "harness", "ops": [l, t],
                   "impl_outputs": [a, b], "concrete_failing_input": True,
                   "note": "f64.As[float64] and f128.As[float64] disagree on a raw value both types represent"}
            ctx.violations.append({"kind": "impl-oracle", "concrete": True, "replay": ctx._write_replay(rep),
                                   "what": "f64/f128 As[float64] disagree on `%s`: %s vs %s" % (l, a, b)})
    ctx.extra["f64_f128_float_twin_pairs"] = len(lines)
    ctx.rules.append("twin agreement (float): %d raw values converted by f64.As[float64] and f128.As[float64], bits compared "
                     "directly (implementation only)" % len(lines))


CONV_FACTS = [("f128FromPrec", "List Nat"), ("f128FromTextFormat", "String"), ("f128FromExtraDigits", "Nat"),
              ("f128FromUnsignedKinds", "List String"), ("f128FromFloatKinds", "List String"), ("f128AsPrec", "List Nat"),
              ("f128AsFloatKinds", "List String"), ("f64FromFloatKinds", "List String"), ("f64AsFloatKinds", "List String"),
              ("f64AsFloatParsesAtRequestedSize", "Bool")]


def _conv_tie(ctx):
    """Regenerated tie for the conversion constants the model copies by hand (third tie, next to Facts.fixedConfigs and the
    SSA translation): go/cmd/c03facts reads the From / As code of the working tree with go/parser and rewrites
    lean/Generated/C03Conv.lean - inside the Lean lock, in place of factgen for this second build - and Props/C03Conv.lean
    proves every fact that was found equal to what the executed model definitions are written with.  Fail-safe: a fact
    that is not found in the expected syntactic shape (or a generator that does not run) is `none`, its theorem vacuous;
    the evidence lists it under conv_facts_absent."""
    import os
    import re
    from vlib.core import GO, LEAN, env_go, sh
    dst = os.path.join(LEAN, "Generated", "C03Conv.lean")

    def gen():
        outp = os.path.join(ctx.work, "C03Conv.lean")
        if os.path.exists(outp):
            os.remove(outp)
        rc, out = sh(["go", "run", "-modfile=" + ctx._gomod(), "./cmd/c03facts", ctx.repo, outp], cwd=GO, env=env_go(),
                     timeout=300)
        if rc != 0 or not os.path.exists(outp):
            ctx.extra["conv_facts_generator"] = "did not run: " + out[-300:]
            text = ("/-! GENERATED fallback (go/cmd/c03facts did not run): every fact absent. -/\nnamespace ConvFacts\n" +
                    "".join("def %s : Option (%s) := none\n" % nt for nt in CONV_FACTS) + "end ConvFacts\n")
        else:
            text = open(outp).read()
        if os.path.exists(dst):
            os.remove(dst)
        with open(dst + ".tmp", "w") as f:
            f.write(text)
        os.replace(dst + ".tmp", dst)
        facts = dict(re.findall(r"^def (\w+) : Option \(.*?\) := (.*)$", text, re.M))
        ctx.extra["conv_facts"] = facts
        ctx.extra["conv_facts_absent"] = sorted(n for n, _ in CONV_FACTS if facts.get(n, "none") == "none")

    orig = ctx._factgen
    ctx._factgen = gen
    try:
        ctx.lean(props=["Props.C03Conv"], drivers=[], facts=True)
    finally:
        ctx._factgen = orig
    absent = ctx.extra.get("conv_facts_absent", [n for n, _ in CONV_FACTS])
    ctx.rules.append("conversion-constant tie: %d of %d facts of the From/As source regenerated (Generated/C03Conv.lean) and "
                     "proved equal to the model's constants (Props.C03Conv)%s" % (
                         len(CONV_FACTS) - len(absent), len(CONV_FACTS),
                         "; ABSENT (theorem vacuous in this run): " + ", ".join(absent) if absent else ""))
    if absent:
        print("NOTE (conversion-constant tie): not found in the expected shape, theorem vacuous in this run: " + ", ".join(absent))


def _tag(line, out):
    w = line.split(" ")
    if len(w) < 3:
        return None
    t = w[0] + "." + w[2]
    if w[2] in ("from", "as") and len(w) > 3:
        t += "." + w[3]
    return t


def run(ctx):
    ctx.modelled += [
        "modelled API: f64.Int[T] Add Sub Mul Div Mod Abs Trunc Ceil Round Min Max Inc Dec, built-in comparisons, "
        "From/As (11 integer kinds, float32, float64), Multiplier, MaxDecimalDigits, MaxSafeMultiply, the constants "
        "Max/Min, Fraction: NewFraction Normalize Value String StringWithSign MarshalJSON UnmarshalJSON; "
        "f128.Int[T] the same plus Neg Cmp Equal LessThan LessThanOrEqual GreaterThan GreaterThanOrEqual Maximum "
        "Minimum; all 16 configurations, multiplier taken from the regenerated Facts.fixedConfigs",
        "num.Uint128.Div is taken by its contract (floor division of the magnitudes, panic on zero); the 128-bit "
        "word-level arithmetic of num.Int128 is the subject of C01 and is modelled here on mathematical integers "
        "reduced by wrap128",
        "f128 raw values are read/written through a `//go:build verif` accessor injected by -overlay (go/overlay/"
        "c03_f128_raw.go); /repo is not modified",
    ]
    ctx.assumptions += [
        "float From/As, float64 kinds: modelled on the binary64 model GoSem.F64 (Model/FixedFloat.lean), compared raw for "
        "raw / bit for bit in area fxfloatm, bounds proved (f64_from_float_sharp/_bound, f64_as_float_bound, "
        "f128_from_float_bound, f128_as_float_bound). Trusted contracts of the standard library, stated in the model: "
        "strconv.ParseFloat = nearest float, ties to even; big.Float.Quo/Float64 round to nearest even; "
        "big.Float.Text('f', n) = exact expansion rounded to nearest even at n digits; the text of String() is the exact "
        "decimal expansion of raw/mult (C04)",
        "f64.From on a float is claimed only on the domain on which Go defines the float->int64 conversion (rounded "
        "product truncates into int64, no NaN/Inf): the model answers impl-defined elsewhere and the generator of "
        "fxfloatm stays inside the domain; f128.From is defined everywhere (NaN panics in math/big, +-Inf give 0, "
        "out-of-range values saturate in num.Int128FromBigInt) and is generated without restriction",
        "float From/As, float32 kinds: modelled (round32 = nearest-even rounding to 24 bits with the float32 exponent "
        "range; f64.From forms the product with float32(mult), which is inexact from D11 on) and compared bit for bit in "
        "fxfloatm; bounds proved with the relative part read as 2^-23 (a float32 has 24 significant bits; `one part in "
        "2^52` can only refer to float64): f64_from_float32_sharp/_bound (needs float32_multiplier: |float32(mult) - mult| "
        "<= mult*15/2^29 in every configuration of the regenerated table), f64_as_float32_bound (2^-24), "
        "f128_as_float32_bound (2^-24 + 2^-52), f128_from_float32_bound (< 1 unit), "
        "float32_conversions_within_property_bound; the same reading is judged end to end by the exact-rational oracle "
        "of area fxfloat",
        "String/FromString/Comma/CheckedAs belong to C04 and are not modelled here",
    ]
    ctx.lean(props=["Props.C03"], drivers=["drv_c03"])
    # Second tie (translator): the straight-line integer functions of xmath/fixed/f64 and the configurations of
    # xmath/fixed are regenerated as Lean definitions from the typed SSA form of the working tree on every run
    # (gossa/ssagen, lean/Generated/SSA_F64.lean) and proved equal to the model (lean/Props/C03Gen.lean).  Separate
    # build and audit, wall-clock limit, named failing theorem, restore of the tracked file: vlib/gentie.py.
    ctx.modelled.append(
        "translator tie: the generic bodies of f64.Int[T] Add Sub Mul Div Mod Abs Trunc Ceil Round Min Max Inc Dec, "
        "Multiplier, MaxDecimalDigits, MaxSafeMultiply and Places()/Multiplier() of fixed.D1..D16 are regenerated as Lean "
        "definitions over BitVec 64 (Generated/SSA_F64.lean, written by gossa/ssagen from the working tree on every run; "
        "the type parameter T becomes the dictionary (T.Multiplier(), T.Places()) on the zero value) and proved equal to "
        "the hand-written model through toInt (Props/C03Gen.lean; Mul by its specification under the hypotheses of the "
        "property); From/As (reflect kind switch) and the text functions are outside the fragment; trusted here: "
        "golang.org/x/tools/go/ssa and the instruction-by-instruction translation in gossa/main.go")
    ctx.modelled.append(
        "conversion-constant tie: SetPrec(p) of f128.From / f128.As, the format and digit count of Text('f', D+1) in "
        "f128.From, the reflect kinds of the unsigned case of f128.From and of the float case of all four generic "
        "From/As functions, and the bit size f64.asFloat parses at are read from the working tree with go/parser "
        "(go/cmd/c03facts -> Generated/C03Conv.lean, rewritten on every run) and proved to be the constants the executed "
        "model definitions are written with (Props/C03Conv.lean: f128_as_precision_tie, f128_from_precision_tie, "
        "f128_from_text_tie, f128_from_unsigned_kinds_tie, float_kinds_tie, f64_as_float_size_tie); a fact not found in the "
        "expected shape is `none` and its theorem vacuous (listed in conv_facts_absent)")
    _conv_tie(ctx)
    from vlib import gentie
    gentie.run(ctx, target="f64", generated="SSA_F64.lean", module="Props.C03Gen", key="f64", namespace="C03Gen")
    ctx.modelled.append(
        "translator tie, f128: the generic bodies of f128.Int[T] Add Sub Mul Div Mod Neg Abs Cmp Equal GreaterThan(OrEqual) "
        "LessThan(OrEqual) Trunc Ceil Round Min Max Inc Dec, Multiplier, multiplier, Maximum, Minimum, MaxDecimalDigits, "
        "MaxSafeMultiply are regenerated (Generated/SSA_F128.lean) on top of the regenerated num.Int128 definitions "
        "(Generated/SSA_Num.lean, proved equal to the model of C01 in Props/C01Gen.lean); num.Int128.Div, which is "
        "outside the translated fragment, is taken by the model function of C01 (GenNum.Int128_Div, specification "
        "C01.idivMod_spec); Props/C03Gen128.lean proves every regenerated definition equal to Fixed.F128.* of the model")
    gentie.run(ctx, target="f128", generated="SSA_F128.lean", module="Props.C03Gen128", key="f128",
               namespace="C03Gen128", deps=[("num", "SSA_Num.lean", "c01gen.lock")])
    ctx.harness("./cmd/c03", overlay=OVERLAY)
    if ctx.extra.get("overlay_fallback"):
        ctx.assumptions.append(
            "overlay fallback (build tag nooverlay): the white-box accessor for the raw 128-bit value did not compile "
            "against this working tree, so f128 raw values are read through String() (exact decimal expansion, parsed "
            "with math/big) and built through FromString of the exact literal - exact for all 2^128 values, Min/Max "
            "included, but through the library's own text code (subject of C04) instead of direct word access")
    thm = ("C03.f64_mul_spec / f64_div_spec / f64_mod_spec (every non-zero divisor) / f64_trunc_spec / f64_ceil_spec / f64_round_spec / "
           "f64_from_int_exact / f64_as_int_exact (and the f128_ twins), f64_f128_agree, mul_rational … : the model "
           "equals exact decimal arithmetic truncated toward zero under the representability hypotheses, which hold "
           "for every line of this stream (integer-target As lines whose integer part does not fit the target kind are "
           "judged as well: Go defines that conversion as truncation to the target width, f64_f128_agree_as_int); "
           "impl != model on this input")
    tmo = 120 if ctx.tier == "quick" else 900
    ctx.impl_oracle("fxcfg", 32, label="Places()/Multiplier() of D1..D16 through f64 and f128 against k and 10^k "
                                       "computed by the harness", timeout=tmo)
    ctx.diff(area="fx", driver="drv_c03", n={"quick": 400000, "thorough": 10000000},
             trivial=lambda l, o: l.split(" ")[2] in CONST_OPS,
             tagger=_tag, theorem=thm, timeout=tmo)
    _agreement(ctx, 150000 if ctx.tier == "quick" else 2000000)
    # Overflow stream.  The property constrains nothing here (its hypotheses exclude unrepresentable intermediates and
    # results, and it is silent about division by zero), so a difference between the code and the model of its
    # wrap-around behaviour is NOT a violation of C03: it is recorded in the evidence as model drift and printed, and
    # the model should then be re-transcribed.  (Hardening class 9: no alarm on what the property does not constrain.)
    n0 = len(ctx.violations)
    ctx.diff(area="fxwrap", driver="drv_c03", n={"quick": 200000, "thorough": 5000000},
             tagger=lambda l, o: "wrap." + (_tag(l, o) or "?"),
             theorem="wrap-around / panic behaviour: the model transcribes Go's int64 and num.Int128 overflow "
                     "semantics; impl != model on this input",
             what="overflow stream: outside the representability hypotheses of the property; model-vs-code only",
             timeout=tmo)
    _demote(ctx, n0, "fxwrap:", lambda l: True, "overflow_stream_model_drift")
    n0 = len(ctx.violations)
    ctx.diff(area="fxfloatm", driver="drv_c03", n={"quick": 120000, "thorough": 3000000},
             tagger=lambda l, o: "float." + (_tag(l, o) or "?"),
             theorem="C03.f64_from_float_bound / f64_as_float_bound / f128_from_float_bound / f128_as_float_bound and the "
                     "float32 twins f64_from_float32_bound / f64_as_float32_bound / f128_as_float32_bound: the "
                     "model of the float paths (one rounded product then truncation; nearest float64 of raw/mult; "
                     "decimal expansion rounded at D+1 and cut to D digits; 128-bit quotient then nearest float64) stays "
                     "within max(one unit of the last place, 2^-52 relative; 2^-23 for the float32 kinds) of the exact value on its domain; "
                     "impl != model on this input",
             what="float paths of From/As inside the domain on which Go defines them (f64.From: truncated product "
                  "within int64, no NaN/Inf)", timeout=tmo)
    # f128.From on NaN / +-Inf / values beyond the raw range (panic, 0, saturation today) is outside the property too
    _demote(ctx, n0, "fxfloatm:", _float_outside, "float_outside_domain_model_drift")
    _agreement_float(ctx, 60000 if ctx.tier == "quick" else 1000000)
    ctx.impl_oracle("fxfloat", {"quick": 60000, "thorough": 2000000},
                    label="float From/As within max(1 unit of the last place, 2^-52 relative; 2^-23 for float32) of the exact value",
                    timeout=tmo)
