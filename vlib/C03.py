"""C03 — fixed-point arithmetic: Lean model `Fixed.F64` / `Fixed.F128` (Model/Fixed.lean), theorems Props/C03.lean.

Areas (harness go/cmd/c03, all sixteen configurations D1..D16 instantiated at compile time):
  fx       operations whose exact intermediates and result are representable (the hypotheses of the theorems hold;
           classified in the generator with math/big): implementation vs model, line by line
  fxwrap   operations that overflow somewhere, or divide by zero: wrap-around / panic behaviour, model vs implementation
  fxfloatm float paths of From / As (float64 and float32 kinds): implementation vs the Lean model
           (Model/FixedFloat.lean on the binary64 model GoSem.F64), raw for raw and bit for bit
  fxfloat  float paths of From / As: implementation-side oracle against exact big.Rat arithmetic (the literal bound of
           the property, end to end, independent of the model)
"""

OVERLAY = {"xmath/fixed/f128/verif_c03.go": "c03_f128_raw.go"}


def _tag(line, out):
    w = line.split(" ")
    if len(w) < 3:
        return None
    t = w[0] + "." + w[2]
    if w[2] in ("from", "as") and len(w) > 3:
        t += "." + w[3]
    return t


def run(ctx):
    ctx.modelled += [
        "modelled API: f64.Int[T] Add Sub Mul Div Mod Abs Trunc Ceil Round Min Max Inc Dec, built-in comparisons, "
        "From/As (11 integer kinds, float32, float64), Multiplier, MaxDecimalDigits, MaxSafeMultiply, "
        "Fraction.Normalize/Value; "
        "f128.Int[T] the same plus Neg Cmp Equal LessThan LessThanOrEqual GreaterThan GreaterThanOrEqual Maximum "
        "Minimum; all 16 configurations, multiplier taken from the regenerated Facts.fixedConfigs",
        "num.Uint128.Div is taken by its contract (floor division of the magnitudes, panic on zero); the 128-bit "
        "word-level arithmetic of num.Int128 is the subject of C01 and is modelled here on mathematical integers "
        "reduced by wrap128",
        "f128 raw values are read/written through a `//go:build verif` accessor injected by -overlay (go/overlay/"
        "c03_f128_raw.go); /repo is not modified",
    ]
    ctx.assumptions += [
        "float From/As, float64 kinds: modelled on the binary64 model GoSem.F64 (Model/FixedFloat.lean), compared raw for "
        "raw / bit for bit in area fxfloatm, bounds proved (f64_from_float_sharp/_bound, f64_as_float_bound, "
        "f128_from_float_bound, f128_as_float_bound). Trusted contracts of the standard library, stated in the model: "
        "strconv.ParseFloat = nearest float, ties to even; big.Float.Quo/Float64 round to nearest even; "
        "big.Float.Text('f', n) = exact expansion rounded to nearest even at n digits; the text of String() is the exact "
        "decimal expansion of raw/mult (C04)",
        "f64.From on a float is claimed only on the domain on which Go defines the float->int64 conversion (rounded "
        "product truncates into int64, no NaN/Inf): the model answers impl-defined elsewhere and the generator of "
        "fxfloatm stays inside the domain; f128.From is defined everywhere (NaN panics in math/big, +-Inf give 0, "
        "out-of-range values saturate in num.Int128FromBigInt) and is generated without restriction",
        "float From/As, float32 kinds: modelled (round32 = a second nearest-even rounding to 24 bits with the float32 "
        "exponent range) and compared bit for bit in fxfloatm, but no Lean bound is proved for them; the literal bound "
        "is judged end to end by the exact-rational oracle of area fxfloat, where the relative part is read as 2^-23 "
        "(a float32 has 24 significant bits; `one part in 2^52` can only refer to float64)",
        "String/FromString/Comma/CheckedAs belong to C04 and are not modelled here",
    ]
    ctx.lean(props=["Props.C03"], drivers=["drv_c03"])
    ctx.harness("./cmd/c03", overlay=OVERLAY)
    thm = ("C03.f64_mul_spec / f64_div_spec / f64_mod_spec / f64_trunc_spec / f64_ceil_spec / f64_round_spec / "
           "f64_from_int_exact / f64_as_int_exact (and the f128_ twins), f64_f128_agree, mul_rational … : the model "
           "equals exact decimal arithmetic truncated toward zero under the representability hypotheses, which hold "
           "for every line of this stream; impl != model on this input")
    ctx.diff(area="fx", driver="drv_c03", n={"quick": 400000, "thorough": 10000000},
             trivial=lambda l, o: l.split(" ")[2] in ("mult", "places", "maxsafe", "maximum", "minimum"),
             tagger=_tag, theorem=thm)
    ctx.diff(area="fxwrap", driver="drv_c03", n={"quick": 200000, "thorough": 5000000},
             tagger=lambda l, o: "wrap." + (_tag(l, o) or "?"),
             theorem="wrap-around / panic behaviour: the model transcribes Go's int64 and num.Int128 overflow "
                     "semantics; impl != model on this input",
             what="overflow stream: outside the representability hypotheses of the property; model-vs-code only")
    ctx.diff(area="fxfloatm", driver="drv_c03", n={"quick": 120000, "thorough": 3000000},
             tagger=lambda l, o: "float." + (_tag(l, o) or "?"),
             theorem="C03.f64_from_float_bound / f64_as_float_bound / f128_from_float_bound / f128_as_float_bound: the "
                     "model of the float paths (one rounded product then truncation; nearest float64 of raw/mult; "
                     "decimal expansion rounded at D+1 and cut to D digits; 128-bit quotient then nearest float64) stays "
                     "within max(one unit of the last place, 2^-52 relative) of the exact value on its domain; "
                     "impl != model on this input",
             what="float paths of From/As inside the domain on which Go defines them (f64.From: truncated product "
                  "within int64, no NaN/Inf)")
    ctx.impl_oracle("fxfloat", {"quick": 60000, "thorough": 2000000},
                    label="float From/As within max(1 unit of the last place, 2^-52 relative) of the exact value")
