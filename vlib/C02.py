"""C02 — lossless conversion, printing and saturation of num.Uint128 / num.Int128.

Lean: executable model `Conv.*` (lean/Model/Conv128.lean) over the binary64 model `GoSem.F64` (lean/GoSem/F64.lean),
theorems in lean/Props/C02.lean (helper lemmas lean/Lemmas/F64*.lean, lean/Lemmas/Conv128*.lean).

Areas (harness go/cmd/c02):
  conv  tie lines `u|i fromfloat/asfloat/fromstring/unmarshal/frombig/asbig/str/narrow/from64/fromu64`, the remaining
        entry points `asbigfloat` (precision, exact integer, accuracy), `float64m` (Float64() of json.Number), `yamlcb`
        (UnmarshalYAML with a storing / silent / failing callback), `scantok` (Scan with a delivering / failing
        ScanState) and `consts`:
        real code vs Lean model, line by line (floats as IEEE bit patterns, strings as hex bytes)
  f64   `f64op <op> <bits> <bits>`: the binary64 model itself vs the hardware (add sub mul div math.Mod neg
        float64(uint64) float64(int64) uint64(f) int64(f) comparisons Nextafter-toward-zero)
  (conv also carries `comps` = FromComponents / Components / IsZero against the white-box words and `i abs` =
        AbsUint128; the conv lines and the glue oracle are repeated on a GOARCH=386 build for the 32-bit big.Word branches)
  glue  implementation-side identity oracle: fmt verbs, encoding/json, yaml.v3, MarshalText, Scan, AsBigFloat against
        math/big renderings of the same value (no Lean model); every rendering of Format (verbs d b o O x X with
        the flags # + space, zero padding, width, precision; v s and the bad verbs) is scanned back: with the verb it
        was printed with the identical value must come back; with %v, Sscan, Fscan: Scan(token) == FromString(token),
        identical value for self-describing texts
  words FromBigInt / ToBigInt at the level of big.Words: `u|i frombigw <sign> <hex>` answered with Bits() and the result,
        `u|i tobigw <hi:lo> <sign> <hex>` answered with the sign and Bits() of the destination afterwards; the model
        (Conv.fromBigIntW / toBigIntW) answers for both sizes of big.Word, the harness for the one it was built with
        (amd64: 64, GOARCH=386: 32)
  format fmt.Formatter: `u|i format <hi:lo> <flags> <width> <precision> <verb>` answered with the text Format writes
        when called with a fmt.State reporting exactly that, the text of fmt.Sprintf for the corresponding format string,
        and what fmt.Sscanf with the same verb reads back; model Conv.U128.format / I128.format (AsBigInt, then
        (*big.Int).Format transcribed from math/big) and Conv.*.scan of the token
  scan  fmt.Scanner entry points (Uint128.Scan / Int128.Scan): `u|i scan <verb> <hex token>` answered by the model's
        Conv.*.scan = fromString (scanText token verb) and, on the implementation side, by Sscanf / Fscanf with that
        verb (and Sscan / Sscanln / Fscan for the verb v) around the token (leading blanks, separators, a following
        token that must stay readable)
"""

import os
import re
import subprocess

from vlib import core

OVERLAY = {"xmath/num/verif_c02.go": "c02_consts.go", "xmath/num/verif_c02w.go": "c02_words.go"}
_CONSTS = re.compile(r"^([0-9a-f]{16} ){5}[0-9a-f]{16}$")


def _canon_no_consts(out):
    """Black-box build (overlay fallback): the `consts` line is not observed on the implementation side, so neither the
    stub's token nor the model's six bit patterns take part in the comparison."""
    if out == "consts-unavailable" or _CONSTS.match(out):
        return "consts-not-compared"
    return out


def _tok(t, consts):
    t = t.strip()
    if t in consts:
        return consts[t]
    if t == "math.MaxUint64":
        return 2**64 - 1
    if t == "math.MaxInt64":
        return 2**63 - 1
    try:
        return int(t.replace("_", ""), 0)
    except ValueError:
        return None

def _extract_source_facts(repo, goroot):
    """Reads the constants and tables that lean/Model/Conv128*.lean copies by hand out of the working tree's sources.
    Everything is optional: what a (behaviour-preserving) rewrite no longer spells in the expected form is reported as
    not extracted, never guessed."""
    out = {"signBit": None, "bounds": [], "maxBigUint128": None, "floatLiterals": [], "scanDefault": None, "scanVerbs": [],
           "fmtBases": [], "fmtSharp": [], "fmtAlways": []}
    try:
        u = open(os.path.join(repo, "xmath/num/uint128.go")).read()
        i = open(os.path.join(repo, "xmath/num/int128.go")).read()
    except OSError:
        return out
    both = u + "\n" + i
    consts = {}
    m = re.search(r"^\s*signBit\s*=\s*(0[xX][0-9A-Fa-f_]+|\d+)\s*$", both, re.M)
    if m:
        out["signBit"] = int(m.group(1).replace("_", ""), 0)
        consts["signBit"] = out["signBit"]
    for name in ("MaxUint128", "MaxInt128", "MinInt128", "minInt128AsAbsUint128", "maxInt128AsUint128"):
        m = re.search(r"^\s*(?:var\s+)?%s\s*=\s*U?[Ii]nt128\{\s*hi:\s*([^,}]+),\s*lo:\s*([^,}]+)\}\s*$" % name, both, re.M)
        if m:
            hi, lo = _tok(m.group(1), consts), _tok(m.group(2), consts)
            if hi is not None and lo is not None and 0 <= hi < 2**64 and 0 <= lo < 2**64:
                out["bounds"].append((name, hi, lo))
    m = re.search(r'maxBigUint128\s*,\s*_\s*=\s*new\(big\.Int\)\.SetString\("([0-9A-Za-z_]+)",\s*(\d+)\)', both)
    if m:
        try:
            out["maxBigUint128"] = int(m.group(1), int(m.group(2)))
        except ValueError:
            pass
    for name in ("maxRepresentableUint128Float", "minInt128Float", "maxInt128Float"):
        m = re.search(r"^\s*%s\s*=\s*(?:math\.Nextafter\()?float64\((-?\d+)\)" % name, both, re.M)
        if m:
            out["floatLiterals"].append((name, int(m.group(1))))
    # scanText: the switch on the verb
    m = re.search(r"func scanText\(text string, verb rune\) string \{(.*?)\n\}", u, re.S)
    if m:
        body = m.group(1)
        d = re.search(r'letters\s*:=\s*"([^"\\]*)"', body)
        sw = re.search(r"switch verb \{(.*?)\n\tdefault:", body, re.S)
        if d and sw:
            out["scanDefault"] = d.group(1)
            arms = re.split(r"\n\tcase ", "\n" + sw.group(1).strip("\n"))
            ok = True
            verbs = []
            for arm in arms:
                if not arm.strip():
                    continue
                h = re.match(r"((?:'.'\s*,\s*)*'.'):(.*)", arm, re.S)
                if not h:
                    ok = False
                    break
                vs = re.findall(r"'(.)'", h.group(1))
                rest = h.group(2)
                p = re.search(r'prefix\s*=\s*"([^"\\]*)"', rest)
                l = re.search(r'letters\s*=\s*"([^"\\]*)"', rest)
                extra = re.sub(r'(prefix|letters)\s*=\s*"[^"\\]*"|//[^\n]*', "", rest).strip()
                if extra:
                    ok = False
                    break
                for v in vs:
                    verbs.append((v, p.group(1) if p else "", l.group(1) if l else d.group(1)))
            if ok:
                out["scanVerbs"] = verbs
            else:
                out["scanDefault"] = None
    # (*big.Int).Format of the toolchain the harness is built with
    try:
        g = open(os.path.join(goroot, "src/math/big/intconv.go")).read()
        m = re.search(r"func \(x \*Int\) Format\(s fmt\.State, ch rune\) \{(.*?)\n\}", g, re.S)
        if m:
            body = m.group(1)
            sw = re.search(r"switch ch \{(.*?)\n\tdefault:", body, re.S)
            if sw:
                for cm in re.finditer(r"case ((?:'.'\s*,\s*)*'.'):\s*\n\s*base = (\d+)", sw.group(1)):
                    for v in re.findall(r"'(.)'", cm.group(1)):
                        out["fmtBases"].append((v, int(cm.group(2))))
            sh = re.search(r"if s\.Flag\('#'\) \{\s*switch ch \{(.*?)\n\t\t\}\n\t\}", body, re.S)
            if sh:
                for cm in re.finditer(r"case '(.)':[^\n]*\n\s*prefix = \"([^\"]*)\"", sh.group(1)):
                    out["fmtSharp"].append((cm.group(1), cm.group(2)))
            for cm in re.finditer(r"\n\tif ch == '(.)' \{\n\t\tprefix = \"([^\"]*)\"\n\t\}", body):
                out["fmtAlways"].append((cm.group(1), cm.group(2)))
    except OSError:
        pass
    return out

def _ch(c):
    return "'%s'" % c

def _chars(t):
    return "[" + ", ".join(_ch(c) for c in t) + "]"

def _optnat(v):
    return "none" if v is None else "some %d" % v

BOUNDS = ("MaxUint128", "MaxInt128", "MinInt128", "minInt128AsAbsUint128", "maxInt128AsUint128")
FLOATS = ("maxRepresentableUint128Float", "minInt128Float", "maxInt128Float")

def _render_source_facts(f):
    L = ["/-! GENERATED on every run by vlib/C02.py from the working tree's xmath/num/uint128.go, int128.go and from the",
         "    toolchain's math/big/intconv.go — do not edit.  What the sources no longer spell in the expected form is `none` / `[]`. -/",
         "namespace C02Facts", ""]
    L.append("def signBit : Option Nat := %s" % _optnat(f["signBit"]))
    b = {n: (hi, lo) for n, hi, lo in f["bounds"]}
    for n in BOUNDS:
        L.append("def %s : Option (Nat × Nat) := %s" % (n, "some (%d, %d)" % b[n] if n in b else "none"))
    L.append("def maxBigUint128 : Option Nat := %s" % _optnat(f["maxBigUint128"]))
    fl = dict(f["floatLiterals"])
    for n in FLOATS:
        L.append("def %s : Option Int := %s" % (n, "some (%d)" % fl[n] if n in fl else "none"))
    L.append("def scanVerbs : List (Char × List Char × List Char) := [%s]" % ", ".join(
        "(%s, %s, %s)" % (_ch(v), _chars(p), _chars(l)) for v, p, l in f["scanVerbs"]))
    L.append("def fmtBases : List (Char × Nat) := [%s]" % ", ".join("(%s, %d)" % (_ch(v), b) for v, b in f["fmtBases"]))
    L.append("def fmtSharp : List (Char × List Char) := [%s]" % ", ".join("(%s, %s)" % (_ch(v), _chars(p)) for v, p in f["fmtSharp"]))
    L.append("def fmtAlways : List (Char × List Char) := [%s]" % ", ".join("(%s, %s)" % (_ch(v), _chars(p)) for v, p in f["fmtAlways"]))
    L += ["", "end C02Facts", ""]
    return "\n".join(L)



def _goroot(ctx):
    rc, out = core.sh(["go", "env", "GOROOT"], cwd=core.GO, env=core.env_go(), timeout=120)
    return out.strip().splitlines()[-1] if rc == 0 and out.strip() else ""


def _hook_source_facts(ctx):
    """lean/Generated/C02Facts.lean is deleted and regenerated from the working tree on every run, inside the lock that
    ctx.lean holds around fact generation and the Lean build (so that a concurrent run against another tree cannot mix
    its facts in).  Props/C02.lean proves that the model's hand-copied constants and tables agree with it."""
    orig = ctx._factgen

    def factgen():
        orig()
        facts = _extract_source_facts(ctx.repo, _goroot(ctx))
        dst = os.path.join(core.LEAN, "Generated", "C02Facts.lean")
        try:
            os.remove(dst)
        except OSError:
            pass
        with open(dst + ".tmp", "w") as fh:
            fh.write(_render_source_facts(facts))
        os.replace(dst + ".tmp", dst)
        ctx.extra["source_facts"] = {
            "file": "lean/Generated/C02Facts.lean (regenerated on this run)",
            "extracted": {k: (v if not isinstance(v, list) else len(v)) for k, v in facts.items()},
            "not_extracted": sorted(k for k, v in facts.items() if v in (None, [])),
        }
    ctx._factgen = factgen


def _wordsize(ctx, name):
    """Size of big.Word in the named harness build (asked of the harness itself)."""
    outs = ctx.run_impl("words", ["wordsize"], name, timeout=30)
    if outs and outs[0] in ("W32", "W64"):
        return outs[0]
    return None


def _canon_words(tag):
    """Area `words`: the model answers every line for both sizes of big.Word (`W32 ... ;; W64 ...`); the comparison is
    with the segment of the size the harness was built for."""
    def canon(out):
        if " ;; " in out:
            for seg in out.split(" ;; "):
                if seg.startswith(tag + " "):
                    return seg
        return out
    return canon


def _words(ctx, name, n):
    tag = _wordsize(ctx, name)
    if tag is None:
        if name in ctx.harness_bin:
            ctx.violations.append({"kind": "correspondence", "concrete": False,
                                   "what": "harness %s does not report the size of big.Word (area words)" % name})
        return
    ctx.extra.setdefault("bigword_sizes", {})[name] = tag
    ctx.diff(area="words", driver="drv_c02", name=name, n=n, canon=_canon_words(tag), timeout=300,
             shards=2 if name != "harness" and ctx.tier == "quick" else None,
             trivial=lambda l, o: False,
             tagger=lambda l, o: tag + "." + ".".join(l.split(" ")[:2]),
             theorem="C02.fromBigIntW_eq_value / toBigIntW_any_destination (the word-level switch and the slice handling "
                     "compute the value-level functions); impl != model on this input",
             what="FromBigInt / ToBigInt at the level of big.Words: Bits() before, result and Bits() after, %s build" % tag)


def _format(ctx, name, n, tmo):
    pre = "" if name == "harness" else "386."
    ctx.diff(area="format", driver="drv_c02", name=name, n=n, timeout=tmo,
             shards=2 if name != "harness" and ctx.tier == "quick" else None,
             trivial=lambda l, o: o == "unsupported",
             tagger=lambda l, o: pre + "format.%s.%s" % (l.split(" ")[-1], "unsupported" if o == "unsupported" else
                                                         ("reads-back" if " ok:" in o else "no-read-back")),
             theorem="C02.format_denotes / format_reads_back / format_reads_back_v (the text Format writes denotes the "
                     "value and reads back through Scan with the same verb); impl != model on this input",
             what="fmt.Formatter: Format called with a fmt.State, fmt.Sprintf, and fmt.Sscanf of the text with the same verb")


def _build386(ctx):
    """Extra harness for the 32-bit big.Word branches of ToBigInt / FromBigInt (intSize == 32): the same harness built
    with GOARCH=386 (pure Go, runs on the amd64 kernel).  Not being able to build or run it is recorded, not judged."""
    if "harness" not in ctx.harness_bin:
        return False
    out = os.path.join(ctx.work, "harness386")
    env = core.env_go()
    env["GOARCH"] = "386"
    env["CGO_ENABLED"] = "0"
    tags = "verif"
    cmd = ["go", "build", "-modfile=" + ctx._gomod(), "-o", out]
    if ctx.extra.get("overlay_fallback"):
        tags += " nooverlay"
    else:
        cmd += ["-overlay", os.path.join(ctx.work, "overlay.json")]
    cmd += ["-tags", tags, "./cmd/c02"]
    rc, o = core.sh(cmd, cwd=core.GO, env=env, timeout=900)
    if rc != 0:
        ctx.extra["goarch386"] = "not built: " + (o.strip().splitlines()[-1][:200] if o.strip() else "?")
        return False
    try:
        p = subprocess.run([out, "run", "conv"], input="u comps 0000000000000001:0000000000000002\n", stdout=subprocess.PIPE,
                           stderr=subprocess.PIPE, text=True, timeout=30)
        ok = p.returncode == 0 and p.stdout.startswith("0000000000000001:0000000000000002")
    except (OSError, subprocess.TimeoutExpired):
        ok = False
    if not ok:
        ctx.extra["goarch386"] = "built, but a 32-bit executable does not run here"
        return False
    ctx.harness_bin["h386"] = out
    ctx.extra["goarch386"] = "built and run: conv tie lines and the glue oracle repeated on a GOARCH=386 build"
    return True


def _tag(line, out):
    w = line.split(" ")
    if w[0] in ("u", "i") and len(w) > 1:
        t = w[0] + "." + w[1]
        if w[1] in ("fromstring", "unmarshal"):
            t += ".ok" if (out.startswith("ok") or out.startswith("1/")) else ".err"
        return t
    if w[0] == "f64op" and len(w) > 1:
        return "f64." + w[1]
    return w[0]


HARDENING_AUDIT = {
    "1 numeric magnitudes": "128-bit values: 0, +-1, both types' bounds, +-2^63, +-2^64 and +-1 around them, 2^k+-2, 10^k+-1, "
                            "hi in {0, all ones} with any lo, rounding ties of float64(lo) and of the sum; uint64 words: 1, "
                            "Max-1, 2^31/2^32/2^53/2^63 +-1, 10^k+-1; floats: 2^k and 10^k with neighbours over the whole "
                            "range, integer +-1/2, subnormals, largest finite, -0, NaN, Inf, decimal forms of the bounds; "
                            "big.Int: word-count boundaries, 10^k+-1, far out of range",
    "2 size thresholds": "literals with 1..1025 (rarely 5000) digits in bases 2/8/10/16 around 9/10, 16/17, 19/20, 32/33, 38-40, "
                         "64/65, 128/129, 256/257, 1000; big.Int with exactly 1-6, 8, 9, 16, 17, 32, 33, 64, 65, 1000 words and "
                         "an odd number of 32-bit words; Format widths / precisions 45, 64, 65, 128-130, 140, 256, 300",
    "3 rare entry points": "every exported conversion function of uint128.go / int128.go is called: From64, FromUint64, "
                           "FromFloat64, FromBigInt, FromString, FromStringNoCheck, FromComponents, Components, IsZero, "
                           "ToBigInt(dst), AsBigInt, AsBigFloat, AsFloat64, Is*/As* (7), AbsUint128, String, Format, Scan, "
                           "MarshalText/JSON/YAML, UnmarshalText/JSON/YAML, Float64(), Int64(); FromRand is not covered by "
                           "the property text and is not called; Format is called directly with a fmt.State of the harness (every flag "
                           "subset, widths / precisions 0..300) and through Sprintf, FromBigInt / ToBigInt also at the level of "
                           "Bits() (area words) on a 64-bit and on a 32-bit big.Word build",
    "4 callback outcomes": "yaml unmarshal callback: stores, stores nothing, returns a fresh / sentinel / EOF error, panics "
                           "(string, error, typed nil pointer); fmt.ScanState whose Token fails (EOF, unexpected EOF, "
                           "sentinel) or delivers the token: the receiver must be untouched unless the load succeeds",
    "5 aliasing and reuse": "ToBigInt into fresh, emptied-wide, 1/2/3/5/40-word, negative, all-ones destinations and into the "
                            "result of another value's ToBigInt, twice; AsBigInt results mutated (words flipped in place) then "
                            "fresh results and the package constants re-checked; FromBigInt's argument unchanged; "
                            "MarshalText result mutated; receivers reused after an error, then twice; area words: ToBigInt into "
                            "destinations of 0..13 32-bit words (smallest / largest / top-bit / random value of each width, either "
                            "sign) with Bits() of the result compared word for word; FromBigInt's argument checked unmodified",
    "6 shapes": "pre-filled struct / pointer / slice / map containers (json, yaml), null into pointer, **T, json.Decoder stream "
                "into one variable, array element; Scan of several tokens with the rest left readable",
    "7 oracle independence": "values built / read through injected word accessors (not FromComponents / Components / IsZero); "
                             "judged with math/big, the words, the hardware (f64) and the Lean model only; texts printed for "
                             "unsupported verbs and the value accompanying an error are not compared",
    "8 hangs and crashes": "every line runs under a 12 s deadline (answered `hang`, stream skipped after two); panics in the "
                           "line's goroutine become `panic`; stream timeout 300 s in the quick tier",
    "9 no false alarms": "no error texts, no unsupported-verb texts, no value-with-error, no struct layout; both controls "
                         "silent",
}


def run(ctx):
    ctx.extra["hardening_audit"] = HARDENING_AUDIT
    ctx.modelled += [
        "GoSem.F64 (binary64 as exact rationals rounded once per operation) is validated against the hardware by the "
        "f64 area of this check; math.Mod and math.Nextafter are modelled by their mathematical definition",
        "math/big is modelled mathematically: big.Int = Int, len(v.Bits()) = number of 64-bit words of |v| (the model "
        "is of the 64-bit big.Word branches; the intSize == 32 branches compute the same mathematical function and are "
        "compared with the same model and the same oracle on a GOARCH=386 build of the harness when it can be built "
        "and run, see coverage.goarch386); big.Int.SetString(s, 0) and big.Rat.SetString "
        "are transcribed from go1.24.2 math/big (natconv.go, ratconv.go) as scanners on bytes",
        "String/MarshalText/MarshalJSON/MarshalYAML: decimal digit generation (strconv.FormatUint, big.Int.String) is "
        "modelled by Conv.natDigits; Format (fmt.Formatter) is modelled as AsBigInt followed by (*big.Int).Format, "
        "transcribed statement for statement from go1.24.2 math/big/intconv.go (Conv.bigFormat: base of the verb, sign, "
        "base prefix, nat.utoa digits, precision zeros, width padding; flags, width and precision as the fmt.State "
        "reports them) and compared in the area `format` with the method called directly and through fmt.Sprintf "
        "(fmt's parsing of the format string is library plumbing; texts for verbs Format does not support are not "
        "compared); encoding/json and yaml.v3 plumbing is covered by the implementation-side oracle `glue` only; fmt.Scanner (Scan) is modelled as `one blank-delimited token, "
        "FromString (scanText token verb)` (Conv.scanText transcribes the unexported helper scanText) and compared in "
        "the area `scan` (tokenisation itself is fmt's)",
        "the float range constants of package num are read through a `//go:build verif` accessor injected by -overlay "
        "(go/overlay/c02_consts.go) and compared with the model's constants (line `consts`); /repo is not modified",
        "the constants and tables the model copies by hand (signBit, the bounds of both types, maxBigUint128, the integer "
        "literals of the float range constants, the verb / prefix / letters table of scanText, and the verb / base / "
        "prefix tables of the toolchain's (*big.Int).Format) are read out of the working tree's sources (and GOROOT) on "
        "every run into lean/Generated/C02Facts.lean; C02.source_constants_agree / source_scan_table_agrees / "
        "source_format_tables_agree prove the agreement (coverage.source_facts lists what was extracted; what a rewrite "
        "no longer spells in the expected form is skipped, never guessed)",
        "AsBigFloat is modelled as big.Float.SetInt (precision = max(bit length, 64), then rounding to that precision, "
        "Conv.bigFloatSetInt) and proved exact (C02.asBigFloat_exact); UnmarshalYAML's callback and Scan's ScanState are "
        "modelled as `fails or delivers a text` (Conv.*.unmarshalYAML / scanInto, C02.load_into_receiver)",
        "values are built from and read back as their two words through injected accessors (go/overlay/c02_words.go; "
        "memory layout under the nooverlay fallback), never through num.*FromComponents / Components, which are "
        "themselves compared (op `comps`); the oracles judge with math/big and the words only",
        "AsFloat64 (sign and one-ulp clauses) is proved for all 2^128 values of both types over GoSem.F64: the three "
        "roundings float64(hi), float64(lo), sum (nearest, ties to even; the product by 2^64 is exact) give a normal "
        "float m*2^e with the value's sign and |m*2^e - x| <= one unit in the last place, under both readings of the "
        "unit: 2^e of the result (asFloat64_within_ulp_u/_i) and 2^k of the exact value's binade "
        "(asFloat64_within_ulp_of_value_u/_i; they differ only when the result is rounded up to a power of two); the "
        "bound is attained up to 1 (hi = 2^53+1, lo = 2^64-1: error 2^65-1, unit 2^65) and needs ties-to-even",
        "Scan: text printed with a base verb reads back with the same verb is proved on the model for every value of "
        "both types, any sign form and any zero padding: decimal, binary, octal (%o and %O) and hexadecimal in lower and "
        "in upper case (C02.scan_reads_back_dec/_bin/_oct/_hex/_hex_upper), the hexadecimal texts containing the digit "
        "e/E included (they take the big.Rat branch: hexadecimal mantissa, no radix point, no exponent, denominator 1); "
        "widths, flags other than the sign and fmt's tokenisation are library plumbing (areas scan, glue)",
        "FromString `rejects text that is not an integer` is proved in both directions for every text "
        "(C02.fromString_rejects, C02.fromString_spec): the accepted texts are exactly the literals of a declarative "
        "grammar with their denoted value -- Conv.IsPlainIntLiteral for texts without e/E (sign, 0b/0o/0x/legacy-0 "
        "prefixes, single inner underscores, Horner value), Conv.IsExpIntLiteral for texts with e/E and without '/' "
        "(mantissa with optional prefix and radix point, e/E/p/P exponent fitting int64, exact rational value "
        "+-mantissa*base^(-fraction digits)*(10|2)^exponent equal to the integer result, stated over Mathlib's Q). "
        "The grammar includes math/big's limits on the collected exponents (|power of 5| <= 10^6, |power of 2| <= "
        "10^7): an integer literal beyond them (e.g. 1e1000001) is an error, not a saturated value -- this is the "
        "behaviour of the real code (replayed) and is part of the modelled grammar, not of the property text",
    ]
    ctx.assumptions += [
        "input texts are shorter than 2^31 bytes (the int64 arithmetic on digit counts in big.Rat.SetString does not wrap)",
        "conversions float64 -> uint64 outside the target range are implementation-defined in Go; the model gives them "
        "the outcome implDefined and Props/C02 proves that the modelled code never evaluates one",
    ]
    _hook_source_facts(ctx)
    ctx.lean(props=["Props.C02"], drivers=["drv_c02"])
    ctx.harness("./cmd/c02", overlay=OVERLAY)
    canon = None
    if ctx.extra.get("overlay_fallback"):
        canon = _canon_no_consts
        ctx.assumptions.append("the white-box accessor for the private float constants did not compile against this "
                               "tree; the `consts` line is not compared (black-box build, tag nooverlay)")
    tmo = 300 if ctx.tier == "quick" else 900   # a looping mutant is answered `hang` after 12 s per line by the harness
    ctx.diff(area="conv", driver="drv_c02", n={"quick": 200000, "thorough": 6000000},
             trivial=lambda l, o: l == "consts" and canon is not None, tagger=_tag, canon=canon, timeout=tmo,
             theorem="C02.* (model = specification: exact value, truncation, saturation, grammar); impl != model on "
                     "this input")
    ctx.diff(area="f64", driver="drv_c02", n={"quick": 120000, "thorough": 5000000},
             trivial=lambda l, o: False, tagger=_tag, timeout=tmo,
             theorem="the binary64 model GoSem.F64 differs from the hardware on this operation",
             what="validation of the float model that the C02 float theorems are stated over")
    ctx.diff(area="scan", driver="drv_c02", n={"quick": 60000, "thorough": 1500000}, timeout=tmo,
             trivial=lambda l, o: False, tagger=lambda l, o: "scan." + (l.split(" ")[2] if len(l.split(" ")) > 2 else "?") + (".ok" if o.startswith("ok") else ".err"),
             theorem="C02.scan_reads_back_* / fromString_spec (model = grammar); Scan reads one blank-delimited token and "
                     "must give FromString (scanText token verb); impl != model on this input",
             what="fmt.Scanner entry points Sscan/Sscanf/Sscanln/Fscan/Fscanf vs the model's fromString of the token")
    _words(ctx, "harness", {"quick": 24000, "thorough": 600000})
    _format(ctx, "harness", {"quick": 24000, "thorough": 600000}, tmo)
    ctx.impl_oracle("glue", n={"quick": 1000, "thorough": 40000}, timeout=tmo,
                    label="fmt/json/yaml/text/Scan/big.Float renderings equal math/big's and load back identically; "
                          "reused destinations, reused receivers, callback outcomes, pre-filled containers")
    if _build386(ctx):
        ctx.diff(area="conv", driver="drv_c02", name="h386", n={"quick": 30000, "thorough": 600000}, timeout=tmo,
                 trivial=lambda l, o: l == "consts" and canon is not None, tagger=lambda l, o: "386." + (_tag(l, o) or "?"),
                 canon=canon, shards=2 if ctx.tier == "quick" else None,
                 theorem="C02.* on a GOARCH=386 build (32-bit big.Word branches of ToBigInt / FromBigInt); impl != model "
                         "on this input",
                 what="same tie lines, harness built with GOARCH=386")
        _words(ctx, "h386", {"quick": 8000, "thorough": 200000})
        _format(ctx, "h386", {"quick": 6000, "thorough": 100000}, tmo)
        ctx.impl_oracle("glue", n={"quick": 300, "thorough": 8000}, name="h386", timeout=tmo,
                        label="glue oracle on a GOARCH=386 build (32-bit big.Word branches)")
