"""C02 — lossless conversion, printing and saturation of num.Uint128 / num.Int128.

Lean: executable model `Conv.*` (lean/Model/Conv128.lean) over the binary64 model `GoSem.F64` (lean/GoSem/F64.lean),
theorems in lean/Props/C02.lean (helper lemmas lean/Lemmas/F64*.lean, lean/Lemmas/Conv128*.lean).

Areas (harness go/cmd/c02):
  conv  tie lines `u|i fromfloat/asfloat/fromstring/unmarshal/frombig/asbig/str/narrow/from64/fromu64` and `consts`:
        real code vs Lean model, line by line (floats as IEEE bit patterns, strings as hex bytes)
  f64   `f64op <op> <bits> <bits>`: the binary64 model itself vs the hardware (add sub mul div math.Mod neg
        float64(uint64) float64(int64) uint64(f) int64(f) comparisons Nextafter-toward-zero)
  (conv also carries `comps` = FromComponents / Components / IsZero against the white-box words and `i abs` =
        AbsUint128; the conv lines and the glue oracle are repeated on a GOARCH=386 build for the 32-bit big.Word branches)
  glue  implementation-side identity oracle: fmt verbs, encoding/json, yaml.v3, MarshalText, Scan, AsBigFloat against
        math/big renderings of the same value (no Lean model); every rendering of Format (verbs d b o O x X with
        the flags # + space, zero padding, width, precision; v s and the bad verbs) is scanned back: with the verb it
        was printed with the identical value must come back; with %v, Sscan, Fscan: Scan(token) == FromString(token),
        identical value for self-describing texts
  scan  fmt.Scanner entry points (Uint128.Scan / Int128.Scan): `u|i scan <verb> <hex token>` answered by the model's
        Conv.*.scan = fromString (scanText token verb) and, on the implementation side, by Sscanf / Fscanf with that
        verb (and Sscan / Sscanln / Fscan for the verb v) around the token (leading blanks, separators, a following
        token that must stay readable)
"""

import os
import re
import subprocess

from vlib import core

OVERLAY = {"xmath/num/verif_c02.go": "c02_consts.go", "xmath/num/verif_c02w.go": "c02_words.go"}
_CONSTS = re.compile(r"^([0-9a-f]{16} ){5}[0-9a-f]{16}$")


def _canon_no_consts(out):
    """Black-box build (overlay fallback): the `consts` line is not observed on the implementation side, so neither the
    stub's token nor the model's six bit patterns take part in the comparison."""
    if out == "consts-unavailable" or _CONSTS.match(out):
        return "consts-not-compared"
    return out


def _build386(ctx):
    """Extra harness for the 32-bit big.Word branches of ToBigInt / FromBigInt (intSize == 32): the same harness built
    with GOARCH=386 (pure Go, runs on the amd64 kernel).  Not being able to build or run it is recorded, not judged."""
    if "harness" not in ctx.harness_bin:
        return False
    out = os.path.join(ctx.work, "harness386")
    env = core.env_go()
    env["GOARCH"] = "386"
    env["CGO_ENABLED"] = "0"
    tags = "verif"
    cmd = ["go", "build", "-modfile=" + ctx._gomod(), "-o", out]
    if ctx.extra.get("overlay_fallback"):
        tags += " nooverlay"
    else:
        cmd += ["-overlay", os.path.join(ctx.work, "overlay.json")]
    cmd += ["-tags", tags, "./cmd/c02"]
    rc, o = core.sh(cmd, cwd=core.GO, env=env, timeout=900)
    if rc != 0:
        ctx.extra["goarch386"] = "not built: " + (o.strip().splitlines()[-1][:200] if o.strip() else "?")
        return False
    try:
        p = subprocess.run([out, "run", "conv"], input="u comps 0000000000000001:0000000000000002\n", stdout=subprocess.PIPE,
                           stderr=subprocess.PIPE, text=True, timeout=30)
        ok = p.returncode == 0 and p.stdout.startswith("0000000000000001:0000000000000002")
    except (OSError, subprocess.TimeoutExpired):
        ok = False
    if not ok:
        ctx.extra["goarch386"] = "built, but a 32-bit executable does not run here"
        return False
    ctx.harness_bin["h386"] = out
    ctx.extra["goarch386"] = "built and run: conv tie lines and the glue oracle repeated on a GOARCH=386 build"
    return True


def _tag(line, out):
    w = line.split(" ")
    if w[0] in ("u", "i") and len(w) > 1:
        t = w[0] + "." + w[1]
        if w[1] in ("fromstring", "unmarshal"):
            t += ".ok" if (out.startswith("ok") or out.startswith("1/")) else ".err"
        return t
    if w[0] == "f64op" and len(w) > 1:
        return "f64." + w[1]
    return w[0]


HARDENING_AUDIT = {
    "1 numeric magnitudes": "128-bit values: 0, +-1, both types' bounds, +-2^63, +-2^64 and +-1 around them, 2^k+-2, 10^k+-1, "
                            "hi in {0, all ones} with any lo, rounding ties of float64(lo) and of the sum; uint64 words: 1, "
                            "Max-1, 2^31/2^32/2^53/2^63 +-1, 10^k+-1; floats: 2^k and 10^k with neighbours over the whole "
                            "range, integer +-1/2, subnormals, largest finite, -0, NaN, Inf, decimal forms of the bounds; "
                            "big.Int: word-count boundaries, 10^k+-1, far out of range",
    "2 size thresholds": "literals with 1..1025 (rarely 5000) digits in bases 2/8/10/16 around 9/10, 16/17, 19/20, 32/33, 38-40, "
                         "64/65, 128/129, 256/257, 1000; big.Int with exactly 1-6, 8, 9, 16, 17, 32, 33, 64, 65, 1000 words and "
                         "an odd number of 32-bit words; Format widths / precisions 45, 64, 65, 128-130, 140, 256, 300",
    "3 rare entry points": "every exported conversion function of uint128.go / int128.go is called: From64, FromUint64, "
                           "FromFloat64, FromBigInt, FromString, FromStringNoCheck, FromComponents, Components, IsZero, "
                           "ToBigInt(dst), AsBigInt, AsBigFloat, AsFloat64, Is*/As* (7), AbsUint128, String, Format, Scan, "
                           "MarshalText/JSON/YAML, UnmarshalText/JSON/YAML, Float64(), Int64(); FromRand is not covered by "
                           "the property text and is not called",
    "4 callback outcomes": "yaml unmarshal callback: stores, stores nothing, returns a fresh / sentinel / EOF error, panics "
                           "(string, error, typed nil pointer); fmt.ScanState whose Token fails (EOF, unexpected EOF, "
                           "sentinel) or delivers the token: the receiver must be untouched unless the load succeeds",
    "5 aliasing and reuse": "ToBigInt into fresh, emptied-wide, 1/2/3/5/40-word, negative, all-ones destinations and into the "
                            "result of another value's ToBigInt, twice; AsBigInt results mutated (words flipped in place) then "
                            "fresh results and the package constants re-checked; FromBigInt's argument unchanged; "
                            "MarshalText result mutated; receivers reused after an error, then twice",
    "6 shapes": "pre-filled struct / pointer / slice / map containers (json, yaml), null into pointer, **T, json.Decoder stream "
                "into one variable, array element; Scan of several tokens with the rest left readable",
    "7 oracle independence": "values built / read through injected word accessors (not FromComponents / Components / IsZero); "
                             "judged with math/big, the words, the hardware (f64) and the Lean model only; texts printed for "
                             "unsupported verbs and the value accompanying an error are not compared",
    "8 hangs and crashes": "every line runs under a 4 s deadline (answered `hang`, stream skipped after two); panics in the "
                           "line's goroutine become `panic`; stream timeout 300 s in the quick tier",
    "9 no false alarms": "no error texts, no unsupported-verb texts, no value-with-error, no struct layout; both controls "
                         "silent",
}


def run(ctx):
    ctx.extra["hardening_audit"] = HARDENING_AUDIT
    ctx.modelled += [
        "GoSem.F64 (binary64 as exact rationals rounded once per operation) is validated against the hardware by the "
        "f64 area of this check; math.Mod and math.Nextafter are modelled by their mathematical definition",
        "math/big is modelled mathematically: big.Int = Int, len(v.Bits()) = number of 64-bit words of |v| (the model "
        "is of the 64-bit big.Word branches; the intSize == 32 branches compute the same mathematical function and are "
        "compared with the same model and the same oracle on a GOARCH=386 build of the harness when it can be built "
        "and run, see coverage.goarch386); big.Int.SetString(s, 0) and big.Rat.SetString "
        "are transcribed from go1.24.2 math/big (natconv.go, ratconv.go) as scanners on bytes",
        "String/MarshalText/MarshalJSON/MarshalYAML: decimal digit generation (strconv.FormatUint, big.Int.String) is "
        "modelled by Conv.natDigits; fmt.Formatter, encoding/json and yaml.v3 plumbing is covered by the "
        "implementation-side oracle `glue` only; fmt.Scanner (Scan) is modelled as `one blank-delimited token, "
        "FromString (scanText token verb)` (Conv.scanText transcribes the unexported helper scanText) and compared in "
        "the area `scan` (tokenisation itself is fmt's)",
        "the float range constants of package num are read through a `//go:build verif` accessor injected by -overlay "
        "(go/overlay/c02_consts.go) and compared with the model's constants (line `consts`); /repo is not modified",
        "values are built from and read back as their two words through injected accessors (go/overlay/c02_words.go; "
        "memory layout under the nooverlay fallback), never through num.*FromComponents / Components, which are "
        "themselves compared (op `comps`); the oracles judge with math/big and the words only",
        "AsFloat64 (sign and one-ulp clauses) is proved for all 2^128 values of both types over GoSem.F64: the three "
        "roundings float64(hi), float64(lo), sum (nearest, ties to even; the product by 2^64 is exact) give a normal "
        "float m*2^e with the value's sign and |m*2^e - x| <= one unit in the last place, under both readings of the "
        "unit: 2^e of the result (asFloat64_within_ulp_u/_i) and 2^k of the exact value's binade "
        "(asFloat64_within_ulp_of_value_u/_i; they differ only when the result is rounded up to a power of two); the "
        "bound is attained up to 1 (hi = 2^53+1, lo = 2^64-1: error 2^65-1, unit 2^65) and needs ties-to-even",
        "Scan: text printed with a base verb reads back with the same verb is proved on the model for every value of "
        "both types, any sign form and any zero padding: decimal, binary, octal (%o and %O) and hexadecimal in lower and "
        "in upper case (C02.scan_reads_back_dec/_bin/_oct/_hex/_hex_upper), the hexadecimal texts containing the digit "
        "e/E included (they take the big.Rat branch: hexadecimal mantissa, no radix point, no exponent, denominator 1); "
        "widths, flags other than the sign and fmt's tokenisation are library plumbing (areas scan, glue)",
        "FromString `rejects text that is not an integer` is proved in both directions for every text "
        "(C02.fromString_rejects, C02.fromString_spec): the accepted texts are exactly the literals of a declarative "
        "grammar with their denoted value -- Conv.IsPlainIntLiteral for texts without e/E (sign, 0b/0o/0x/legacy-0 "
        "prefixes, single inner underscores, Horner value), Conv.IsExpIntLiteral for texts with e/E and without '/' "
        "(mantissa with optional prefix and radix point, e/E/p/P exponent fitting int64, exact rational value "
        "+-mantissa*base^(-fraction digits)*(10|2)^exponent equal to the integer result, stated over Mathlib's Q). "
        "The grammar includes math/big's limits on the collected exponents (|power of 5| <= 10^6, |power of 2| <= "
        "10^7): an integer literal beyond them (e.g. 1e1000001) is an error, not a saturated value -- this is the "
        "behaviour of the real code (replayed) and is part of the modelled grammar, not of the property text",
    ]
    ctx.assumptions += [
        "input texts are shorter than 2^31 bytes (the int64 arithmetic on digit counts in big.Rat.SetString does not wrap)",
        "conversions float64 -> uint64 outside the target range are implementation-defined in Go; the model gives them "
        "the outcome implDefined and Props/C02 proves that the modelled code never evaluates one",
    ]
    ctx.lean(props=["Props.C02"], drivers=["drv_c02"])
    ctx.harness("./cmd/c02", overlay=OVERLAY)
    canon = None
    if ctx.extra.get("overlay_fallback"):
        canon = _canon_no_consts
        ctx.assumptions.append("the white-box accessor for the private float constants did not compile against this "
                               "tree; the `consts` line is not compared (black-box build, tag nooverlay)")
    tmo = 300 if ctx.tier == "quick" else 900   # a looping mutant is answered `hang` after 4 s per line by the harness
    ctx.diff(area="conv", driver="drv_c02", n={"quick": 200000, "thorough": 6000000},
             trivial=lambda l, o: l == "consts" and canon is not None, tagger=_tag, canon=canon, timeout=tmo,
             theorem="C02.* (model = specification: exact value, truncation, saturation, grammar); impl != model on "
                     "this input")
    ctx.diff(area="f64", driver="drv_c02", n={"quick": 120000, "thorough": 5000000},
             trivial=lambda l, o: False, tagger=_tag, timeout=tmo,
             theorem="the binary64 model GoSem.F64 differs from the hardware on this operation",
             what="validation of the float model that the C02 float theorems are stated over")
    ctx.diff(area="scan", driver="drv_c02", n={"quick": 60000, "thorough": 1500000}, timeout=tmo,
             trivial=lambda l, o: False, tagger=lambda l, o: "scan." + (l.split(" ")[2] if len(l.split(" ")) > 2 else "?") + (".ok" if o.startswith("ok") else ".err"),
             theorem="C02.scan_reads_back_* / fromString_spec (model = grammar); Scan reads one blank-delimited token and "
                     "must give FromString (scanText token verb); impl != model on this input",
             what="fmt.Scanner entry points Sscan/Sscanf/Sscanln/Fscan/Fscanf vs the model's fromString of the token")
    ctx.impl_oracle("glue", n={"quick": 1000, "thorough": 40000}, timeout=tmo,
                    label="fmt/json/yaml/text/Scan/big.Float renderings equal math/big's and load back identically; "
                          "reused destinations, reused receivers, callback outcomes, pre-filled containers")
    if _build386(ctx):
        ctx.diff(area="conv", driver="drv_c02", name="h386", n={"quick": 30000, "thorough": 600000}, timeout=tmo,
                 trivial=lambda l, o: l == "consts" and canon is not None, tagger=lambda l, o: "386." + (_tag(l, o) or "?"),
                 canon=canon, shards=2 if ctx.tier == "quick" else None,
                 theorem="C02.* on a GOARCH=386 build (32-bit big.Word branches of ToBigInt / FromBigInt); impl != model "
                         "on this input",
                 what="same tie lines, harness built with GOARCH=386")
        ctx.impl_oracle("glue", n={"quick": 300, "thorough": 8000}, name="h386", timeout=tmo,
                        label="glue oracle on a GOARCH=386 build (32-bit big.Word branches)")
