"""C10 — command-line parsing: Lean model `Cmd.*` (Model/Cmdline.lean), theorems Props/C10.lean, driver drv_c10,
harness go/cmd/c10 (lines marked `pc` run in a child process because the fatal path ends in os.Exit)."""


def _trivial(line, out):
    return False


def _tag(line, out):
    w = line.split(" ")
    t = "child" if w[0] == "pc" else "inproc"
    if out.startswith("ok"):
        r = "ok"
    else:
        r = out.split(":")[0]
    return t + ":" + r + (":files" if " F " in line else "")


def run(ctx):
    ctx.modelled += [
        "strings are byte lists; `Value.Set` is modelled exactly for bool / all integer kinds / string / the harness's "
        "logging Value; for float32, float64 and time.Duration the results of strconv.ParseFloat / time.ParseDuration "
        "on every string that can reach `Set` are supplied on the operation line by the generator (section R)",
        "response files are a finite map path -> lines; the harness writes them into a temporary directory; arguments "
        "containing a newline or ending in CR and lines over 64 KiB are outside the domain",
        "the text of error / usage / version messages is not compared; observed are: option variables, remaining "
        "arguments, exit status (1 = fatal or help, 0 = version), that the exit went through atexit.Exit",
    ]
    ctx.assumptions += ["response-file arguments contain no newline, do not end in CR, lines < 64 KiB"]
    ctx.extra["not_claimed_observations"] = [
        "a bare `-` where an option is expected is silently dropped (Props.C10.observation_bare_dash_dropped)",
        "a first positional that starts with `-` or `@` without a preceding `--` is an option / response file by "
        "construction",
        "a response-file reference in value position is taken literally "
        "(Props.C10.observation_reference_in_value_position)",
    ]
    ctx.lean(props=["Props.C10"], drivers=["drv_c10"])
    ctx.harness("./cmd/c10")
    ctx.diff(area="parse", driver="drv_c10", n={"quick": 60000, "thorough": 800000}, shards=14,
             trivial=_trivial, tagger=_tag,
             theorem="C10.parse_render / response_split / malformed_* (Props/C10.lean) are about the model; "
                     "the implementation differs from the model on this argument vector")
