"""C10 — command-line parsing: Lean model `Cmd.*` (Model/Cmdline.lean), theorems Props/C10.lean, driver drv_c10,
harness go/cmd/c10 (lines marked `pc` run in a child process because the fatal path ends in os.Exit)."""


def _trivial(line, out):
    return False


def _tag(line, out):
    w = line.split(" ")
    if w[0] == "fx":
        return "fx:" + w[1] + ":" + out.split(":")[0]
    if w[0] in ("gs", "gf"):
        if w[0] == "gf" and "err:" in out:
            return "generalvalue:%s:%s:failing-set-store" % ("slice" if w[1].startswith("[]") else "scalar", w[1].lstrip("[]"))
        return "generalvalue:%s:%s:%s" % ("slice" if w[1].startswith("[]") else "scalar",
                                          "string" if w[1].endswith("string") else "bool" if w[1].endswith("bool") else "integer",
                                          "refused" if out.endswith("err") else "%dsets" % min(len(w) - 3, 3))
    if w[0] == "ax":
        regs = sum(1 for x in w[2:] if x.startswith("r:"))
        acts = {x[2] for x in w[2:] if x.startswith("r:")}
        end = "exit" if w[1].isdigit() else "parse" if w[1].startswith("P") else "fatalapi"
        return "atexit:%s:%s:%s%s%s" % (end + (":" + out.split(" ")[0] if end != "exit" else ""), "0regs" if regs == 0 else "1-3regs" if regs <= 3 else "4-15regs" if regs < 16 else "16+regs",
                                     "unreg" if any(x.startswith("u") for x in w[2:]) else "nounreg",
                                     ":panics" if acts & set("sentz") else "", ":reentrant" if acts & set("xgu") else "")
    if " F 664c=" in line:
        return "longline:" + ("ok" if out.startswith("ok") else out.split(":")[0])
    t = "child" if w[0] == "pc" else "inproc"
    if out.startswith("ok"):
        r = "ok"
    else:
        r = out.split(":")[0]
    f = ""
    if " F " in line:
        f = ":rawfiles" if "=" in line.split(" F ", 1)[1].split(" A ", 1)[0].split(" R ", 1)[0] else ":files"
    if "B" in w or "C" in w:
        f += ":twice"
    if " O " in line:
        no = sum(1 for x in line.split(" O ", 1)[1].split(" ") if x.count(":") == 3)
        if no >= 17:
            f += ":17+opts"
    return t + ":" + r + f


HARDENING = {
    "1 numeric magnitudes": "every integer kind at min/max, half range, each +-2, in bases 10/16/8/2 with and without "
                            "sign; powers of ten +-1 up to 1e20; float32 midpoints (1+2^-24, 2^24+1, max finite/2^128) "
                            "with one-ulp and double-rounding neighbours, subnormals, float64 limits, -0, hex floats; "
                            "durations in every unit, fractional, at +-2^63 ns and one beyond",
    "2 size thresholds": "11..130 options on one command line; 31..1100 assignments; 16..300 positionals; up to 40 "
                         "response files nested 14 deep; values of 100..30000 bytes; 20..300 digit numbers",
    "3 entry points": "every declaration route, chosen per option: NewGeneralOption(ptr), NewOption(&GeneralValue{ptr}) "
                      "(same flag-ness, also for *bool), NewOption(user Value around a GeneralValue: a bool behind it "
                      "is value-taking, kind wbool), NewOption(logging Value); the CmdLine from New or the one "
                      "AddCommand/RunCommand hands to a sub-command (also via the built-in help command); setters in "
                      "both orders, repeated SetSingle/SetName; RunCommand error returns; "
                      "New(true/false), NewOption, NewGeneralOption (the 28 supported pointer types, and *[]float32 / *[]float64 which Set refuses as unhandled), SetSingle, SetName, SetArg, "
                      "SetDefault, SetUsage, Parse (also twice), FatalMsg, FatalError, FatalIfError(nil / error), "
                      "SetWriter (stdout, failing writer), Write; DisplayUsage + Options.Len/Less/Swap run on the help "
                      "path (exit status and the presence of usage text are observed, not its wording)",
    "4 callback outcomes": "user Value.Set returning nil, a fresh error, a reused sentinel, a typed-nil error; exit "
                           "functions that panic in five ways around the marker function; a writer that fails; "
                           "unreadable response files (missing, directory, a line of 64 KiB or more); exit "
                           "functions that Register / Unregister / call Exit while the exit is running",
    "5 aliasing and reuse": "argument slices with spare capacity 0..1000 (prefix of a larger array); several "
                            "arguments after an @file; a second Parse on the same CmdLine, naming a response file again",
    "6 history shapes": "empty vector, only `--`, only an @file, empty file, file of blank lines, the same option "
                        "many times, same file twice (fatal), built-ins with user options, both Parse calls",
    "7 oracle independence": "integer/bool/string/float/duration acceptance and values come from the Lean model; only "
                             "hexadecimal and digit-separated float texts from strconv called by the generator with the "
                             "DECLARED width (never through the library)",
    "8 hangs and crashes": "children: 5 s limit, one retry, stream stops after three hangs; in-process lines: 8 s "
                           "watchdog then a child; panics are reported as `panic`",
    "9 no false alarms": "message and usage wording, capacity and contents of the caller's array behind the vector, "
                         "order of usage lines are not compared",
}


FACTS_TEMPLATE = """/-! GENERATED by vlib/C10.py on every run of `./check C10` (deleted and rewritten): constants of the Go toolchain the
    harness was built with, printed by `harness facts`.  Do not edit. -/
namespace Generated.C10

/-- `bufio.MaxScanTokenSize` -/
def maxScanTokenSize : Nat := %d

end Generated.C10
"""


def _facts(ctx):
    """lean/Generated/C10Facts.lean: bufio.MaxScanTokenSize as the compiler of the harness sees it (Cmd.maxToken reads it:
    a toolchain with another value re-instantiates model, lemmas and long-line streams instead of diverging)."""
    import os
    import subprocess
    from . import core
    path = os.path.join(core.LEAN, "Generated", "C10Facts.lean")
    exe = ctx.harness_bin.get("harness")
    if not exe:
        return
    out = subprocess.run([exe, "facts"], stdout=subprocess.PIPE, text=True, timeout=60).stdout
    vals = dict(l.split() for l in out.splitlines() if len(l.split()) == 2)
    n = int(vals["maxScanTokenSize"])
    text = FACTS_TEMPLATE % n
    # replaced on every run (atomically: a concurrent check against another working tree reads either version, and both
    # are derived from the same toolchain)
    tmp = path + ".tmp%d" % os.getpid()
    open(tmp, "w").write(text)
    os.replace(tmp, path)
    ctx.extra["generated_facts"] = {"lean/Generated/C10Facts.lean": {"maxScanTokenSize": n, "source": "harness facts (bufio.MaxScanTokenSize of the Go toolchain)"}}
    ctx.checker_cmds.append("harness facts > lean/Generated/C10Facts.lean   (bufio.MaxScanTokenSize = %d)" % n)


def run(ctx):
    ctx.modelled += [
        "strings are byte lists; `GeneralValue.Set` is transcribed case by case (Cmd.setVar: ParseBool table, "
        "ParseInt/ParseUint base 0 with prefixes, underscore rule and the bit size of the kind, string, scalar "
        "overwrite / slice append) and the driver prints the store of option variables obtained by applying the Set "
        "calls of the run in order (Cmd.applySets); float32 / float64 values are COMPUTED by the model (Cmd.floatVal: "
        "SoftFloat.parse of Model/EvalSoftFloat.lean - decimal literals, inf, nan, correctly rounded at the declared "
        "width, overflow refused - compared bit for bit), time.Duration values by a transcription of time.ParseDuration "
        "(Cmd.parseDuration, fractions through the float64 model); only hexadecimal floats and float texts with digit "
        "separators still take the strconv result from the operation line (section R)",
        "response files are a finite map path -> lines; the harness writes them into a temporary directory, either as "
        "LF-terminated lines or from raw bytes (CRLF, missing final newline, blank lines, lone CR) which the model "
        "splits like bufio.Scanner (Cmd.linesOf) and refuses as a whole when a line fills the scanner's 64 KiB buffer "
        "(Cmd.readFile / Cmd.tooLong: loadArgsFromFile returns scanner.Err(), Parse exits); long-line files are given "
        "run-length encoded (tag longline:*)",
        "atexit (Register / Unregister / Exit) is the model AtExit.*: `ax` lines are a history of Register / Unregister "
        "calls in a child process whose exit functions print their number and then do nothing, panic in five ways, call "
        "Exit again, Register or Unregister; the process ends by a direct Exit(n), by FatalMsg / FatalError / "
        "FatalIfError, or by Parse of a malformed / help / version / valid vector (Cmd.processEnd: the outcome of Parse "
        "decides between returning and Exit(status)); compared are the functions run, in order, and the exit status",
        "harness-side variations that must not change the result are derived from a hash of the line: spare capacity "
        "of the argument slice (0..1000), SetUsage/SetArg/SetDefault calls, SetWriter(os.Stdout) in the child, exit "
        "functions that panic (string, error, runtime error, typed nil, nil) registered before/after the marker, the "
        "kind of error the logging Value returns (fresh, sentinel, typed nil)",
        "the text of error / usage / version messages is not compared; observed are: option variables, remaining "
        "arguments, exit status (1 = fatal or help, 0 = version), that the exit went through atexit.Exit",
    ]
    ctx.assumptions += ["response-file arguments contain no newline",
                        "floating-point texts in hexadecimal or with digit separators are converted by strconv (oracle "
                        "section R); every other float text and every duration text is converted by the model"]
    ctx.extra["not_claimed_observations"] = [
        "a first positional that starts with `-` (other than a lone `-`) or `@` without a preceding `--` is an option / response file by "
        "construction",
        "a response-file reference in value position is taken literally "
        "(Props.C10.observation_reference_in_value_position)",
    ]
    ctx.extra["hardening_audit"] = HARDENING
    import time
    t0 = time.time()
    ctx.harness("./cmd/c10")
    t1 = time.time()
    _facts(ctx)
    ctx.lean(props=["Props.C10"], drivers=["drv_c10"])
    t2 = time.time()
    ctx.extra["phase_seconds"] = {"lean (incl. waiting for the shared Lean lock)": round(t2 - t1, 1),
                                  "go build": round(t1 - t0, 1)}
    ctx.diff(area="parse", driver="drv_c10", n={"quick": 60000, "thorough": 800000}, shards=14,
             trivial=_trivial, tagger=_tag,
             theorem="C10.parse_render / response_split* / malformed_* / exit_after_history (Props/C10.lean) are about the model; "
                     "the implementation differs from the model on this argument vector")
    ctx.extra["phase_seconds"]["correspondence run"] = round(time.time() - t2, 1)
