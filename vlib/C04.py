"""C04 — fixed-point text round trip: Lean model `FixedText` (Model/FixedText.lean), theorems Props/C04.lean.

Correspondence areas (model vs. real code, all 16 configurations x {f64, f128}):
  val    String / StringWithSign / Comma / CommaWithSign of a raw value, FromString of each rendering, and (on the
         implementation side only, token `lib-ok`) every library round trip: MarshalText/UnmarshalText, encoding/json
         (bare, quoted, inside struct/map/slice), yaml.v3 (bare, quoted, inside struct/map/slice), FromStringForced
  parse  FromString and UnmarshalText of literals, near misses, arbitrary byte strings and exponent literals; the model
         is `fromStrX64/128` (Model/FixedTextExp.lean): value / err / impl (f64: float -> int64 conversion outside int64,
         implementation-defined in Go, decided by the harness with strconv + the hardware product); underscore
         separators and hexadecimal floats (the other grammars of ParseFloat a text with an e can reach) are modelled too
  as     As / CheckedAs for the eleven integer target types
  txtfn  txt.Unquote, txt.CommaFromStringNum on arbitrary bytes
  fltm   the float branch at the executed Lean instance (Model/FixedTextFloat.lean over GoSem.F64): `cfm` = As / CheckedAs to
         float32 / float64 bit for bit (and `wrong-error` unless a failure is fixed.ErrDoesNotFitInRequestedType itself),
         `pf` = strconv.ParseFloat of decimal texts, `ff` = strconv.FormatFloat(x,'f',-1,bits), `pfx` = strconv.ParseFloat(t,64)
         against the model's whole ParseFloat `parseFloatAny` (strconv.special: nan / inf / infinity and their neighbours, and
         the texts of the exponent branch)
  (val also: `cfg` = MaxDecimalDigits/Multiplier of both packages, `ext` = f128.Maximum/Minimum; txtfn also: `commai` =
  txt.Comma[T] of every integer type)
Every harness line runs under a 2.5 s deadline (`hang`; after three hangs the rest of the stream is skipped).
Implementation-side oracles (no Lean model): misc (txt.Comma of floats, Fraction text forms), float (CheckedAs/As to float32/float64 against an exact-rational oracle),
exp (exponent literals: no panic, FromString = From(ParseFloat))."""


def _oracle(ctx, area, n, label):
    """Like ctx.impl_oracle, but the hand-written corpus lines of the area run first."""
    if "harness" not in ctx.harness_bin or ctx.replay:
        return
    total = n[ctx.tier] if isinstance(n, dict) else n
    lines = ctx.corpus(area) + ctx.gen(area, ctx.seed * 7919 + 17, total)
    outs = ctx.run_impl(area, lines)
    if outs is None:
        return
    ctx.rules.append("area %s (%s): implementation-side oracle, no Lean model; counted separately" % (area, label))
    bad = 0
    key = "oracle_" + area
    for l, o in zip(lines, outs):
        ctx.extra[key] = ctx.extra.get(key, 0) + 1
        if o.startswith("FAIL") or o.startswith("crash") or o == "panic" or not o.startswith("ok"):
            known = ctx._known_match(area, l, [l])
            if known:
                ctx.known_hits.append(known)
                ctx.extra[key + "_known"] = ctx.extra.get(key + "_known", 0) + 1
                continue
            bad += 1
            if bad <= 3:
                rep = {"property": ctx.id, "kind": "impl-oracle", "area": area, "harness": "harness", "ops": [l],
                       "impl_outputs": [o], "concrete_failing_input": True, "note": label}
                ctx.violations.append({"kind": "impl-oracle", "what": "%s: %s on `%s`" % (area, o[:200], l[:160]),
                                       "replay": ctx._write_replay(rep), "concrete": True})
        else:
            t = key + "_" + o.replace(" ", "_")[:24]
            ctx.extra[t] = ctx.extra.get(t, 0) + 1
            if len(ctx.samples) < 16 and ctx.extra[key] % 5000 == 1:
                ctx.samples.append({"area": area, "op": l[:200], "oracle": o[:200]})


def _parse_tag(l, o):
    """class of the input text x outcome of the model, printed into the evidence (generator distribution)"""
    import re
    try:
        b = bytes.fromhex(l.split(" ")[3])
    except Exception:
        b = b""
    t = b.replace(b",", b"")
    if b"e" in t or b"E" in t:
        body = t.lstrip(b"+-")
        cls = "hexfloat" if body[:2].lower() == b"0x" else ("underscore" if b"_" in t else "exponent")
    elif b[:1] == b'"':
        cls = "quoted"
    elif re.fullmatch(rb"[+-]?[0-9,]*(\.[0-9,]*)?", b) and re.search(rb"[0-9]", b):
        cls = "plain-literal"
    else:
        cls = "other"
    return "parse:%s:%s" % (cls, o.split(" ", 1)[0].split(":", 1)[0])


def run(ctx):
    ctx.modelled += [
        "strings are byte lists; strconv.ParseInt(s,10,64) and big.Int.SetString(s,10) are modelled by their grammar "
        "([+-]?[0-9]+, range check for ParseInt); strconv.FormatInt / Int128.String by the decimal digit list",
        "num.Int128 Div/Mul/Sub/Neg/AsInt64/Int128FromBigInt enter by their arithmetic contracts (truncated division, "
        "wrap-around mod 2^128, saturation) — their own verification is C01/C02",
        "encoding/json and yaml.v3 are outside the model: the harness feeds every rendering through them and reports "
        "any non-identity as `lib-FAIL`",
        "exponent literals (strconv.ParseFloat detour, Appendix B: not plain literals) are modelled "
        "(Model/FixedTextExp.lean, run on every `parse` line): strconv.ParseFloat(t,64) on the decimal exponent grammar "
        "= correctly rounded conversion GoSem.F64.ofRat of the denoted rational (ErrRange on +-Inf, exponent accumulator "
        "saturating as in strconv.readFloat; underscores skipped and judged by a transcription of strconv.underscoreOK; "
        "hexadecimal floats 0x..p.. rounded once), then the C03 model of From[T](float64); no text is left outside the "
        "model; the implementation-side oracle `exp` (From(ParseFloat) recomputed with the stdlib) stays as a second "
        "opinion",
        "float targets of As/CheckedAs: modelled at the instance GoSem.F64 (Model/FixedTextFloat.lean) with "
        "strconv.ParseFloat = nearest float to the denoted rational (GoSem.F64.ofRat / Fixed.round32) and "
        "strconv.FormatFloat(-1) = first text by digit count that parses back; both definitions are compared with the "
        "real strconv functions on every run (`pf`, `ff`); minimality of the text and nearest-ness of ofRat are not "
        "proved in Lean; the big.Rat oracle `float` stays as an independent second opinion",
    ]
    ctx.assumptions += [
        "'never some other number' is read over literals whose truncated value is representable; beyond the range "
        "f64 wraps and f128 saturates (model and code are compared there, no alarm on the wrap itself)",
        "int, uint and uintptr are 64-bit (the harness platform)",
        "strconv.ParseFloat is the correctly rounded conversion EXCEPT on decimal mantissas with more than 800 digits in "
        "front of the point (observed, Go 1.23: its slow path stores 800 digits and then misplaces the decimal point, "
        "ParseFloat('1'+800 zeros+'e-800') = 0.1); on those texts of the exponent branch model and harness both print "
        "`long` (same definition on both sides, Model/FixedTextExp.lean longMantissa) and nothing is compared",
        "integer CheckedAs is read literally ('converting it back yields the original'): f64.CheckedAs to "
        "uint64/uint/uintptr accepts negative whole numbers (D1 raw -10 -> 18446744073709551615, nil) because "
        "From converts back through int64; f128 rejects them; the model transcribes both, no alarm is raised",
    ]
    ctx.lean(props=["Props.C04"], drivers=["drv_c04"])
    ctx.harness("./cmd/c04")
    thm = "C04.%s (model = spec); impl != model on this input"
    ctx.diff(area="val", driver="drv_c04", n={"quick": 36000, "thorough": 3000000}, shards=None if ctx.tier == "thorough" else 8,
             theorem=thm % "toString_shape / toString_exact / toString_canonical / roundtrip_configs64 / roundtrip_configs128 / comma_shape / withSign_forms")
    ctx.diff(area="parse", driver="drv_c04", n={"quick": 120000, "thorough": 6000000},
             tagger=_parse_tag, trivial=lambda l, o: o.startswith("long"),
             theorem=thm % "fromString_literal_all64 / fromString_literal_all128 / fromString_accepts64 / fromString_accepts128 / fromStringX_refines / fromStringX_total / fromString_never_panics / exp_literal_bound64 / exp_literal_bound128 / exp_literal_zero")
    ctx.diff(area="as", driver="drv_c04", n={"quick": 60000, "thorough": 3000000},
             tagger=lambda l, o: "as:" + o.split(" ")[-1].split(":", 1)[0],
             theorem=thm % "checkedAs_int_iff64 / checkedAs_int_iff128 / as_eq_checkedAs64 / as_eq_checkedAs128")
    ctx.diff(area="txtfn", driver="drv_c04", n={"quick": 30000, "thorough": 1000000},
             theorem=thm % "unquote_quoted / unquote_bare / unquote_short / comma_only_adds_commas / comma_int")
    ctx.diff(area="fltm", driver="drv_c04", n={"quick": 40000, "thorough": 2000000}, shards=None if ctx.tier == "thorough" else 8,
             tagger=lambda l, o: "fltm:" + l.split(" ", 1)[0] + (":" + o.split(" ")[-1].split(":", 1)[0] if l.startswith("cfm") else ""),
             theorem=thm % "checkedAs_float_go64 / checkedAs_float_go128_sound / parseFloat_toString / formatFloat_roundtrip")
    _oracle(ctx, "float", {"quick": 60000, "thorough": 3000000},
            "CheckedAs/As to float32/float64: succeeds iff the shortest round-trip decimal of the float nearest to "
            "raw/10^D denotes exactly raw/10^D (big.Rat + strconv)")
    _oracle(ctx, "exp", {"quick": 20000, "thorough": 500000},
            "exponent literals: no panic; FromString(s) = From(ParseFloat(s without commas)); entry points agree")
    _oracle(ctx, "misc", {"quick": 20000, "thorough": 500000},
            "txt.Comma of floats against an independent grouping of fmt's %v text; Fraction String / StringWithSign / "
            "MarshalJSON / UnmarshalJSON (denominator > 0) as compositions of the Int renderings")
