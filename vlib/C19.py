"""C19 — archive extraction: Lean model `Ex.tarExtract` / `Ex.zipExtract` (Model/Extract.lean), theorems Props/C19.lean.

Every line is one sandbox + one archive; the real extractor runs in a fresh temporary directory and the whole tree
under and beside the destination (types, modes, lengths, content hashes, link targets, inode sharing) plus ok/err is
compared with the model's."""


def _tag(line, out):
    fmt = line.split(" ", 1)[0]
    res = out.split(" ", 1)[0]
    t = fmt + ":" + res
    n = line.count(" e:")
    if n >= 12:
        t += "+entries>=" + ("1000" if n >= 1000 else "256" if n >= 256 else "100" if n >= 100 else "32" if n >= 32 else "12")
    if " w:" in line:
        t += "+write-fault"
    i = line.rfind(" v:")
    if i >= 0:
        t += "+via-" + {"x": "Extract", "a": "ExtractArchive", "am": "ExtractArchiveWithMask",
                        "missing": "Archive-missing-file", "cut": "Archive-cut-file"}.get(line[i + 3:].split(" ")[0], "?")
    return t


def _form_tag(line, out):
    """distribution of the dstform area: working directory x kind of spelling x outcome"""
    cw = dd = ""
    for w in line.split(" "):
        if w.startswith("cw:"):
            cw = "" if w[3:] == "-" else bytes.fromhex(w[3:]).decode("latin1")
        if w.startswith("dd:"):
            dd = "" if w[3:] == "-" else bytes.fromhex(w[3:]).decode("latin1")
    if " cg:1" in line:
        cw = "GONE"
    kind = "absolute" if dd.startswith("/") else "relative"
    clean = dd not in ("", ".") and not dd.endswith("/") and "//" not in dd and "/./" not in dd and \
        not dd.startswith("./") and not dd.endswith("/.") and ".." not in dd
    return "dstform:cwd=%s:%s-%s:%s" % (cw or "T", kind, "clean" if clean else "unclean", out.split(" ", 1)[0])


def _guard_tag(line, out):
    """distribution of the guard area: where the path lies relative to the root x outcome"""
    gr = gp = ""
    for w in line.split(" "):
        if w.startswith("gr:"):
            gr = "" if w[3:] == "-" else bytes.fromhex(w[3:]).decode("latin1")
        if w.startswith("gp:"):
            gp = "" if w[3:] == "-" else bytes.fromhex(w[3:]).decode("latin1")
    rel = "equal" if gp == gr else "below" if gr == "" or gp.startswith(gr + "/") else "not-below(dotdot)"
    return "guard:%s:%s" % (rel, out.split(" ", 1)[0])


def _api_surface(ctx):
    """exported functions of the two anchored files, read from the repository on every run; every one of them has a model
    counterpart and is called by the harness (recorded in the evidence; an exported function without a counterpart is
    listed as NOT modelled)"""
    import os
    import re
    known = {"ExtractArchive": "Ex.tarExtractArchiveF / zipExtractArchiveF (v:a, v:missing, v:cut)",
             "ExtractArchiveWithMask": "Ex.tarExtractArchiveWithMaskF / zipExtractArchiveWithMaskF (v:am, v:missing, v:cut)",
             "Extract": "Ex.tarExtractDefaultF / zipExtractDefaultF (v:x)",
             "ExtractWithMask": "Ex.tarExtractWithMaskFromF / zipExtractWithMaskFromF (areas dstform, closefault), "
                                "Ex.tarExtractF / zipExtractF on the absolute destination (areas extract, dstlinkm)"}
    out = {}
    for rel in ("xio/fs/tar/untar.go", "xio/fs/zip/unzip.go"):
        try:
            src = open(os.path.join(ctx.repo, rel)).read()
        except OSError:
            out[rel] = "unreadable"
            continue
        names = re.findall(r"^func ([A-Z]\w*)\(", src, re.M)
        out[rel] = {n: known.get(n, "NOT modelled, not called by the harness") for n in names}
        for n in names:
            if n not in known:
                ctx.assumptions.append("exported function %s of %s has no model and is not exercised" % (n, rel))
    ctx.extra["api_surface"] = out


def run(ctx):
    _api_surface(ctx)
    ctx.modelled += [
        "the driver executes the RESOLVING model (Model/ExtractR.lean: walk follows symbolic links as the kernel does, "
        "os.MkdirAll / EnsureNoSymlinks transcribed call by call); C19.resolving_is_lexical proves it equal to the "
        "lexical model of the other theorems when the guard is called, C19.guardless_escapes shows the guard-less "
        "loops escape; area dstlinkm runs it against the real code with the destination a symbolic link (dl:1..7: "
        "relative, absolute, with dots, a chain, out of the sandbox and back, chains of 40 links = followed and 41 = "
        "ELOOP) and with the destination's PARENT missing (dp:1: created by MkdirAll; inside the theorems: RInv allows "
        "missing ancestors) or a symbolic link / chain / absolute link to a directory elsewhere (dp:2..4: extraction "
        "lands in the physical place; differential run only, no theorem), which exercises the link-following itself",
        "not modelled: node types other than directory / regular file / symbolic link (a pre-existing fifo, socket or "
        "device at an entry path), NAME_MAX/PATH_MAX/NUL, a resolution that traverses more than length+4096 components",
        "privileged process: permission bits never make a call fail (model and correspondence run); for an ordinary "
        "user extract_reproduces' \"no error\" needs u+wx on every directory that later receives a child",
        "archive/tar and archive/zip readers/writers are used as they are; the model sees the entries the readers yield",
    ]
    ctx.assumptions += [
        "the correspondence run has CAP_DAC_OVERRIDE (root) or, if not, restricts modes/masks to owner-rwx so that "
        "permission bits never make a system call fail; umask is set to 0 by the harness",
        "no concurrent modification of the destination during extraction",
    ]
    ctx.modelled += [
        "faults: truncated tar stream (tar.Writer output cut after k payload bytes), unreadable tar header, zip CRC "
        "mismatch (payload byte flipped), and failed writes (RLIMIT_FSIZE set by the harness around the extraction: "
        "the kernel writes up to the limit, then EFBIG)",
    ]
    ctx.modelled += [
        "first clause (creates exactly what the archive records) is PROVED on the model for both loops: "
        "C19.extract_reproduces (tar) and C19.extract_reproduces_zip (zip) — for a well-formed archive (every entry a "
        "file/dir/symlink/hard link whose name cleans to a proper descendant of the root; no later entry equal to or an "
        "ancestor of an earlier one; nothing beneath a non-directory entry; hard-link targets name earlier file/link "
        "entries; payloads complete; symlink targets non-empty) extracted into an empty destination (an existing "
        "directory, or missing with its existing ancestors real directories) the run is error-free and a path below the destination exists iff it is an entry path or an ancestor of one, with "
        "the recorded type, masked mode, complete content, verbatim link target, shared inode for hard links, distinct "
        "inodes for distinct regular entries; implied parents have the mode MkdirAll gave them (0o755&mask, or the "
        "perm&mask of the first entry beneath them when that is a directory entry)",
        "C19.extract_reproduces_distinct (tar, the former extract_reproduces_Statement, now a theorem): pairwise "
        "distinct cleaned paths + error-free run into an empty/missing destination => every entry present as recorded, "
        "any entry order and any type flags (C19.distinct_paths_fresh derives the semantic FreshRun condition of "
        "extract_reproduces_partial from the syntactic one)",
        "C19.extract_error_iff: either loop returns an error iff some entry's iteration fails on the tree its "
        "predecessors left; C19.tarOne_error_iff / zipOne_error_iff / syscall_error_iff say exactly which iterations fail on "
        "the modelled file system",
        "C19.extract_nothing_else (both loops, EVERY archive, failing runs included): every node present afterwards was "
        "present before unchanged or is at an entry's cleaned path or an ancestor of one",
        "C19.zip_run_is_tar_run: an error-free zip run over file/dir/symlink entries is step for step the tar run, so "
        "C19.extract_reproduces_distinct_zip carries the any-order theorem over to zip",
        "NOT covered by the exactness theorems (correspondence run only): archives with skipped tar type flags "
        "(fifo, devices) or a './' entry naming the destination itself, a destination that is not empty, archives "
        "listing a directory after entries beneath it (there extract_reproduces_distinct applies: everything present "
        "as recorded except that such a directory keeps the mode MkdirAll gave it; extract_nothing_else gives "
        "exactness there)",
    ]
    ctx.modelled += [
        "API surface: every exported function of both packages is exercised — ExtractWithMask (4 lines in 5), and "
        "Extract / ExtractArchive / ExtractArchiveWithMask (1 line in 5, chosen by a hash of the line and recorded in "
        "it as v:<k>; the archive is written to a file outside the sandbox for the *Archive* forms); the model's "
        "wrappers are Ex.tarExtractDefault / tarExtractArchive / tarExtractArchiveWithMask and their zip twins "
        "(default mask Ex.defaultMask = 0o777); a missing archive path and an archive file cut to 100 bytes must give "
        "err with nothing created; the harness also looks for a descriptor still open on the archive file after the call "
        "(FD-LEAK = the archive file was not closed)",
    ]
    ctx.modelled += [
        "hardening (tools/HARDENING.md): entry counts 12…1000, directory depth up to 64, 255-byte components and paths of "
        "~3.9 KB (PAX path records / GNU long names / the ustar 100- and 155-byte splits), names with control "
        "characters, backslashes, trailing dots, only dots, invalid UTF-8 and NFC/NFD pairs; payloads 0, 1, 511…513, "
        "32 KiB±1, 64 KiB(+1), 70000, 1 MiB; modes and masks with bits beyond 0o7777 (up to 2^40, 2^32-1); skipped tar "
        "type flags fifo / char / block / contiguous-with-payload / PAX global header; zip directory bit with payload; "
        "faults at every entry position: tar payload cut, bad-checksum header, stream ending inside a header, zip CRC "
        "mismatch, zip declared size one more / one less than the payload, write limit 0…64 KiB, missing / cut archive "
        "file; the same archive extracted twice into one destination (r:2); pre-existing read-only and untraversable "
        "directories and files",
        "area dstlink (implementation-side metamorphic oracle, kept beside the model-tied area dstlinkm): the destination is a symbolic link to a sibling directory; result and whole tree must equal those "
        "of the same archive extracted into that directory itself (archives with an entry naming the destination itself "
        "are exempt: the guard refuses a linked root)",
        "a call that does not return within 10 s is reported as `hang` and the rest of that stream is skipped; panics are "
        "reported as `panic`",
        "NOT exercised: components longer than NAME_MAX / paths beyond PATH_MAX and names containing NUL (the kernel "
        "refuses them with ENAMETOOLONG / EINVAL, which the guard turns into an error; the model has no such limits), "
        "sparse tar entries and zip64 sizes (archive/tar cannot write the former, the latter needs 4 GiB payloads)",
    ]
    ctx.modelled += [
        "internal.EnsureNoSymlinks is modelled for ANY pair of clean absolute paths (Ex.relParts = filepath.Rel split at "
        "separators: `.`, `..` parts for a path that is not below the root; C19.guard_rel_spec: joining the parts to the "
        "root gives the path back, and below the root they are the components below it) and compared DIRECTLY with the "
        "code in area guard (overlay accessor in package xio/fs/tar) on pairs inside its documented precondition — the "
        "path at or below the root — with roots that are directories, links, missing, trees with links, chains and "
        "missing tails; NOT compared: pairs outside the precondition and a regular file on the way (ENOTDIR: whether "
        "the guard or the next system call reports it is not constrained, the extraction fails either way — that case "
        "is compared at the level of whole extractions in area extract)",
        "the working directory removed (os.Getwd fails; cg:1 in area dstform): Ex.absPath? / tarExtractWithMaskFrom — a "
        "relative spelling is an error before anything happens (also for an empty archive), an absolute one works "
        "(C19.gone_cwd)",
    ]
    ctx.modelled += [
        "filepath.Abs(dst) is in the model (Ex.absPath; C19.absPath_clean: the root it yields is a clean absolute path "
        "for EVERY spelling, which discharges the GoodPath/NoDots hypotheses of the other theorems — "
        "extract_contained_spelled): area dstform hands the extractors the destination as a caller spells it (relative "
        "to the working directory, `./dst`, `dst/`, `outside/../dst`, `../dst` from beside it, `.`, the empty string and "
        "`x/..` from inside it, absolute with repeated separators and dots, destinations other than T/dst: a missing "
        "sub-directory, the sandbox itself, the sibling) with the process standing in T, T/outside or T/dst",
        "close fault (area closefault, needs strace; skipped and said so without it): the extraction runs in a child "
        "process under `strace -P <T/dst/path> -e inject=close:error=EIO`, so exactly the close(2) of descriptors of that "
        "one extracted file fails after its payload was copied completely; model: Ex.Faults.closeFails of the copy step "
        "Ex.extractFileR (open, write*, deferred close; C19.write_close_fault_is_error, copy_step_spec: an error, the "
        "file stays); the write limit (w:) is Ex.Faults.writeLimit of the same copy step",
    ]
    ctx.lean(props=["Props.C19"], drivers=["drv_c19"])
    # white-box accessor for the guard (xio/fs/internal is not importable from outside): area `guard`; if it does not
    # compile against the working tree core falls back to a build without it (tag nooverlay) and the area is skipped
    ctx.harness("./cmd/c19", overlay={"xio/fs/tar/verif_c19_guard.go": "c19_guard.go"})
    ctx.diff(area="extract", driver="drv_c19", n={"quick": 8000, "thorough": 150000},
             trivial=lambda l, o: " e:" not in l, tagger=_tag, timeout=(240 if ctx.tier == "quick" else 900),
             theorem="C19.extract_contained / extract_wf / ensureNoSymlinks_spec / payload_error_propagates / "
                     "extract_reproduces / extract_reproduces_zip / extract_error_iff are about the model; "
                     "impl != model on this archive")
    ctx.diff(area="dstlinkm", driver="drv_c19", n={"quick": 600, "thorough": 15000},
             trivial=lambda l, o: " e:" not in l, tagger=lambda l, o: "dstlink:" + o.split(" ", 1)[0],
             timeout=(240 if ctx.tier == "quick" else 900),
             theorem="the resolving model (Ex.walk) follows the destination link; impl != model on this archive")
    ctx.diff(area="dstform", driver="drv_c19", n={"quick": 900, "thorough": 20000},
             trivial=lambda l, o: " e:" not in l, tagger=_form_tag, timeout=(240 if ctx.tier == "quick" else 900),
             theorem="C19.absPath_clean / extract_contained_spelled: the root is Ex.absPath of the working directory and "
                     "the destination as spelled; impl != model on this archive and spelling")
    if "overlay_fallback" in ctx.extra:
        ctx.extra["guard_area"] = "skipped: the accessor for internal.EnsureNoSymlinks does not compile against the working tree"
    else:
        ctx.diff(area="guard", driver="drv_c19", n={"quick": 600, "thorough": 20000},
                 trivial=lambda l, o: False, tagger=_guard_tag, timeout=(240 if ctx.tier == "quick" else 900),
                 theorem="C19.guard_rel_spec / ensureNoSymlinks_spec / guard_error_iff are about Ex.ensureNoSymlinksR; "
                         "internal.EnsureNoSymlinks called directly != model on this tree and (root, path)")
        ctx.extra["guard_area"] = "internal.EnsureNoSymlinks called directly through an overlay accessor"
    import shutil
    if shutil.which("strace"):
        ctx.diff(area="closefault", driver="drv_c19", n={"quick": 100, "thorough": 1500},
                 trivial=lambda l, o: " e:" not in l, tagger=lambda l, o: "closefault:" + o.split(" ", 1)[0],
                 timeout=(240 if ctx.tier == "quick" else 900),
                 theorem="C19.write_close_fault_is_error / copy_step_spec (a failing close(2) of an extracted file is an error): "
                         "close(2) failed and impl != model")
        ctx.extra["closefault"] = "strace -P <file> -e inject=close:error=EIO on a child process"
    else:
        ctx.extra["closefault"] = "skipped: strace not found"
        ctx.assumptions.append("close faults not exercised on this machine (no strace)")
    ctx.impl_oracle("dstlink", {"quick": 200, "thorough": 4000}, label="destination is a symbolic link to a directory",
                    timeout=(240 if ctx.tier == "quick" else 900))
