"""C19 — archive extraction: Lean model `Ex.tarExtract` / `Ex.zipExtract` (Model/Extract.lean), theorems Props/C19.lean.

Every line is one sandbox + one archive; the real extractor runs in a fresh temporary directory and the whole tree
under and beside the destination (types, modes, lengths, content hashes, link targets, inode sharing) plus ok/err is
compared with the model's."""


def _tag(line, out):
    fmt = line.split(" ", 1)[0]
    res = out.split(" ", 1)[0]
    t = fmt + ":" + res
    if " w:" in line:
        t += "+write-fault"
    return t


def run(ctx):
    ctx.modelled += [
        "file-system model is lexical (no symlink resolution): adequate because the extractors call EnsureNoSymlinks "
        "before every system call (Props.C19.ensureNoSymlinks_spec / extract_wf); the destination itself is a real "
        "directory, a file, or missing in every generated sandbox (never a symbolic link)",
        "archive/tar and archive/zip readers/writers are used as they are; the model sees the entries the readers yield",
    ]
    ctx.assumptions += [
        "the correspondence run has CAP_DAC_OVERRIDE (root) or, if not, restricts modes/masks to owner-rwx so that "
        "permission bits never make a system call fail; umask is set to 0 by the harness",
        "no concurrent modification of the destination during extraction",
    ]
    ctx.modelled += [
        "faults: truncated tar stream (tar.Writer output cut after k payload bytes), unreadable tar header, zip CRC "
        "mismatch (payload byte flipped), and failed writes (RLIMIT_FSIZE set by the harness around the extraction: "
        "the kernel writes up to the limit, then EFBIG)",
    ]
    ctx.lean(props=["Props.C19"], drivers=["drv_c19"])
    ctx.harness("./cmd/c19")
    ctx.diff(area="extract", driver="drv_c19", n={"quick": 10000, "thorough": 150000},
             trivial=lambda l, o: " e:" not in l, tagger=_tag,
             theorem="C19.extract_contained / extract_wf / ensureNoSymlinks_spec / payload_error_propagates / "
                     "extract_reproduces are about the model; impl != model on this archive")
