"""C14 — safe file replacement: Lean action model `Safe.writeFile` / `Safe.File.*` (Model/SafeFile.lean), theorems
Props/C14.lean.  Three correspondence streams tie the action model to the code:
  api    in-process histories of safe.File (Create/Write/Commit/Close/embedded Close in any order)
  wf     in-process safe.WriteFileWithMode with callback faults (returned error or panic, recovered by the harness), a failing rename (destination is a directory), a failing
         write(2) at every index (RLIMIT_FSIZE set to the file size at which that call starts, SIGXFSZ ignored) under the
         three callback behaviours {returns the Write error, swallows it and stops, swallows it and keeps writing},
         observations from inside the callback and a concurrent reader
  trace  a child process under strace: the system-call sequence in the destination directory, every injected
         write/close/rename error, SIGKILL on entry to every system call (skipped, and said so, without strace)
  hist   a child process under strace running an arbitrary HISTORY of the safe.File API with a fault on any of its system
         calls (one per name, up to four in a run) and SIGKILL on entry to any call; model: Safe.apiRunFull (Model/SafeFileHist.lean),
         theorems Props/C14Hist.lean
  multi  a child process under strace: two or three faults in one WriteFileWithMode; model: Safe.writeFileMulti
  duo    in-process: two safe.File handles on one destination, calls interleaved call by call; model: two Safe.File.stepU machines
         on one directory (the interleavings Props/C14RaceHist.lean quantifies over)
Props/C14Race.lean (two concurrent writers, every interleaving) has no stream of its own: it is about the same Safe.writeFile
the streams wf/trace execute; the oracle `race` runs real goroutines.
"""
import os
import re
import shutil
import subprocess


def _bufsize(repo):
    """the size argument of bufio.NewWriterSize in writefile.go (a parameter of the model, not a constant of it)"""
    try:
        src = open(os.path.join(repo, "xio/fs/safe/writefile.go")).read()
    except OSError:
        return None, "writefile.go not readable"
    m = re.search(r"bufio\.NewWriterSize\(\s*\w+\s*,\s*([^)]+?)\s*\)", src)
    if m:
        expr = m.group(1)
        if re.fullmatch(r"[0-9a-fA-FxX_ <*+]+", expr):
            try:
                v = int(eval(expr.replace("_", ""), {"__builtins__": {}}))
                if v > 0:
                    return v, "bufio.NewWriterSize(f, %s)" % expr
            except Exception:
                pass
        return None, "size expression `%s` not understood" % expr
    if re.search(r"bufio\.NewWriter\(", src):
        return 4096, "bufio.NewWriter (default size)"
    return None, "no bufio writer found"


def _calibrate(ctx):
    """The buffer size is not constrained by the property: measure it from the behaviour of the code under test
    (`harness calibrate`: bytes a callback can hand over before anything reaches the temporary file, cross-checked
    with N,1 / N+1 / N-1,1,1 probes) and give the measured value to generators, harness and model driver."""
    measured = None
    try:
        p = subprocess.run([ctx.harness_bin["harness"], "calibrate"], cwd=ctx.work, stdout=subprocess.PIPE,
                           stderr=subprocess.STDOUT, text=True, timeout=300)
        out = (p.stdout.strip().splitlines() or ["fail: no output"])[-1]
    except Exception as e:  # noqa: BLE001
        out = "fail: %s" % e
    m = re.fullmatch(r"ok (\d+)", out)
    if m and int(m.group(1)) > 0:
        measured = int(m.group(1))
    parsed, how = _bufsize(ctx.repo)
    ctx.extra["bufsize_measured"] = measured if measured is not None else out
    if measured is not None:
        n, src = measured, "measured from behaviour (harness calibrate)"
    elif parsed is not None:
        n, src = parsed, "calibration failed (%s); parsed from writefile.go: %s" % (out, how)
        ctx.assumptions.append("buffer size calibration failed (%s); the value parsed from the source text is used" % out)
    else:
        n, src = 65536, "calibration failed (%s) and source not understood (%s); default" % (out, how)
        ctx.assumptions.append("buffer size could neither be measured (%s) nor read from writefile.go (%s); 65536 assumed"
                               % (out, how))
    os.environ["C14_BUFSIZE"] = str(n)
    ctx.extra["buffer_size"] = {"value": n, "source": src, "source_text": how if parsed is not None else None}


def _hist_tag(line, out):
    """distribution of the generated histories, printed into the evidence: which system calls carry a fault, whether the
    line is a kill, and what the model says happened to the destination"""
    f = line.split()
    if len(f) < 6 or f[0] not in ("hist", "hkill", "histk", "hkillk"):
        return None
    faults = "+".join(sorted(x.split(":")[0] for x in f[5].split(","))) if f[5] != "-" else "nofault"
    ops = f[4].split(".")
    shape = "".join(o[0] for o in ops)
    first_end = next((c for c in shape if c in "CX"), "-")
    return "%s:%s:%s:first=%s:%s" % (f[0], f[1].split(":")[0], faults, first_end, "F" if "F" in shape else "noF")


def run(ctx):
    shards = 14 if ctx.tier == "thorough" else 8
    os.environ["C14_SHARDS"] = str(shards)
    ctx.modelled += [
        "file system = name -> (content, permission bits) with atomic rename (POSIX rename atomicity is assumed, "
        "not proved); a kill point is a prefix of the action sequence (SIGKILL on system-call entry)",
        "the temporary name is a parameter of the model (strace output is compared with the name abstracted to `tmp`); "
        "a failing unlink of the temporary file is modelled (Act2.unlinkFail, File.closeU/commitU) and injected under strace",
        "histories of the File API with a fault on every system call (Safe.OpU / File.stepsU / apiRunFull, incl. a failing "
        "close(2) of the embedded Close) are proved to refine an abstract specification without temporary file (Safe.Abs) and are "
        "compared with strace runs (area hist); writeFileMulti = WriteFileWithMode with a primary fault plus a failing deferred "
        "close(2) and/or unlink (area multi)",
        "node kinds: Model/SafeFileKinds.lean is a file system of regular files, directories and symbolic links with the rules "
        "of rename / O_EXCL / unlink about them and os.Rename's own refusal of a directory destination (no rename(2) issued) inside "
        "the model; the File API runs against it (File.stepsK); compared with strace runs on every destination kind (histk lines)",
        "bufio.Writer is transcribed with its sticky error (Safe.BW.write/flush test err first; Lemmas writeFile_closed "
        "proves it equal to the closed form chunk rule Safe.bufWrite + stop at the failing write, for every callback "
        "behaviour); the buffer size is measured from the code's behaviour "
        "(harness calibrate) and passed to model and generators, the theorems hold for every size",
    ]
    ctx.assumptions += [
        "page-cache content survives SIGKILL of the writer (no power loss); durability (fsync) is not part of the property",
        "umask arithmetic of the kernel: new file mode = requested mode &^ umask (observed on every run, not proved)",
        "a write(2) to the regular temporary file either transfers the whole chunk or fails (no short writes); no other "
        "process touches the temporary name; name validation in CreateWithMode and the O_EXCL retry loop of CreateTemp "
        "are modelled (Safe.validName, Safe.createTemp); the random numbers of CreateTemp are a parameter stream of the "
        "model — a collision of a candidate name with an ABSENT destination of the form safe<digits> (probability 2^-63 "
        "per attempt) is the one case excluded by hypothesis in full_dest_old_or_new and shown by an example",
    ]
    ctx.lean(props=["Props.C14", "Props.C14Hist", "Props.C14Race", "Props.C14RaceHist", "Props.C14Kinds", "Props.C14KindsWF"], drivers=["drv_c14"])
    if not ctx.harness("./cmd/c14"):
        return
    _calibrate(ctx)
    thm = ("C14.dest_old_or_new_at_every_prefix / failure_leaves_dst / failure_removes_tmp / commit_result / "
           "close_commit_idempotent are about Safe.writeFile and Safe.File.*; implementation != model on this input")
    ctx.impl_oracle("names", 1, label="destination names: bare/relative, trailing separator, unclean, 255/256 bytes, "
                    "empty, '.', '/', missing directory — through WriteFile and through Create/Commit", timeout=200)
    ctx.impl_oracle("race", {"quick": 40, "thorough": 1500}, label="two writers on one destination (concurrent WriteFile; two "
                    "interleaved safe.File handles): final content is one writer's, complete; reader sees old/A/B only",
                    timeout=300)
    ctx.diff(area="api", driver="drv_c14", n={"quick": 6000, "thorough": 300000}, stateful=True, theorem=thm, timeout=300,
             what="in-process history of safe.File; output = result code, destination state, temporary file state")
    ctx.diff(area="duo", driver="drv_c14", n={"quick": 1500, "thorough": 60000}, stateful=True, timeout=300,
             theorem="C14.two_histories_old_or_A_or_B / two_histories_temp_isolated are about interleavings of Safe.File.stepsU "
                     "of two handles; implementation != model on this input",
             what="TWO safe.File handles on one destination in one process, their calls interleaved call by call (a "
                  "deterministic realisation of the interleavings of Props/C14RaceHist.lean); output = result, destination, "
                  "both temporary files; A and B write different byte streams")
    ctx.diff(area="paths", driver="drv_c14", n={"quick": 500, "thorough": 20000}, theorem=thm, timeout=300,
             what="names: the model's Clean/Dir against filepath.Clean/Dir; CreateTemp's naming (prefix, suffix, decimal "
                  "middle of 12 files made by fs.CreateTemp) for patterns with/without '*', separators, '.', '..', empty, "
                  "directories with/without trailing separator, unclean, missing, empty (os.TempDir)")
    ctx.diff(area="dest", driver="drv_c14", n={"quick": 148, "thorough": 1480}, theorem=thm, timeout=300,
             what="destination names that look like temporary names (safe123, safe2023-q4.csv, safe, safe*), pattern "
                  "characters, sub-directories, '', '.', '..', a directory, a file as parent, 255/256-byte names, in a tree "
                  "with look-alike files that must stay untouched")
    ctx.diff(area="collide", driver="drv_c14", n={"quick": 60, "thorough": 1200}, theorem=thm, timeout=300,
             what="REAL name collisions: crypto/rand.Reader (public stdlib variable, the only seam in front of xmath/rand's "
                  "crypto source) is pinned so that CreateTemp draws names the harness created beforehand: k = 0,1,2,3,5,"
                  "999,1000 existing candidates must be skipped untouched (1000: ErrExist after 1000 opens); selfcollide = "
                  "the excluded case of full_dest_old_or_new made real (absent destination safe123, every draw 123)")
    ctx.diff(area="wf", driver="drv_c14", n={"quick": 320, "thorough": 14000}, theorem=thm, timeout=300,
             what="in-process WriteFileWithMode; mid = temporary file size seen from the callback (bufio flush points)")
    # ---- strace streams
    probe = "unavailable: strace not found"
    if shutil.which("strace"):
        try:
            p = subprocess.run([ctx.harness_bin["harness"], "probe"], cwd=ctx.work, stdout=subprocess.PIPE,
                               stderr=subprocess.STDOUT, text=True, timeout=120)
            probe = (p.stdout.strip().splitlines() or ["unavailable: no output"])[-1]
        except Exception as e:  # noqa: BLE001
            probe = "unavailable: %s" % e
    ctx.extra["strace"] = probe
    if probe.startswith("ok"):
        before = ctx.evals
        ctx.diff(area="trace", driver="drv_c14", n={"quick": 1, "thorough": 1}, shards=shards, theorem=thm, timeout=1500,
                 what="child process under strace: seq = system calls touching the destination directory (temporary "
                      "name abstracted), fault = strace inject error, kill = SIGKILL on entry to the j-th call of a kind")
        thm2 = ("C14.history_refines_spec / history_every_kill_point / full_api_history are about Safe.File.stepsU and "
                "Safe.apiRunFull (lines hist/hkill), C14.kinds_history_refines_spec / kinds_history_every_kill_point / "
                "directory_destination_stays / link_destination_target_untouched about Safe.File.stepsK on the file system with "
                "node kinds (lines histk/hkillk), C14.multi_fault_* about Safe.writeFileMulti; implementation != model on this input")
        ctx.diff(area="hist", driver="drv_c14", n={"quick": 200, "thorough": 6000}, shards=shards, theorem=thm2, timeout=1500,
                 tagger=_hist_tag,
                 what="child process under strace: an arbitrary history of the safe.File API (Write / Commit / Close / "
                      "embedded Close in any order, after Create or CreateWithMode) with a fault injected on ANY of its "
                      "system calls (one per name: the j-th write, close, rename, unlink, or the open) and SIGKILL on entry "
                      "to any call; output = system calls, result of every call, destination, temporary file, reader; "
                      "destination kinds: absent, regular file, DIRECTORY, symbolic link (small and large target), dangling link, "
                      "MISSING PARENT directory; the k-lines are judged by the model with node kinds and the kernel's / os.Rename's "
                      "rules inside (Model/SafeFileKinds.lean), which also reports the state of the link's target")
        ctx.diff(area="multi", driver="drv_c14", n={"quick": 1, "thorough": 1}, shards=shards, theorem=thm2, timeout=1500,
                 what="child process under strace, two or three faults in one WriteFileWithMode: {callback error, panic, "
                      "write, close, rename} x {close(2) of the deferred Close, unlink of the cleanup, both}; expected "
                      "output from Safe.writeFileMulti (until this round a harness-judged oracle)")
        # lines whose injection / kill did not land on the intended call of the library in three attempts (the Go runtime's own
        # calls shift strace's per-name counters under load), or that timed out: skipped by the harness, counted here, never reported
        inc = []
        try:
            inc = [l.rstrip("\n") for l in open(os.path.join(ctx.work, "c14_inconclusive.log"))]
        except OSError:
            pass
        ctx.extra["kill_inconclusive"] = {"count": len(inc), "examples": [l[-200:] for l in inc[:5]]}
        strace_lines = sum(v for k, v in ctx.kinds.items() if k.split(":")[0] in ("trace", "hist", "multi"))
        if len(inc) > max(40, strace_lines // 4):
            ctx.assumptions.append("%d of %d strace lines were inconclusive in this run (injection did not land / time-out under "
                                   "load) and were skipped: the strace streams carried less than usual" % (len(inc), strace_lines))
        ctx.extra["trace_enumeration"] = {
            "exhaustive": True,
            "runs": ctx.evals - before,
            "clean_and_fault_runs": ctx.kinds.get("trace:trace", 0),
            "kill_runs": ctx.kinds.get("trace:kill", 0),
            "what": "fixed enumeration (no sampling): clean trace for sizes {0,1,B-1,B,B+1,200000} x {absent, existing} x "
                    "piece patterns; for the %s scenarios: every write(2) index, close, rename failing (thorough: each with "
                    "ENOSPC, EIO and EACCES; quick: one of the three in rotation), callback failures and panics, the loop of CreateTemp (EEXIST injected on the first k = 1, 2, 999, 1000 "
                    "O_EXCL opens; another errno at once), a failing unlinkat in every cleanup path, and SIGKILL on entry to every open/write/close/rename/unlink "
                    "(index 1..count+1) of the clean run and of cleanup paths" % (
                        "full set of" if ctx.tier == "thorough" else "quick subset of"),
        }
        ctx.rules.append("area trace is an enumeration, not a sample: every line of the fixed set is run once per check "
                         "(split over %d shards); each run is self-validating (the trace must show the injection on the "
                         "intended call, else the run is repeated)" % shards)
    else:
        ctx.impl_oracle("compound", 1, label="strace, two faults in one run: {callback error, panic, write, rename} x "
                        "{close, unlink of the cleanup path}; the primary error is returned, destination untouched, "
                        "no rename", timeout=600)
        ctx.extra["trace_enumeration"] = {"exhaustive": False, "runs": 0, "what": "strace not usable here: " + probe}
        ctx.assumptions.append("strace was not usable in this run (%s): the action sequence, write/close error injection "
                               "and kill points were NOT observed; only the in-process streams api and wf ran" % probe)
