"""C06 — red-black tree: Lean model `RB.T` / `RB.Tree` (Model/RBTree.lean), theorems Props/C06.lean.

Correspondence: every operation line is executed by the real `redblack.Tree[int,int]` (compare function wrapped to
count its calls) and by the model; compared per line: results, number of compare calls, and (op `dump`) the pre-order
dump colour/key/value of the real nodes obtained through the overlay, with the parent-link consistency bit.  The op
`inv` checks the red-black invariants directly on the real nodes (expected constant `ok`)."""


def _tag(line, out):
    w = line.split(" ", 1)[0]
    if w == "get" and out.startswith("none"):
        return "get:absent"
    if w == "rem":
        return "rem:" + out.split(" ", 1)[0]
    if w in ("travfrom", "rtravfrom", "trav", "rtrav") and out.startswith("-"):
        return w + ":nothing-visited"
    if w == "dump":
        n = out.count("(")
        for lim in (0, 1, 7, 31, 127):
            if n <= lim:
                return "dump:size<=%d" % lim
        return "dump:size>=128"
    return None


def _strip_count(out):
    i = out.rfind("c=")
    if i >= 0 and out[i + 2:].isdigit() and (i == 0 or out[i - 1] == " "):
        return out[:i].rstrip()
    return out


def _behaviour_only(out):
    """pass A: compare-call counts stripped, node dumps blanked (both are compared in pass B)"""
    if out.endswith("parents=ok") or out.endswith("parents=BAD"):
        return "dump " + out.rsplit(" ", 1)[1]
    return _strip_count(out)


def run(ctx):
    ctx.modelled += [
        "parent pointers are not part of the Lean model; their consistency is checked at run time on the real tree "
        "(overlay dump bit `parents=ok` and op `inv`)",
        "Go `compare` returns int; the model takes an Ordering-valued compare (the code only inspects the sign; the "
        "harness returns arbitrary magnitudes in div10 mode)",
        "Tree.Dump (prints to stdout for debugging) is not modelled",
    ]
    ctx.assumptions += ["the compare function is a total preorder (structure RB.TotalPreorder) and has no side effects "
                        "other than being counted"]
    ctx.lean(props=["Props.C06"], drivers=["drv_c06"])
    ctx.harness("./cmd/c06", overlay={"collection/redblack/verif_dump.go": "redblack_verif.go"})
    common = dict(area="rbtree", driver="drv_c06", stateful=True, trivial=lambda l, o: l in ("inv",),
                  model_only=lambda l: l.startswith("dump"))
    # pass A: observable behaviour only (compare-call counts stripped, node dumps reduced to the parent-link bit), so
    # that a behavioural difference is minimised and reported as such, with its concrete failing history, and is not
    # crowded out by the count/shape differences that usually precede it in the same history
    ctx.diff(n={"quick": 500000, "thorough": 3000000}, canon=_behaviour_only, tagger=_tag,
             theorem="C06.inorder_run / remove_inorder / queries_run / traverseFrom_run / count_run / run_inv are "
                     "theorems about the model RB.Tree; the implementation differs from the model on this history",
             what="results of redblack.Tree vs the Lean model (compare counts and node shape ignored in this pass)",
             **common)
    # pass B: everything: results, number of calls made to the compare function per operation, node shape and colours
    ctx.diff(n={"quick": 1000000, "thorough": 16000000},
             theorem="C06.compares_find / compares_insert / compares_remove / height_run bound the model's compare "
                     "counts and height; the implementation's count, shape (or result) differs from the model on "
                     "this history",
             what="results, compare-call counts and node shape/colours of redblack.Tree vs the Lean model", **common)
