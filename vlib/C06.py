"""C06 — red-black tree: Lean model `RB.T` / `RB.Tree` (Model/RBTree.lean), theorems Props/C06.lean.

Correspondence: every operation line is executed by the real `redblack.Tree[int,int]` (compare function wrapped to
count its calls) and by the model; compared per line: results, number of compare calls, and (op `dump`) the pre-order
dump colour/key/value of the real nodes obtained through the overlay, with the parent-link consistency bit.  The op
`inv` checks the red-black invariants directly on the real nodes (expected constant `ok`)."""


def _tag(line, out):
    w = line.split(" ", 1)[0]
    if w in ("get",) and out.startswith("none"):
        return "get:absent"
    if w in ("travfrom", "rtravfrom", "trav", "rtrav") and out.startswith("-"):
        return w + ":nothing-visited"
    return None


def _strip_count(out):
    i = out.rfind("c=")
    if i >= 0 and out[i + 2:].isdigit() and (i == 0 or out[i - 1] == " "):
        return out[:i].rstrip()
    return out


def run(ctx):
    ctx.modelled += [
        "parent pointers are not part of the Lean model; their consistency is checked at run time on the real tree "
        "(overlay dump bit `parents=ok` and op `inv`)",
        "Go `compare` returns int; the model takes an Ordering-valued compare (the code only inspects the sign; the "
        "harness returns arbitrary magnitudes in div10 mode)",
        "Tree.Dump (prints to stdout for debugging) is not modelled",
    ]
    ctx.assumptions += ["the compare function is a total preorder (structure RB.TotalPreorder) and has no side effects "
                        "other than being counted"]
    ctx.lean(props=["Props.C06"], drivers=["drv_c06"])
    ctx.harness("./cmd/c06", overlay={"collection/redblack/verif_dump.go": "redblack_verif.go"})
    common = dict(area="rbtree", driver="drv_c06", stateful=True, trivial=lambda l, o: l in ("inv",),
                  model_only=lambda l: l.startswith("dump"))
    # pass 1: behaviour and shape only (compare-call counts stripped), so that a behavioural difference is reported
    # as such and not as the count difference that usually precedes it in the same history
    ctx.diff(n={"quick": 400000, "thorough": 2000000}, canon=_strip_count, tagger=_tag,
             theorem="C06.inorder_run / remove_inorder / get_first / first_last / traverse_spec / traverseFrom_spec / "
                     "run_inv are theorems about the model RB.Tree; the implementation differs from the model on "
                     "this history",
             what="results and node shape/colours of redblack.Tree vs the Lean model (compare counts ignored)", **common)
    # pass 2: everything, including the number of calls made to the compare function per operation
    ctx.diff(n={"quick": 1000000, "thorough": 16000000},
             theorem="C06.compares_find / compares_insert / compares_remove bound the model's compare counts; the "
                     "implementation's count (or result) differs from the model on this history",
             what="results, compare-call counts and node shape/colours of redblack.Tree vs the Lean model", **common)
