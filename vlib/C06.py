"""C06 — red-black tree: Lean model `RB.T` / `RB.Tree` (Model/RBTree.lean), theorems Props/C06.lean.

Correspondence: every operation line is executed by the real `redblack.Tree[int,int]` (compare function wrapped to
count its calls) and by the model; compared per line: results, the verdict `cmp-ok` of the comparison bound, and (op
`dump`, model-only observable) the pre-order dump colour/key/value of the real nodes obtained through the overlay, with
the parent-link consistency bit.  The op `inv` checks the red-black invariants directly on the real nodes (expected
constant `ok`).

Comparison clause: the property bounds the number of compare calls ("at most about 2*log2(n+1) plus the number of
entries equal to the key"); it does not fix the exact number, so exact counts are NOT compared (a refactoring that saves a
comparison is not a violation).  The harness judges the real count of every operation against the bound computed from
the real tree (see BOUND_RULE) and prints `cmp-ok` or `cmp-bad c=… bound=…`; the model prints the constant `cmp-ok`
(its own counts meet the bound by C06.compares_find / compares_insert / compares_remove / compares_run).  Both sides
append their exact count as ` c=N`; it is stripped before comparison and only feeds an informational statistic."""

BOUND_RULE = ("comparison bound judged by the harness on the REAL compare-call count c of every operation, n = number of "
              "inserted-and-not-removed entries before the operation, E = number of those whose key compares equal to the "
              "probe (n and E from the harness's own shadow record per equivalence class, independent of the library): "
              "Get and Remove c <= 2*floor(log2(n+1)) + E + 1; Insert c <= 2*floor(log2(n+1)) + 1 (the bounds proved for "
              "the model, C06.compares_find / compares_remove_le / compares_insert with height_run, plus the property's "
              "allowance E, i.e. Appendix B's `height + duplicates + 1`); TraverseStartingAt and "
              "ReverseTraverseStartingAt (not part of the property's comparison clause) c <= n + 2; output `cmp-ok` or "
              "`cmp-bad c=.. bound=..` is part of the compared line (model: constant `cmp-ok`); exact counts are not "
              "compared")

HARDENING = {
    "1 numeric magnitudes": "keys and values at MinInt/MaxInt, their neighbours, MaxInt/2±1, 2^31/2^32/2^62±1, powers of "
                            "ten ±1 (generator style `limits`, corpus (e)); probes k±1/k±10 that wrap around; compare "
                            "results as -1/0/1, as saturating difference, as MinInt/0/MaxInt and as pseudo-random "
                            "magnitudes (`reset <order> <style>`)",
    "2 size thresholds": "long structured histories of 400…2000 inserts with probes (invariants, height, ends, bounded "
                         "lookups) exactly at 12, 16/17, 32/33, 64/65, 128/129, 256/257, 512/513, 1000, 1024/1025 entries, "
                         "also on the way down during drains",
    "3 entry points": "New, Insert, Remove, Get, Count, Empty, First, Last, Traverse, ReverseTraverse, TraverseStartingAt, "
                      "ReverseTraverseStartingAt and Dump (stdout captured through a pipe: one line per entry, the key "
                      "multiset, tree unchanged) are all called",
    "4 callback outcomes": "visitors: continue, stop after j, panic at the j-th visit with string / error / runtime "
                           "error / typed-nil pointer / nil, read-only re-entrant (Get, Count, First from inside the "
                           "callback) on all four traversals; compare function: panics at its first call inside Insert, "
                           "Remove and Get (tree unchanged and usable), four result-magnitude styles",
    "5 aliasing and reuse": "two trees per history used alternately (`swap`); the tree is used on after every panic; "
                            "First/Last/Count after every removal (stale caches); lookup of the key just removed",
    "6 history shapes": "drain to empty and regrow; removal of the minimum, the maximum, the only element, the same key "
                        "twice, an absent key; drains in ascending/descending/random order; zig-zag, back-fill, "
                        "alternating extremes, interleaved sorted blocks, bit-reversed and random long histories",
    "7 oracle independence": "results are judged by the Lean model; n and E of the comparison bound and the key multiset "
                             "Dump must print come from the harness's own record, not from Count()/Traverse; the "
                             "invariant check walks the real nodes itself (overlay) and uses only the user's compare",
    "8 hangs and crashes": "every operation has a deadline of 2 x 1 s (CPU-time aware, so an overloaded machine is not "
                           "mistaken for a hang); a hang ends the history, two hangs end the stream; panics are outputs",
    "9 no false alarms": "exact compare counts are stripped on both sides; node shape (`dump`) is a model-only "
                         "observable; compare panics are placed only at the first call (independent of the exact number "
                         "of calls); controls control-c06-1/2 stay silent",
}

import os
import re


def _struct_fields(src, type_re):
    """(type name, [(field, type)]) of `type <type_re>[...] struct { ... }`; fields None if not understood"""
    m = re.search(r"^type\s+(" + type_re + r")\s*\[[^\]]*\]\s*struct\s*\{(.*?)^\}", src, re.S | re.M)
    if not m:
        return None, None
    fields = []
    for line in m.group(2).splitlines():
        line = line.split("//", 1)[0].strip()
        if not line:
            continue
        mm = re.match(r"^([A-Za-z_][A-Za-z_0-9]*(?:\s*,\s*[A-Za-z_][A-Za-z_0-9]*)*)\s+(\S.*)$", line)
        if not mm:
            return m.group(1), None
        for name in mm.group(1).split(","):
            fields.append((name.strip(), mm.group(2).strip()))
    return m.group(1), fields


def _discover(repo):
    """Roles of the unexported declarations of package redblack in the working tree, recognised by TYPE (and, for the
    three node pointers and the sense of the colour bit, by name), so that a pure renaming does not break the
    white-box overlay.  Returns the substitutions for the accessor block of go/overlay/redblack_verif.go, or None."""
    d = os.path.join(repo, "collection", "redblack")
    try:
        src = "\n".join(open(os.path.join(d, f)).read() for f in sorted(os.listdir(d))
                        if f.endswith(".go") and not f.endswith("_test.go"))
    except OSError:
        return None
    _, tf = _struct_fields(src, "Tree")
    if not tf:
        return None
    ptrs = [(n, t) for n, t in tf if t.startswith("*")]
    funcs = [n for n, t in tf if t.startswith("func")]
    ints = [n for n, t in tf if t == "int"]
    if not ptrs or len(funcs) != 1 or len(ints) != 1:
        return None
    m = re.match(r"^\*([A-Za-z_][A-Za-z_0-9]*)\[", ptrs[0][1])
    if not m:
        return None
    ntype = m.group(1)
    roots = [n for n, _ in ptrs if re.search(r"root|top|head|base", n, re.I)] or [ptrs[0][0]]
    _, nf = _struct_fields(src, re.escape(ntype))
    if not nf:
        return None
    keys = [n for n, t in nf if t == "K"]
    vals = [n for n, t in nf if t == "V"]
    bools = [n for n, t in nf if t == "bool"]
    nptrs = [n for n, t in nf if t.startswith("*" + ntype + "[")]
    if len(keys) != 1 or len(vals) != 1 or len(bools) != 1 or len(nptrs) != 3:
        return None
    left = [n for n in nptrs if re.search(r"left|^l$|^lo$|lower|less|small|prev|pred", n, re.I)]
    right = [n for n in nptrs if re.search(r"right|^r$|^hi$|high|upper|great|large|next|succ", n, re.I)]
    if len(left) != 1 or len(right) != 1 or left == right:
        return None
    parent = [n for n in nptrs if n not in (left[0], right[0])]
    black = ("!n." if re.search(r"red", bools[0], re.I) else "n.") + bools[0]
    return {"node": ntype, "t.root": "t." + roots[0], "t.count": "t." + ints[0], "t.compare": "t." + funcs[0],
            "n.parent": "n." + parent[0], "n.left": "n." + left[0], "n.right": "n." + right[0], "n.black": black,
            "n.key": "n." + keys[0], "n.value": "n." + vals[0]}


def _overlay_for(ctx):
    """(path of the overlay source adapted to the private names of the working tree, {old: new} of what was renamed);
    the unadapted file under go/overlay when the roles are not recognisable"""
    from vlib.core import GO
    static = os.path.join(GO, "overlay", "redblack_verif.go")
    sub = _discover(ctx.repo)
    if sub is None:
        return static, None
    renamed = {k: v for k, v in sub.items() if v != k}
    if not renamed:
        return static, {}
    src = open(static).read()
    a, b = src.index("// ---- accessor block"), src.index("// ---- end of accessor block")
    block = src[a:b]
    for k in ("t.root", "t.count", "t.compare", "n.parent", "n.left", "n.right", "n.black", "n.key", "n.value"):
        block = block.replace("return " + k + " ", "return " + sub[k] + " ")
    src = src[:a] + block + src[b:]
    src = re.sub(r"\bnode\[K, V\]", sub["node"] + "[K, V]", src)
    path = os.path.join(ctx.work, "redblack_verif_adapted.go")
    with open(path, "w") as f:
        f.write(src)
    return path, renamed


class _Fallback:
    """canon wrapper for a black-box run (overlay unavailable): node dumps are compared without values (Dump() does
    not print them); when the harness could not read Dump()'s text (`dump-unavailable`) the model's dump of the same
    line is not compared.  core calls canon in pairs `canon(impl), canon(model)`."""

    def __init__(self, inner):
        self.inner = inner
        self.first = True
        self.unavailable = False

    def __call__(self, out):
        res = self.inner(out)
        is_dump = out.endswith("parents=ok") or out.endswith("parents=BAD")
        if self.first:
            self.unavailable = out.startswith("dump-unavailable")
        elif self.unavailable and is_dump:
            self.first = True
            return self.inner("dump-unavailable parents=ok")
        self.first = not self.first
        if is_dump and not res.startswith("dump "):
            res = re.sub(r":-?\d+", "", res)
        return res


def _tag(line, out):
    w = line.split(" ", 1)[0]
    if w == "get" and out.startswith("none"):
        return "get:absent"
    if w == "rem":
        return "rem:" + out.split(" ", 1)[0]
    if w in ("travfrom", "rtravfrom", "trav", "rtrav") and out.startswith("-"):
        return w + ":nothing-visited"
    if w in ("ptrav", "prtrav", "ptravfrom", "prtravfrom"):
        return "visitor:" + line.rsplit(" ", 1)[1] + ":" + out.rsplit(" ", 1)[1]
    if w in ("pins", "prem", "pget"):
        return w + (":cmp-panic" if out == "cmp-panic" else ":empty-tree")
    if w == "reset":
        return "reset:" + line.split(" ", 1)[1]
    if w == "count":
        n = int(out.split(" ", 1)[0])
        for lim in (0, 1, 11, 16, 32, 64, 128, 256, 512, 1024):
            if n <= lim:
                return "count<=%d" % lim
        return "count>1024"
    if w == "dump":
        n = out.count("(")
        for lim in (0, 1, 7, 31, 127):
            if n <= lim:
                return "dump:size<=%d" % lim
        return "dump:size>=128"
    return None


def _count_of(out):
    """the trailing informational ` c=N` of an output line, or None"""
    i = out.rfind("c=")
    if i >= 0 and out[i + 2:].isdigit() and (i == 0 or out[i - 1] == " "):
        return i, int(out[i + 2:])
    return None


def _strip_count(out):
    r = _count_of(out)
    return out[:r[0]].rstrip() if r else out


def _behaviour_only(out):
    """pass A: exact counts stripped, node dumps reduced to the parent-link bit (shape is compared in pass B)"""
    if out.endswith("parents=ok") or out.endswith("parents=BAD"):
        return "dump " + out.rsplit(" ", 1)[1]
    return _strip_count(out)


class _CountStats:
    """canon for pass B: strips the exact count and records, for information only, how often the real and the model
    count coincide.  core calls canon in pairs `canon(impl), canon(model)`."""

    def __init__(self):
        self.impl = None
        self.have_impl = False
        self.stats = {"compared": 0, "equal": 0, "impl_fewer": 0, "impl_more": 0}

    def __call__(self, out):
        r = _count_of(out)
        if not self.have_impl:
            self.impl, self.have_impl = (r[1] if r else None), True
        else:
            m = r[1] if r else None
            if m is not None and self.impl is not None:
                st = self.stats
                st["compared"] += 1
                st["equal" if m == self.impl else ("impl_fewer" if self.impl < m else "impl_more")] += 1
            self.have_impl = False
        return out[:r[0]].rstrip() if r else out


def run(ctx):
    ctx.modelled += [
        "the driver executes the PARTIAL operations Tree.insertC / Tree.removeC (Model/RBTreeChecked.lean: every pointer "
        "access of the Go fix-up loops is an Option; token `nil-deref` on none); C06.fixups_never_dereference_nil proves "
        "they never yield none on a reachable tree and equal Tree.insert / Tree.remove",
        "pointer-level model RB.PTree (Model/RBHeap.lean): node store with parent/left/right links, colour bit, t.root, "
        "t.count; Insert, rotateLeft/Right, Remove, recolor, node.find transcribed statement for statement; run by the driver "
        "in lock-step on every ins/rem line (verdict HEAP-MODEL-SPLIT / HEAP-MODEL-NIL-DEREF) and source of every node dump; "
        "C06.heap_run_refines proves that for every history and compare function it is defined and that the tree its links "
        "describe (every parent link checked) and its count are those of the functional model; parent links of the REAL "
        "nodes are compared through the overlay dump bit `parents=ok` and the op `inv`",
        "Go `compare` returns int; the model takes an Ordering-valued compare (the code only inspects the sign; the "
        "harness returns arbitrary magnitudes in div10 mode)",
        "Tree.Dump (prints to stdout for debugging) is modelled only as: one line per entry, the stored key multiset, "
        "tree unchanged",
        "a panic inside a visitor is modelled as the visitor returning false at that visit (the library has no recover); "
        "a compare function that panics at its first call abandons Insert/Remove/Get before any modification",
    ]
    ctx.assumptions += ["the compare function is a total preorder (structure RB.TotalPreorder) and has no side effects "
                        "other than being counted",
                        "visitors may stop, keep state, panic or call read-only methods of the tree; a visitor that calls "
                        "Insert/Remove on the tree it is traversing is outside the theorems and outside the correspondence "
                        "run (the library does not define that case and the functional model does not transcribe it)"]
    ctx.lean(props=["Props.C06"], drivers=["drv_c06"])
    # White-box observation needs the private names of package redblack.  (1) The overlay's accessor block is adapted to
    # the names found in the working tree (a pure renaming of unexported identifiers is not a change of behaviour);
    # (2) if the overlay still does not compile, core builds the harness without it under tag `nooverlay`
    # (go/cmd/c06/blackbox.go): structure and colours are then read from the text of the exported Tree.Dump(), values
    # inside dumps and parent links are not observed.  VERIF_C06_FORCE_NOOVERLAY=1 forces (2) (sensitivity experiments).
    ov, renamed = _overlay_for(ctx)
    if os.environ.get("VERIF_C06_FORCE_NOOVERLAY") == "1":
        ctx.harness("./cmd/c06", tags="verif nooverlay")
        ctx.extra["overlay_fallback"] = "forced by VERIF_C06_FORCE_NOOVERLAY=1"
    else:
        ctx.harness("./cmd/c06", overlay={"collection/redblack/verif_dump.go": ov})
    fallback = "overlay_fallback" in ctx.extra
    if fallback:
        ctx.extra["overlay_fallback_skipped"] = (
            "parent-link consistency; which value sits in which node (dumps compared without values); node structure "
            "and colours are read from Tree.Dump() text instead of the nodes (if that text cannot be parsed: no shape "
            "comparison and no colour invariants, balance through the comparison bound only)")
    elif renamed:
        ctx.extra["overlay_adapted_private_names"] = renamed
    ctx.extra["observation"] = "black-box (Tree.Dump() text + exported API)" if fallback else "white-box (overlay)"
    common = dict(area="rbtree", driver="drv_c06", stateful=True, trivial=lambda l, o: l in ("inv",),
                  model_only=lambda l: l.startswith("dump"))
    # pass A: observable behaviour only (node dumps reduced to the parent-link bit), so that a behavioural difference
    # is minimised and reported as such, with its concrete failing history, and is not crowded out by the shape
    # differences (model-only observable) that usually precede it in the same history
    ctx.diff(n={"quick": 500000, "thorough": 3000000}, canon=_Fallback(_behaviour_only) if fallback else _behaviour_only,
             theorem="C06.inorder_run / remove_inorder / queries_run / traverseFrom_run / count_run / run_inv / "
                     "compares_run are theorems about the model RB.Tree; the implementation differs from the model on "
                     "this history (or exceeds the comparison bound: cmp-bad, or breaks an invariant: inv)",
             what="results, comparison-bound verdict and invariant check of redblack.Tree vs the Lean model (node shape "
                  "ignored in this pass); " + BOUND_RULE,
             **common)
    # pass B: the same plus node shape and colours (op `dump`, model-only observable)
    stats = _CountStats()
    ctx.diff(n={"quick": 1000000, "thorough": 16000000}, canon=_Fallback(stats) if fallback else stats, tagger=_tag,
             theorem="C06.height_run / run_inv hold for the model, whose shape the implementation is expected to share; "
                     "the implementation's shape (or result, or comparison-bound verdict) differs from the model on "
                     "this history",
             what="results, comparison-bound verdict and node shape/colours of redblack.Tree vs the Lean model; "
                  + BOUND_RULE, **common)
    ctx.rules.append(BOUND_RULE)
    ctx.extra["hardening_audit"] = HARDENING
    ctx.extra["exact_compare_counts_informational"] = dict(
        stats.stats, note="real vs model number of compare calls per ins/rem/get/travfrom/rtravfrom line of pass B; "
                          "not part of the verdict")
