"""Lock-discipline tie (C12 rotation, C13 tracelog, C16 rate, C17 notifier), shared helper.

The concurrent theorems of these properties are about machines in which the bodies of the methods run inside the bracket
of one mutex (Model/Mutex.lean) and callbacks / channel operations run outside it.  Whether the Go code of the working
tree HAS that shape used to be tied by stress runs only.  `gossa/lockfacts <repo> <out.lean> -only <target> -bare`
computes, from the typed SSA form of the package (flow- and context-sensitive, through helpers, closures, defers and
generic instantiations), the lock state held at every instruction that touches mutable shared state of a mutex-guarded
struct and at every callback call, channel operation, acquisition and `go` statement, and writes them as Lean tables
(`lean/Generated/Lock_<target>.lean`).  `Props/CxxLock.lean` DECIDES the discipline about the regenerated tables in the
kernel (`decide` over the whole finite table — the quantifier is the table) and draws the consequences by the general
theorems of `Lemmas/LockSound.lean` (no two goroutines are simultaneously inside conflicting accesses, …).

`run(ctx, target, module, namespace)` — called by a check AFTER its own `ctx.lean(...)`:
  1. regenerates the table from `ctx.repo` (under a lock per target; the reference table is restored after a run against
     another working tree);
  2. builds the property module with a wall-clock limit and audits every theorem with `#print axioms`;
  3. when a theorem no longer checks, names it and lists the offending instructions (function, field, access, lock state)
     — computed from the same extraction — in the lean problem, so the replay file says WHERE the discipline is broken.
     The discipline is a proof obligation: a broken one is reported like a broken proof (VIOLATION … no-failing-input-found
     unless the stress oracle or the correspondence run of the check exhibits a concrete schedule).

Trusted: the extractor (about 2000 lines of Go over golang.org/x/tools/go/ssa) — that its `must` state is a lower and
its `may` state an upper bound of what a goroutine holds at the instruction, and that it sees every access (field cells,
map entries, slice elements and pointees reached through the guarded struct; state reached through other aliases is not
tracked).  It fails safe in the usual directions: an access it cannot place under the lock is reported free.
"""
import fcntl
import json
import os
import signal
import subprocess

from vlib import core

GOSSA = os.path.join(core.VERIF, "gossa")


def _gen(repo, out_path, target):
    if os.path.exists(out_path):
        os.remove(out_path)
    rc, out = core.sh(["go", "run", "./lockfacts", repo, out_path, "-only", target, "-bare"], cwd=GOSSA,
                      env=core.env_go(), timeout=600)
    if rc != 0 or not os.path.exists(out_path):
        return None, out
    try:
        return json.loads(out.strip().splitlines()[-1])["targets"][0], out
    except Exception:
        return None, out


def _offenders(info):
    """the rows that break one of the disciplines, as readable text (diagnosis only: the verdict is the kernel's)"""
    res = []
    for a in info.get("accesses") or []:
        snap = a["kind"] == "read" and a["via"] == "sliceElem"
        locked = a["must"] == "exclusive" if a["kind"] == "write" else a["must"] != "free"
        if not locked and not snap:
            res.append("%s: %s of %s.%s (%s) with the lock %s on some path (goroutine: %s)" % (
                a["fn"], a["kind"], a["owner"], a["field"], a["via"], a["must"], a["ctx"]))
        elif not locked:
            res.append("(snapshot element read, exempt where the module says so) %s: read of %s.%s elements with the lock %s"
                       % (a["fn"], a["owner"], a["field"], a["must"]))
    for e in info.get("events") or []:
        if e["what"] in ("acquire", "acquireShared") and e["may"] != "free":
            res.append("%s: %s while the lock may already be held (%s)" % (e["fn"], e["name"], e["may"]))
        if e["what"] == "callback" and e["may"] != "free":
            res.append("%s: callback %s called while the lock may be held (%s)" % (e["fn"], e["name"], e["may"]))
        if e["what"] in ("send", "recv") and e["may"] != "free":
            res.append("%s: blocking %s on %s while the lock may be held (%s)" % (e["fn"], e["what"], e["name"], e["may"]))
        if e["what"] == "sinkWrite" and e["ctx"] == "api" and not (e["guard"] == "chanNil" and e["must"] == "exclusive"):
            res.append("%s: sink write on a caller's goroutine, guard=%s, lock %s on some path" % (e["fn"], e["guard"], e["must"]))
        if e["guard"] == "chanSet" and not (e["what"] == "sendNB" and e["may"] == "free"):
            res.append("%s: %s %s on the buffered path with lock state up to %s" % (e["fn"], e["what"], e["name"], e["may"]))
    return res


def run(ctx, target, module, namespace, limit=300):
    gen = os.path.join(core.LEAN, "Generated", "Lock_%s.lean" % target)
    props_path = os.path.join(core.LEAN, module.replace(".", "/") + ".lean")
    names = [n for n in core.theorem_names(props_path)]
    os.makedirs(os.path.join(core.VERIF, ".work"), exist_ok=True)
    with open(os.path.join(core.VERIF, ".work", "lock_%s.lock" % target), "w") as lk:
        fcntl.flock(lk, fcntl.LOCK_EX)
        try:
            _run_locked(ctx, target, gen, props_path, module, namespace, names, limit)
        finally:
            if ctx.repo != "/repo" and os.path.isdir("/repo/xmath"):
                _gen("/repo", gen, target)   # leave the tracked file as generated from the reference tree


def _fail_all(ctx, names):
    for q in names:
        ctx.theorems.append({"name": q, "axioms": None, "ok": False})


def _run_locked(ctx, target, gen, props_path, module, namespace, names, limit):
    ctx.checker_cmds.append("cd gossa && go run ./lockfacts <repo> ../lean/Generated/Lock_%s.lean -only %s -bare   "
                            "(regenerate the lock-state tables from the Go source)" % (target, target))
    info, out = _gen(ctx.repo, gen, target)
    key = "lock_" + target
    if info is None:
        ctx.lean_problems.append("lockfacts could not analyse the working tree (target %s): %s" % (target, out[-400:]))
        _fail_all(ctx, names)
        return
    ctx.extra[key + "_guarded"] = info.get("guarded") or []
    ctx.extra[key + "_mutable_fields"] = info.get("mutable") or []
    ctx.extra[key + "_immutable_fields"] = info.get("immutable") or []
    ctx.extra[key + "_entries"] = info.get("entries") or []
    ctx.extra[key + "_accesses"] = len(info.get("accesses") or [])
    ctx.extra[key + "_events"] = len(info.get("events") or [])
    ctx.extra[key + "_contexts_analysed"] = info.get("contexts")
    off = _offenders(info)
    ctx.extra[key + "_offending_instructions"] = off
    ctx.rules.append("lock-discipline tie: %d accesses to mutable shared state and %d callback/channel/acquisition/go "
                     "events of package %s extracted from the typed SSA form of the working tree (%d calling contexts); "
                     "%s decides the discipline about exactly these tables"
                     % (len(info.get("accesses") or []), len(info.get("events") or []), info.get("pkg"),
                        info.get("contexts") or 0, module))
    if not info.get("guarded"):
        ctx.lean_problems.append("lock-discipline tie: package %s of the working tree has no struct that owns a "
                                 "sync.Mutex/RWMutex any more; the bracketed machine of the concurrent theorems has "
                                 "nothing to correspond to" % info.get("pkg"))
    cmd = ["lake", "build", module]
    ctx.checker_cmds.append("cd lean && " + " ".join(cmd))
    with open(os.path.join(core.VERIF, ".work", "lean.lock"), "w") as lk:
        fcntl.flock(lk, fcntl.LOCK_EX)
        p = subprocess.Popen(cmd, cwd=core.LEAN, stdout=subprocess.PIPE, stderr=subprocess.STDOUT, text=True,
                             errors="replace", start_new_session=True)
        try:
            bout, _ = p.communicate(timeout=limit)
            rc = p.returncode
        except subprocess.TimeoutExpired:
            try:
                os.killpg(p.pid, signal.SIGKILL)
            except OSError:
                pass
            bout, _ = p.communicate()
            rc = None
        if rc != 0:
            _fail_all(ctx, names)
            errs = [l for l in bout.splitlines() if "error" in l]
            failed = _failed(props_path, errs, namespace)
            ctx.extra[key + "_failed_theorems"] = failed
            msg = ("lock-discipline tie: the tables regenerated from the Go source no longer satisfy %s"
                   % (", ".join(failed) or module))
            if off:
                msg += " — offending instructions: " + " ;; ".join(off[:12])
            ctx.lean_problems.append(msg)
            print("# " + msg[:900])
            if rc is None:
                ctx.lean_problems.append("lake build %s did not finish within %d s" % (module, limit))
            return
        audit = os.path.join(core.LEAN, "Audit", module.split(".")[-1] + ".lean")
        os.makedirs(os.path.dirname(audit), exist_ok=True)
        with open(audit, "w") as f:
            f.write("import %s\n" % module)
            for q in names:
                f.write("#print axioms %s\n" % q)
        ctx.checker_cmds.append("cd lean && lake env lean Audit/%s   (#print axioms on every theorem)" % os.path.basename(audit))
        rc2, out2 = core.sh(["lake", "env", "lean", "Audit/" + os.path.basename(audit)], cwd=core.LEAN, timeout=1800)
        ax = core.parse_axioms(out2)
        for q in names:
            if q in ax:
                bad = [a for a in ax[q] if a not in core.ALLOWED_AXIOMS]
                ctx.theorems.append({"name": q, "axioms": ax[q], "ok": not bad})
                if bad:
                    ctx.lean_problems.append("theorem %s depends on axioms %s" % (q, bad))
            else:
                ctx.theorems.append({"name": q, "axioms": None, "ok": False})
                ctx.lean_problems.append("theorem %s does not check (no axiom report)" % q)
        if ctx.tier == "thorough":
            cmdc = ["lake", "env", "leanchecker", module]
            ctx.checker_cmds.append("cd lean && " + " ".join(cmdc))
            rc3, out3 = core.sh(cmdc, cwd=core.LEAN, timeout=3600)
            if rc3 != 0:
                ctx.lean_problems.append("leanchecker rejected %s: %s" % (module, out3[-300:]))
    prev_files = ctx.extra.get("lean_files_scanned", [])
    prev_hits = ctx.extra.get("forbidden_token_hits", [])
    ctx._scan_forbidden([module])
    ctx.extra["lean_files_scanned"] = sorted(set(prev_files) | set(ctx.extra.get("lean_files_scanned", [])))
    ctx.extra["forbidden_token_hits"] = sorted(set(prev_hits) | set(ctx.extra.get("forbidden_token_hits", [])))


def _failed(props_path, errs, namespace):
    import re
    lines = set()
    base = os.path.basename(props_path)
    for p in errs:
        for m in re.finditer(re.escape(base) + r":(\d+):", p):
            lines.add(int(m.group(1)))
    src = open(props_path).read().split("\n")
    names = []
    for ln in sorted(lines):
        k = min(ln, len(src)) - 1
        while k >= 0 and not re.match(r"^theorem\s+(\S+)", src[k]):
            k -= 1
        if k >= 0:
            n = namespace + "." + re.match(r"^theorem\s+(\S+)", src[k]).group(1)
            if n not in names:
                names.append(n)
    return names
