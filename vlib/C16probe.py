#!/usr/bin/env python3
"""python3 vlib/C16probe.py <seeded-name | --clean SEED>   (b7-c16; not part of ./check)

No-Lean screening for C16: the correspondence part of `./check C16` (burst with the state dump, window, stress, -race
stress) with the Lean build / audit and the lock tables skipped, so that it does not queue for the global Lean lock
(.work/lean.lock).  Uses the already built lean/.lake/build/bin/drv_c16.
  <seeded-name>   applies seeded/<name>/patch.diff to a scratch worktree of /repo and prints CAUGHT / NOCONCRETE / SILENT
  --clean SEED    runs the unchanged /repo with VERIF_SEED=SEED and prints the number of violations
It writes no evidence and no results.json entry; replays of a probe land in /verif/replays like those of mut.sh."""
import os
import shutil
import subprocess
import sys
import time

sys.path.insert(0, os.path.dirname(os.path.dirname(os.path.abspath(__file__))))
os.chdir(os.path.dirname(os.path.dirname(os.path.abspath(__file__))))
from vlib import core, lockfacts  # noqa: E402
import vlib.C16 as C16  # noqa: E402


def _run(repo, seed):
    ctx = core.Ctx("C16", "quick", seed, repo, None)
    ctx.lean = lambda *a, **k: None
    lockfacts.run = lambda *a, **k: None
    snap = os.path.join(ctx.work, "drv_c16.snap")
    shutil.copy(os.path.join(core.LEAN, ".lake", "build", "bin", "drv_c16"), snap)
    ctx.driver_bin["drv_c16"] = snap
    C16.run(ctx)
    return ctx


def main():
    if len(sys.argv) == 3 and sys.argv[1] == "--clean":
        t0 = time.time()
        ctx = _run("/repo", int(sys.argv[2]))
        print("seed %s: violations=%d evals=%d %s wall=%.0fs %s" % (sys.argv[2], len(ctx.violations), ctx.evals,
              ctx.extra.get("burst_lines"), time.time() - t0, [v["what"][:200] for v in ctx.violations][:2]))
        return 1 if ctx.violations else 0
    name = sys.argv[1]
    patch = os.path.join(core.VERIF, "seeded", name, "patch.diff")
    wt = "/tmp/wtc16p" + name.replace("-", "")
    subprocess.run(["git", "-C", "/repo", "worktree", "remove", "--force", wt], capture_output=True)
    subprocess.run(["git", "-C", "/repo", "worktree", "add", "-q", "--detach", wt, "HEAD"], check=True)
    try:
        if subprocess.run(["git", "-C", wt, "apply", patch], capture_output=True).returncode != 0:
            print(name, "NOAPPLY")
            return 3
        t0 = time.time()
        ctx = _run(wt, int(os.environ.get("VERIF_SEED", "1")))
        conc = [v for v in ctx.violations if v.get("concrete")]
        other = [v for v in ctx.violations if not v.get("concrete")]
        fb = ("dump_fallback " if "dump_fallback" in ctx.extra else "") + ("BLACKBOX " if "overlay_fallback" in ctx.extra else "")
        verdict = "CAUGHT" if conc else ("NOCONCRETE" if other else "SILENT")
        first = (conc or other or [{"what": ""}])[0]["what"][:230]
        print("%-28s %-10s %s%.0fs evals=%d dump=%s | %s" % (name, verdict, fb, time.time() - t0, ctx.evals,
              ctx.extra.get("burst_lines", {}).get("with_state_dump"), first))
        shutil.rmtree(ctx.work, ignore_errors=True)
        return 0
    finally:
        subprocess.run(["git", "-C", "/repo", "worktree", "remove", "--force", wt], capture_output=True)


if __name__ == "__main__":
    sys.exit(main())
