"""C05 — polygon Boolean operations: translation validation with a proved validator.

The clipper (a float port of the GPC scan-beam algorithm) is NOT modelled.  Every individual call of the real
Union/Intersect/Sub/Xor is executed by the harness (go/cmd/c05), which appends the real result R; the Lean oracle
`drv_c05` (Model/EvenOdd.lean, exact dyadic arithmetic) then validates that call:

  lattice area  rectilinear polygons on the integer lattice of [0,N]^2, N <= 12: `EO.validateLattice` — decided
                EXHAUSTIVELY per call (Props/C05.lean `validateLattice_sound`: a `true` verdict implies the Boolean law
                at every point of every open unit cell, and nothing is inside outside the square);
  general area  polygons in general position (generator rejects the rest): `EO.validatePoints` on 120 sample points
                per call that keep a margin of 1/64 from every edge of A, B and R — SAMPLING with a Lean oracle;
  corpus        corpus/C05/*.ops (fixed enumerated degenerate inputs and boundary cases), both modes.

Anything but `valid <judgements>` (invalid <witness>, operands-modified, empty-mismatch, panic, crash) is a violation.
"""
import hashlib
import json
from concurrent.futures import ThreadPoolExecutor

DRIVER = "drv_c05"
N_CALLS = {
    "lattice": {"quick": 60000, "thorough": 2400000},
    "general": {"quick": 6000, "thorough": 160000},
}


def _validate(ctx, area, lines):
    """-> list of (line, impl_out, verdict)"""
    io = ctx.run_impl(area, lines, timeout=1800)
    if io is None:
        return None
    joined = [l + " => " + o for l, o in zip(lines, io)]
    mo = ctx.run_model(DRIVER, joined, timeout=3600)
    if mo is None:
        return [(l, o, None) for l, o in zip(lines, io)]
    return list(zip(lines, io, mo))


def _operands_nonempty(line):
    # "... A <nc> ... B <nc> ..."
    w = line.split()
    try:
        return w[w.index("A") + 1] != "0" and w[w.index("B") + 1] != "0"
    except (ValueError, IndexError):
        return False


def _account(ctx, area, tag, triples, counters):
    reported = 0
    for k, (line, out, verdict) in enumerate(triples):
        ctx.evals += 1
        w = line.split(" ", 3)
        kind = "%s:%s:%s" % (area, w[0], w[1] if len(w) > 1 else "?")
        ctx.kinds[kind] = ctx.kinds.get(kind, 0) + 1
        if out == "skipped-after-crash":
            continue
        good = verdict is not None and verdict.startswith("valid ")
        if good:
            j = int(verdict.split()[1])
            counters["programs"] += 1
            counters["judgements"] += j
            counters["judgements_" + area] = counters.get("judgements_" + area, 0) + j
            if out == "R 0":
                counters["empty_results"] += 1
            if j > 0 and _operands_nonempty(line):
                ctx.distinct.add(hashlib.md5((area + "|" + line).encode()).digest()[:8])
            t = "result-contours=%s" % (out.split()[1] if out.startswith("R ") and len(out.split()) > 1 else "?")
            ctx.tags[t] = ctx.tags.get(t, 0) + 1
            if len(ctx.samples) < 4 or (len(ctx.samples) < 12 and k % 1499 == 7):
                ctx.samples.append({"area": area, "call": line[:400], "result": out[:300], "oracle": verdict})
            continue
        if verdict == "bad-op" and out == "bad-op":
            ctx.violations.append({"kind": "harness", "concrete": False,
                                   "what": "malformed operation line in %s/%s: %s" % (area, tag, line[:120])})
            continue
        if reported >= 2 or counters["reported"] >= 4:
            counters["suppressed"] += 1
            continue
        reported += 1
        counters["reported"] += 1
        rep = {"property": "C05", "kind": "translation-validation", "area": area, "stream": tag, "driver": DRIVER,
               "harness": "harness", "ops": [line], "impl_outputs": [out], "model_outputs": [verdict],
               "contradicts": "C05.validateLattice_sound / C05.validatePoints_sound: the oracle rejects the result "
                              "of this call (or the call panicked / modified an operand)",
               "concrete_failing_input": True}
        path = ctx._write_replay(rep)
        ctx.violations.append({"kind": "translation-validation", "replay": path, "concrete": True,
                               "what": "%s: clipper result rejected: %s  (impl output %s) on `%s`" % (
                                   area, verdict, out[:100], line[:200])})


def _replay(ctx):
    rep = json.load(open(ctx.replay))
    area = rep.get("area", "lattice")
    triples = _validate(ctx, area, rep["ops"]) or []
    ctx.evals += len(triples)
    ctx.samples.append({"replayed": [o[:300] for o in rep["ops"][:3]]})
    bad = [(l, o, v) for l, o, v in triples if not (v or "").startswith("valid ")]
    if bad:
        l, o, v = bad[0]
        print("replay: still failing: oracle=%s impl=%s" % (v, o[:200]))
        ctx.violations.append({"kind": "translation-validation", "what": "replay still fails", "replay": ctx.replay,
                               "concrete": True})
    else:
        print("replay: the oracle accepts every call of the replay")
    ctx.extra["programs"] = len(triples)
    ctx.extra["disagreements_checked"] = sum(int(v.split()[1]) for _, _, v in triples if (v or "").startswith("valid "))


def run(ctx):
    ctx.level = "translation_validation"
    ctx.modelled += [
        "the clipper itself is not modelled: each call is validated by the Lean even-odd oracle drv_c05 "
        "(EO.validateLattice / EO.validatePoints, exact dyadic arithmetic); the theorems of Props/C05.lean are about "
        "that oracle",
        "harness go/cmd/c05: operand parsing (exactness of every number is checked), bit-exact printing of the "
        "result, operand deep comparison, Polygon.Empty cross-check",
    ]
    ctx.assumptions += [
        "nothing universal is claimed about the clipper: the claim is per validated call",
        "general-position calls are judged on sample points only (120 candidates per call, margin 1/64 from every "
        "edge of A, B and R); lattice calls are decided at every point of every open unit cell, points on lattice "
        "lines are not judged",
    ]
    ctx.lean(props=["Props.C05"], drivers=[DRIVER])
    if not ctx.harness("./cmd/c05"):
        return
    if ctx.replay:
        return _replay(ctx)

    shards = {"lattice": 8, "general": 16} if ctx.tier == "quick" else {"lattice": 16, "general": 32}
    jobs = []
    for area in ("lattice", "general"):
        c = ctx.corpus(area)
        if c:
            jobs.append((area, "corpus", c))
    gens = []
    for area in ("lattice", "general"):
        per = max(1, N_CALLS[area][ctx.tier] // shards[area])
        for i in range(shards[area]):
            gens.append((area, ctx.seed * 1000003 + i, per))

    def gen(g):
        area, seed, per = g
        return (area, "seed%d" % seed, ctx.gen(area, seed, per))

    def work(job):
        area, tag, lines = job
        return (area, tag, lines, _validate(ctx, area, lines))

    with ThreadPoolExecutor(max_workers=16) as ex:
        jobs += list(ex.map(gen, gens))
        # longest first: general shards dominate
        jobs.sort(key=lambda j: (j[1] != "corpus", j[0] != "general"))
        results = list(ex.map(work, jobs))

    counters = {"programs": 0, "judgements": 0, "empty_results": 0, "reported": 0, "suppressed": 0}
    for area, tag, lines, triples in results:
        if triples is None:
            ctx.violations.append({"kind": "harness", "concrete": False,
                                   "what": "harness could not run stream %s/%s" % (area, tag)})
            continue
        if any(v is None for _, _, v in triples):
            ctx.violations.append({"kind": "correspondence", "concrete": False,
                                   "what": "oracle driver %s failed on stream %s/%s" % (DRIVER, area, tag)})
            continue
        _account(ctx, area, tag, triples, counters)
    ctx.extra["programs"] = counters["programs"]
    ctx.extra["disagreements_checked"] = counters["judgements"]
    ctx.extra["judgements_lattice_cells_exhaustive"] = counters.get("judgements_lattice", 0)
    ctx.extra["judgements_general_sample_points"] = counters.get("judgements_general", 0)
    ctx.extra["empty_results"] = counters["empty_results"]
    ctx.extra["violations_not_listed"] = counters["suppressed"]
    ctx.extra["exhaustive"] = False
    ctx.rules.append(
        "programs = clipper calls (one per op line: op, float type, A, B) executed by the real code and accepted by the "
        "Lean oracle; disagreements_checked = (call, cell) judgements of lattice calls (every cell of [0,N]^2, which by "
        "C05.validateLattice_sound decides every point of every open cell) plus (call, sample point) judgements of "
        "general-position calls (only points that pass the Lean margin test are counted); corpus lines first, then "
        "seed-derived shards (SplitMix64); non-trivial = both operands non-empty and at least one judgement; "
        "distinct = distinct op lines")
