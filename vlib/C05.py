"""C05 — polygon Boolean operations: translation validation with a proved validator.

The clipper (a float port of the GPC scan-beam algorithm) is NOT modelled.  Every individual call of the real
Union/Intersect/Sub/Xor is executed by the harness (go/cmd/c05), which appends the real result R; the Lean oracle
`drv_c05` (Model/EvenOdd.lean, exact dyadic arithmetic) then validates that call:

  lattice area  rectilinear polygons on the integer lattice of [0,N]^2, N <= 12: `EO.validateLattice` — decided
                EXHAUSTIVELY per call (Props/C05.lean `validateLattice_sound`: a `true` verdict implies the Boolean law
                at every point of every open unit cell, and nothing is inside outside the square);
  general area  polygons in general position (generator rejects the rest): `EO.validateGeneral` on 100 sample points
                per call that keep a margin of 1/64 from every edge of A, B and R — SAMPLING with a Lean oracle; the
                harness adds up to ~60 candidates taken from the RESULT itself (edge midpoints pushed to both sides,
                vertex averages) so that area only the result has is judged; about a fifth of these calls have a
                combined region that is PROVABLY empty (`EO.emptyCert`, `C05.emptyCert_sound`: separated operands for
                Intersect — by an axis-parallel line or by the line through one of their edges, i.e. also disjoint
                convex polygons with OVERLAPPING boxes, where the sweep decides —, identical operands for Sub/Xor, a
                covering rectangle for Sub, an operand without edges) and for them the result must be empty
                (`EO.validateGeneral`); another share is disjoint / nested with overlapping boxes in ways only the exact
                general judgement `EO.noContact` / `EO.containedIn` recognises (interleaved combs, a triangle in the
                notch of an L, a polygon in the hole of a ring, a polygon inside another one for Sub): the result must be
                empty too (C05.noContact_disjoint / containedIn_subset: proved, a Jordan-type theorem); three quarters of the remaining
                pairs have crossing boundaries; a call with no judged point is `unjudged`
                and is not counted as validated;
  biglattice /  LARGE inputs (a few dozen calls per quick run): 66-110 lattice rows / columns listed in descending,
  biggeneral    ascending or shuffled order, staircases and combs with 66-150 steps on [0,N]^2, N = 72..150 (exhaustive
                cell check, N^2 cells per call); 100-400-gons (regular, perturbed, elliptic, rings), the polygons
                poly.FromEllipse / poly.FromRect themselves produce, against each other and against small polygons, in
                general position (margins 1/2), 100 sample points per call, Lean margin 1/8;
  chain         3-5 calls per line on lattice polygons: operands are initial polygons or the polygons RETURNED by earlier
                calls (reused as returned), the same entry on both sides, Polygon.Clone() of an entry, empty results fed
                back in; after every call the whole pool is compared with a snapshot and the result is overwritten to
                detect shared memory; every step is validated by `validateLattice` on the exact returned values;
  prune         the FIRST STAGE of the clipper alone: `Polygon.identifyNonContributingContours` (bounding-box pruning) is
                called through the overlay go/overlay/c05_prune.go on operands with 1-7 scattered / abutting / overlapping
                contours (lattice integers, quarter steps, magnitudes up to 2^52 where the +1 of the box is absorbed); the
                flags it returns are checked by `EO.pruneOK` (C05.prune_sound: dropping the flagged contours changes the
                combined region at no point) and, where the float arithmetic of the box is exact, compared with the Lean
                transcription `EO.nonContributing` (C05.nonContributing_sound) - agreement is a statistic, not a demand;
                `unobserved` (no judgement, no alarm) when the overlay does not compile against the working tree;
  emit / sbt    two more stages through the overlay go/overlay/c05_emit.go: `polygonNode.generate` on synthetic output
                chains (rectilinear lattice contours with repeated vertices, chains of 0-2 vertices, inactive chains,
                chains that cancel each other): the emitted polygon must contain exactly the points of the active chains
                (`EO.sameRegionLattice`, exhaustive cells; C05.emit_sound, C05.generate_region); `scanBeamTree.add` +
                `buildScanBeamTable` on ordinate lists (duplicates, +-0, neighbours one ulp or < 1e-5 apart, ascending /
                descending runs, up to 100 entries): the table must equal `EO.scanBeamTable` (C05.scanBeamTable_spec);
  lmt           the local minima table `buildLocalMinimaTable` builds for the operand A (contour optimisation, forward and
                reverse passes, bound lists; overlay) on lattice, general-position and scattered-contour lines: validated
                by `EO.lmtOK` - the edges of all bounds are exactly the non-horizontal edges of A, lower end first, as a
                multiset (C05.lmt_sound: the sweep is handed the whole boundary, nothing else), the minima are strictly
                ascending and the scan-beam table is the ascending list of the end points' ordinates;
  contains      the library's own point tests: `Polygon.ContainsEvenOdd` and `Polygon.Contains` (hence `Contour.Contains`)
                of both operands of lattice and general-position lines, at the N^2 cell centres resp. at the sample points
                that keep the margin, against the transcription `EO.containsEvenOdd` / `EO.containsAny`, which is proved to
                be the even-odd rule of the specification (resp. the union of the contours) off the edges - this also
                cross-validates the Lean oracle against an independent implementation;
  corpus        corpus/C05/*.ops (fixed enumerated degenerate inputs and boundary cases), both modes;
                corpus/C05/degenerate.known.ops are the KNOWN FINDINGS on degenerate lattice inputs (panics, wrong
                regions): each must be matched by an entry of known_findings.json (KNOWN-FINDING, exit 0), every other
                rejected call is a VIOLATION.  A random degenerate-lattice stream is run as an observation only.

Anything but `valid <judgements>` (invalid <witness>, operands-modified, empty-mismatch, panic, timeout, crash) is a
violation.  Every call runs under a 2 s watchdog inside the harness (a looping clipper costs seconds: the harness exits
with status 124, the rest of that stream is skipped; the first such line is re-run alone with an 8 s limit before it is
reported, so a stall of an overloaded machine is not mistaken for a loop).
"""
import hashlib
import json
import os
import subprocess
import time
from concurrent.futures import ThreadPoolExecutor

DRIVER = "drv_c05"
N_CALLS = {
    "lattice": {"quick": 60000, "thorough": 1500000},
    "general": {"quick": 9000, "thorough": 180000},
    # LARGE inputs (deep scan-beam tree / long active edge table); each call costs 0.1-1.5 s of oracle time
    "biglattice": {"quick": 64, "thorough": 2000},
    "biggeneral": {"quick": 48, "thorough": 2500},
    # chains of 3-5 calls that reuse results (and clones, the same entry twice, empty results) as operands; lattice
    "chain": {"quick": 8000, "thorough": 240000},
    # the bounding-box pruning step alone (identifyNonContributingContours through the overlay): flags, not results
    "prune": {"quick": 4000, "thorough": 80000},
    # the emission step (polygonNode.generate) and the scan-beam table alone, through the overlay
    "emit": {"quick": 2400, "thorough": 48000},
    "sbt": {"quick": 2400, "thorough": 48000},
    # the library's own point tests (ContainsEvenOdd / Contains) against their transcription, ~280 point tests per line
    "contains": {"quick": 1600, "thorough": 32000},
    # the local minima table of the operand A (buildLocalMinimaTable through the overlay), validated by EO.lmtOK
    "lmt": {"quick": 3000, "thorough": 60000},
}


def _validate(ctx, area, lines, extra_env=None):
    """-> list of (line, impl_out, verdict)"""
    io = ctx.run_impl(area, lines, timeout=300 if ctx.tier == "quick" else 1800, extra_env=extra_env)
    if io is None:
        return None
    joined = [l + " => " + o for l, o in zip(lines, io)]
    mo = ctx.run_model(DRIVER, joined, timeout=3600)
    if mo is None:
        return [(l, o, None) for l, o in zip(lines, io)]
    return list(zip(lines, io, mo))


def _operands_nonempty(line):
    # "... A <nc> ... B <nc> ..."
    w = line.split()
    if w and w[0] == "chain":
        return True
    try:
        return w[w.index("A") + 1] not in ("0", "nil") and w[w.index("B") + 1] not in ("0", "nil")
    except (ValueError, IndexError):
        return False


def _summarise(area, tag, triples):
    """Runs inside the worker: reduce one stream to counters, keeping only what the report needs."""
    S = {"area": area, "tag": tag, "evals": 0, "programs": 0, "judgements": 0, "empty_results": 0, "kinds": {},
         "tags": {}, "distinct": set(), "samples": [], "bad": [], "bad_count": 0, "malformed": None}
    for k, (line, out, verdict) in enumerate(triples):
        S["evals"] += 1
        w = line.split(" ", 3)
        kind = "%s:%s:%s" % (area, w[0], w[1] if len(w) > 1 else "?")
        S["kinds"][kind] = S["kinds"].get(kind, 0) + 1
        if out == "skipped-after-crash":
            continue
        if verdict is not None and verdict.startswith("unjudged"):
            S["unjudged"] = S.get("unjudged", 0) + 1  # executed, but nothing was judged: never counted as validated
            continue
        if area == "prune" and verdict is not None and verdict.startswith("valid "):
            # flags of the pruning step accepted by EO.pruneOK: counted on their own, never as cell / point judgements
            S["prune_calls"] = S.get("prune_calls", 0) + 1
            S["prune_flagged"] = S.get("prune_flagged", 0) + int(verdict.split()[1])
            S["prune_contours"] = S.get("prune_contours", 0) + int(verdict.split()[3])
            rk = "prune_" + verdict.split()[4].replace("-", "_") if len(verdict.split()) > 4 else "prune_rule_not_compared"
            S[rk] = S.get(rk, 0) + 1
            if int(verdict.split()[1]) > 0:
                S["prune_calls_with_flag"] = S.get("prune_calls_with_flag", 0) + 1
                S["distinct"].add(int.from_bytes(hashlib.md5((area + "|" + line).encode()).digest()[:8], "big"))
            if len(S["samples"]) < 1 and k % 499 == 7:
                S["samples"].append({"area": area, "call": line[:400], "result": out[:300], "oracle": verdict})
            continue
        if area in ("emit", "sbt", "contains", "lmt") and verdict is not None and verdict.startswith("valid "):
            # a stage of the clipper judged on its own (overlay): counted on its own
            S[area + "_calls"] = S.get(area + "_calls", 0) + 1
            S[area + "_units"] = S.get(area + "_units", 0) + int(verdict.split()[1])
            for tag in ("rule-agrees", "rule-differs"):
                if tag in verdict:
                    kk = area + "_" + tag.replace("-", "_")
                    S[kk] = S.get(kk, 0) + 1
            S["distinct"].add(int.from_bytes(hashlib.md5((area + "|" + line).encode()).digest()[:8], "big"))
            if len(S["samples"]) < 1 and k % 499 == 7:
                S["samples"].append({"area": area, "call": line[:400], "result": out[:300], "oracle": verdict})
            continue
        if verdict is not None and verdict.startswith("valid "):
            j = int(verdict.split()[1])
            if verdict.endswith("empty-judged"):
                S["empty_judged"] = S.get("empty_judged", 0) + 1
                if out.split(" X ")[0] != "R 0":
                    S["empty_with_contours"] = S.get("empty_with_contours", 0) + 1
            if verdict.endswith("empty-certified"):
                S["empty_certified"] = S.get("empty_certified", 0) + 1
                if out.split(" X ")[0] != "R 0":
                    S["empty_with_contours"] = S.get("empty_with_contours", 0) + 1
            S["programs"] += line.count(" S ") if area == "chain" else 1  # a chain line is several clipper calls
            S["judgements"] += j
            if out.split(" X ")[0] == "R 0":
                S["empty_results"] += 1
            if j > 0 and _operands_nonempty(line):
                S["distinct"].add(int.from_bytes(hashlib.md5((area + "|" + line).encode()).digest()[:8], "big"))
            t = "result-contours=%s" % (out.split()[1] if out.startswith("R ") and len(out.split()) > 1 else "?")
            S["tags"][t] = S["tags"].get(t, 0) + 1
            if len(S["samples"]) < 2 and k % 1499 == 7:
                S["samples"].append({"area": area, "call": line[:400], "result": out[:300], "oracle": verdict})
            continue
        if verdict == "bad-op" and out == "bad-op":
            S["malformed"] = line[:120]
            continue
        S["bad_count"] += 1
        if len(S["bad"]) < (50 if area == "degenerate" else 2):
            S["bad"].append((line, out, verdict))
    return S


def _report(ctx, S, counters):
    area, tag = S["area"], S["tag"]
    if S["malformed"]:
        ctx.violations.append({"kind": "harness", "concrete": False,
                               "what": "malformed operation line in %s/%s: %s" % (area, tag, S["malformed"])})
    counters["suppressed"] += S["bad_count"] - len(S["bad"])
    for line, out, verdict in S["bad"]:
        known = ctx._known_match(area, line, [line])
        if known:
            ctx.known_hits.append(known)
            counters["known"] = counters.get("known", 0) + 1
            continue
        if counters["reported"] >= 4:
            counters["suppressed"] += 1
            continue
        if out.startswith("crash:exit124"):
            # the 2 s watchdog fired: confirm alone with an 8 s limit before calling it a loop (machine stalls)
            if counters.get("timeout_confirmations", 0) >= 1:
                counters["suppressed"] += 1
                continue
            counters["timeout_confirmations"] = 1
            env = dict(os.environ)
            env["C05_CALL_TIMEOUT_MS"] = "8000"
            try:
                p = subprocess.run([ctx.harness_bin["harness"], "run", area], input=line + "\n", env=env, text=True,
                                   stdout=subprocess.PIPE, stderr=subprocess.PIPE, timeout=60, cwd=ctx.work)
                rc = p.returncode
            except subprocess.TimeoutExpired:
                rc = 124
            if rc == 0:
                counters["spurious_timeouts"] = counters.get("spurious_timeouts", 0) + 1
                continue
            out, verdict = "timeout", "invalid impl:timeout (call did not return within 8 s)"
        counters["reported"] += 1
        rep = {"property": "C05", "kind": "translation-validation", "area": area, "stream": tag, "driver": DRIVER,
               "harness": "harness", "ops": [line], "impl_outputs": [out], "model_outputs": [verdict],
               "contradicts": ("C05.prune_sound: the pruning step flags a contour that EO.pruneOK does not accept (dropping "
                               "it may change the combined region)" if area == "prune" else
                               "C05.emit_sound: the polygon generate returned does not contain exactly the points of the "
                               "chains" if area == "emit" else
                               "C05.scanBeamTable_spec: the scan-beam table is not the ascending list of the distinct "
                               "ordinates added" if area == "sbt" else
                               "C05.lmt_sound: the local minima table does not hold exactly the non-horizontal edges of the "
                               "operand" if area == "lmt" else
                               "C05.containsEvenOdd_is_inside / containsAny_is_union: the library's point test answers "
                               "differently from its transcription at a point off the edges" if area == "contains" else
                               "C05.validateLattice_sound / C05.validatePoints_sound: the oracle rejects the result "
                               "of this call (or the call panicked / modified an operand)"),
               "concrete_failing_input": True}
        path = ctx._write_replay(rep)
        ctx.violations.append({"kind": "translation-validation", "replay": path, "concrete": True,
                               "what": "%s: clipper result rejected: %s  (impl output %s) on `%s`" % (
                                   area, verdict, out[:100], line[:200])})


def _replay(ctx):
    rep = json.load(open(ctx.replay))
    area = rep.get("area", "lattice")
    triples = _validate(ctx, area, rep["ops"]) or []
    ctx.evals += len(triples)
    ctx.samples.append({"replayed": [o[:300] for o in rep["ops"][:3]]})
    bad = [(l, o, v) for l, o, v in triples if not (v or "").startswith("valid ")]
    if bad:
        l, o, v = bad[0]
        print("replay: still failing: oracle=%s impl=%s" % (v, o[:200]))
        ctx.violations.append({"kind": "translation-validation", "what": "replay still fails", "replay": ctx.replay,
                               "concrete": True})
    else:
        print("replay: the oracle accepts every call of the replay")
    ctx.extra["programs"] = len(triples)
    ctx.extra["disagreements_checked"] = sum(int(v.split()[1]) for _, _, v in triples if (v or "").startswith("valid "))


def run(ctx):
    ctx.level = "translation_validation"
    ctx.modelled += [
        "the clipper itself is not modelled: each call is validated by the Lean even-odd oracle drv_c05 "
        "(EO.validateLattice / EO.validatePoints, exact dyadic arithmetic); the theorems of Props/C05.lean are about "
        "that oracle",
        "modelled part of the clipper: the trivial-result shortcut of Polygon.construct (EO.shortCircuit) and the "
        "bounding-box pruning Polygon.identifyNonContributingContours with Contour.Bounds / geom.Rect.Intersects in "
        "exact arithmetic (EO.nonContributing; C05.nonContributing_sound); the real function's flags are validated "
        "by EO.pruneOK (area prune, overlay go/overlay/c05_prune.go)",
        "also modelled: polygonNode.generate (EO.generate, C05.generate_region; area emit) and scanBeamTree.add / "
        "buildScanBeamTable (EO.scanBeamTable, C05.scanBeamTable_spec; area sbt), both through go/overlay/c05_emit.go",
        "validated, not transcribed: buildLocalMinimaTable (EO.lmtOK on the table the real code built, C05.lmt_sound; "
        "area lmt, overlay)",
        "also modelled: Contour.Contains, Polygon.ContainsEvenOdd, Polygon.Contains in exact arithmetic "
        "(EO.containsC / containsEvenOdd / containsAny; C05.containsEvenOdd_is_inside, containsAny_is_union; area contains)",
        "harness go/cmd/c05: operand parsing (exactness of every number is checked), bit-exact printing of the "
        "result, operand deep comparison, Polygon.Empty cross-check",
    ]
    ctx.assumptions += [
        "nothing universal is claimed about the clipper: the claim is per validated call",
        "general-position calls are judged on sample points only (100 candidates per call plus up to ~60 taken from "
        "the result, margin 1/64 - for a third of the float64 calls 1/1024 - from every "
        "edge of A, B and R); lattice calls are decided at every point of the plane "
        "(C05.validateLattice_sound_everywhere; a point on a lattice line is classified by the half-open crossing rule "
        "like the cell to its upper right)",
        "the transcription EO.nonContributing uses exact arithmetic: the rounding guard of poly.extent is not modelled; "
        "what the real float code flags is checked directly (EO.pruneOK), at all magnitudes",
    ]
    t0 = time.time()
    ctx.lean(props=["Props.C05"], drivers=[DRIVER])
    # the Lean phase waits on the lock shared by ALL checks (.work/lean.lock): its wall time is not this check's cost
    ctx.extra["wall_lean_phase_incl_shared_lock_wait_s"] = round(time.time() - t0, 1)
    t1 = time.time()
    # white-box view of the pruning step (area `prune`); core falls back to a black-box build (tag nooverlay) when the
    # overlay does not compile against the working tree, and the pruning step is then simply not observed
    if not ctx.harness("./cmd/c05", overlay={"xmath/geom/poly/verif_c05_prune.go": "c05_prune.go",
                                                "xmath/geom/poly/verif_c05_emit.go": "c05_emit.go"}):
        return
    if ctx.replay:
        return _replay(ctx)

    if ctx.tier == "quick":
        shards = {"lattice": 8, "general": 24, "biglattice": 8, "biggeneral": 8, "chain": 4, "prune": 2, "emit": 1, "sbt": 1, "contains": 4, "lmt": 2}
    else:
        shards = {"lattice": 32, "general": 96, "biglattice": 32, "biggeneral": 32, "chain": 32, "prune": 16, "emit": 16, "sbt": 8, "contains": 32, "lmt": 16}
    jobs = []
    chunk = {"biglattice": 1, "biggeneral": 2}  # the large corpus calls cost about a second of oracle time each
    for area in ("biglattice", "biggeneral", "lattice", "general", "chain", "degenerate", "prune", "emit", "sbt", "contains", "lmt"):
        c = ctx.corpus(area)
        n = chunk.get(area, 100)  # chunks: the degenerate corpus lines carry many sample points
        for k in range(0, len(c), n):
            jobs.append((area, "corpus%d" % (k // n), c[k:k + n], None, 0))
    for area in ("biglattice", "biggeneral", "general", "lattice", "chain", "contains", "prune", "lmt", "emit", "sbt"):  # long first
        per = max(1, N_CALLS[area][ctx.tier] // shards[area])
        for i in range(shards[area]):
            jobs.append((area, "seed%d" % (ctx.seed * 1000003 + i), None, ctx.seed * 1000003 + i, per))

    # observation only (OUTSIDE the judged domain and outside every count): random degenerate lattice inputs, and the
    # regular families scaled by 2^-20 (all distances below the clipper's absolute epsilon of 1e-5)
    q = ctx.tier == "quick"
    obs_jobs = []
    for area, total, parts in (("degenerate", 1200 if q else 12000, 6), ("tinygeneral", 300 if q else 3000, 3),
                               ("tinylattice", 1500 if q else 15000, 1)):
        for i in range(parts):
            obs_jobs.append((area, "observe%d" % i, None, ctx.seed * 1000003 + 500 + i, total // parts))

    def observe(job):
        area, tag, _, seed, per = job
        lines = ctx.gen(area, seed, per)
        triples = _validate(ctx, area, lines) or []
        rej = [(l, o, v) for l, o, v in triples if not (v or "").startswith("valid ")]
        return (area, len(triples), len(rej), sum(1 for _, o, _ in rej if o == "panic"))

    def work(job):
        area, tag, lines, seed, per = job
        if lines is None:
            lines = ctx.gen(area, seed, per)
        triples = _validate(ctx, area, lines)
        if triples is None:
            return {"area": area, "tag": tag, "failed": "harness could not run the stream"}
        if any(v is None for _, _, v in triples):
            return {"area": area, "tag": tag, "failed": "oracle driver %s failed on the stream" % DRIVER}
        return _summarise(area, tag, triples)

    with ThreadPoolExecutor(max_workers=16) as ex:
        obs_f = [ex.submit(observe, j) for j in obs_jobs]
        results = list(ex.map(work, jobs))
        obs = [f.result() for f in obs_f]
    notes = {
        "degenerate": "random NON-rectilinear polygons with vertices on a small integer lattice (shared vertices, vertices "
                      "on edges, coincident slanted edges); outside the property's quantifier; see the known findings of "
                      "corpus/C05/degenerate.known.ops",
        "tinygeneral": "the general-position family scaled by 2^-20 (coordinates about 1e-5): every distance is below "
                       "the clipper's ABSOLUTE epsilon 1e-5, so no margin of general position holds",
        "tinylattice": "the lattice family scaled by 2^-20 (lattice unit about 1e-6 < epsilon 1e-5)",
    }
    for area, key in (("degenerate", "observation_random_degenerate_lattice"),
                      ("tinygeneral", "observation_general_scaled_below_epsilon"),
                      ("tinylattice", "observation_lattice_scaled_below_epsilon")):
        sel = [o for o in obs if o[0] == area]
        ctx.extra[key] = {"calls": sum(o[1] for o in sel), "rejected_by_oracle": sum(o[2] for o in sel),
                          "of_which_panics": sum(o[3] for o in sel),
                          "note": notes[area] + "; not part of programs / evaluations / violations"}
    counters = {"programs": 0, "judgements": 0, "empty_results": 0, "reported": 0, "suppressed": 0}
    for S in results:
        if "failed" in S:
            ctx.violations.append({"kind": "correspondence", "concrete": False,
                                   "what": "%s (%s/%s)" % (S["failed"], S["area"], S["tag"])})
            continue
        ctx.evals += S["evals"]
        ctx.distinct |= S["distinct"]
        for k, v in S["kinds"].items():
            ctx.kinds[k] = ctx.kinds.get(k, 0) + v
        for k, v in S["tags"].items():
            ctx.tags[k] = ctx.tags.get(k, 0) + v
        if len(ctx.samples) < 12:
            ctx.samples += S["samples"][:1] if len(ctx.samples) >= 4 else S["samples"]
        counters["programs"] += S["programs"]
        counters["judgements"] += S["judgements"]
        fam = "lattice" if "lattice" in S["area"] else "general"
        counters["judgements_" + fam] = counters.get("judgements_" + fam, 0) + S["judgements"]
        if S["area"].startswith("big"):
            counters["programs_large"] = counters.get("programs_large", 0) + S["programs"]
        counters["empty_results"] += S["empty_results"]
        for k in ("unjudged", "empty_certified", "empty_judged", "empty_with_contours", "prune_calls", "prune_flagged",
                  "prune_contours", "prune_calls_with_flag", "prune_rule_agrees", "prune_rule_differs",
                  "prune_rule_not_compared", "emit_calls", "emit_units", "emit_rule_agrees", "emit_rule_differs",
                  "sbt_calls", "sbt_units", "contains_calls", "contains_units", "lmt_calls", "lmt_units"):
            counters[k] = counters.get(k, 0) + S.get(k, 0)
        _report(ctx, S, counters)
    ctx.extra["wall_harness_and_streams_s"] = round(time.time() - t1, 1)
    ctx.extra["programs"] = counters["programs"]
    ctx.extra["disagreements_checked"] = counters["judgements"]
    ctx.extra["judgements_lattice_cells_exhaustive"] = counters.get("judgements_lattice", 0)
    ctx.extra["judgements_general_sample_points"] = counters.get("judgements_general", 0)
    ctx.extra["programs_large_inputs"] = counters.get("programs_large", 0)
    ctx.extra["empty_results"] = counters["empty_results"]
    ctx.extra["calls_unjudged_not_counted"] = counters.get("unjudged", 0)
    ctx.extra["sampled_calls_with_certified_empty_region"] = counters.get("empty_certified", 0)
    ctx.extra["sampled_calls_with_judged_empty_region_noContact_containedIn"] = counters.get("empty_judged", 0)
    ctx.extra["certified_empty_results_that_had_contours"] = counters.get("empty_with_contours", 0)
    ctx.extra["pruning_step"] = {
        "calls_of_identifyNonContributingContours_accepted_by_pruneOK": counters.get("prune_calls", 0),
        "of_which_flag_at_least_one_contour": counters.get("prune_calls_with_flag", 0),
        "contours_flagged": counters.get("prune_flagged", 0), "contours_total": counters.get("prune_contours", 0),
        "flags_equal_to_the_Lean_transcription_EO_nonContributing": counters.get("prune_rule_agrees", 0),
        "flags_different_from_the_transcription(not an alarm: a more conservative box test is as correct)":
            counters.get("prune_rule_differs", 0),
        "not_compared_with_the_transcription(float arithmetic of the box not exact at that magnitude)":
            counters.get("prune_rule_not_compared", 0),
        "note": "area `prune`: the flags the real pruning step returned (overlay go/overlay/c05_prune.go) checked by "
                "EO.pruneOK (C05.prune_sound); not part of programs / disagreements_checked; `unobserved` when the "
                "overlay does not compile against the working tree: " + str(ctx.extra.get("overlay_fallback", "no fallback"))}
    ctx.extra["emission_step"] = {
        "calls_of_polygonNode_generate_with_the_region_of_the_chains(EO.sameRegionLattice)": counters.get("emit_calls", 0),
        "cells_checked": counters.get("emit_units", 0),
        "results_equal_to_the_Lean_transcription_EO_generate": counters.get("emit_rule_agrees", 0),
        "results_different_from_the_transcription(not an alarm: same region)": counters.get("emit_rule_differs", 0),
        "note": "area `emit` (overlay go/overlay/c05_emit.go): C05.emit_sound / C05.generate_region"}
    ctx.extra["scan_beam_table"] = {
        "tables_equal_to_EO_scanBeamTable": counters.get("sbt_calls", 0), "beams": counters.get("sbt_units", 0),
        "note": "area `sbt` (overlay): scanBeamTree.add + buildScanBeamTable against the Lean transcription "
                "(C05.scanBeamTable_spec: strictly ascending, exactly the ordinates added)"}
    ctx.extra["local_minima_table"] = {
        "tables_of_buildLocalMinimaTable_accepted_by_EO_lmtOK": counters.get("lmt_calls", 0),
        "edges_in_bounds": counters.get("lmt_units", 0),
        "note": "area `lmt` (overlay): the edges of all bounds are exactly the non-horizontal edges of the operand, lower "
                "end first, minima strictly ascending, scan-beam table = ordinates of the end points (C05.lmt_sound)"}
    ctx.extra["library_point_tests"] = {
        "lines": counters.get("contains_calls", 0),
        "ContainsEvenOdd_and_Contains_answers_equal_to_the_transcription": counters.get("contains_units", 0),
        "note": "area `contains`: Polygon.ContainsEvenOdd / Polygon.Contains of both operands at the N^2 cell centres "
                "(lattice lines) or at the sample points that keep the margin (general-position lines), against "
                "EO.containsEvenOdd / EO.containsAny (C05.containsEvenOdd_is_inside: = the even-odd rule off the edges)"}
    ctx.extra["violations_not_listed"] = counters["suppressed"]
    ctx.extra["known_finding_inputs_hit"] = counters.get("known", 0)
    ctx.extra["watchdog_timeouts_not_confirmed"] = counters.get("spurious_timeouts", 0)
    ctx.extra["exhaustive"] = False
    ctx.rules.append(
        "programs = clipper calls (one per op line: op, float type, A, B) executed by the real code and accepted by the "
        "Lean oracle; disagreements_checked = (call, cell) judgements of lattice calls (every cell of [0,N]^2, which by "
        "C05.validateLattice_sound decides every point of every open cell) plus (call, sample point) judgements of "
        "general-position calls (only points that pass the Lean margin test are counted); corpus lines first, then "
        "seed-derived shards (SplitMix64); non-trivial = both operands non-empty and at least one judgement; "
        "distinct = distinct op lines")
