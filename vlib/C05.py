"""C05 — polygon Boolean operations: translation validation with a proved validator.

The clipper (a float port of the GPC scan-beam algorithm) is NOT modelled.  Every individual call of the real
Union/Intersect/Sub/Xor is executed by the harness (go/cmd/c05), which appends the real result R; the Lean oracle
`drv_c05` (Model/EvenOdd.lean, exact dyadic arithmetic) then validates that call:

  lattice area  rectilinear polygons on the integer lattice of [0,N]^2, N <= 12: `EO.validateLattice` — decided
                EXHAUSTIVELY per call (Props/C05.lean `validateLattice_sound`: a `true` verdict implies the Boolean law
                at every point of every open unit cell, and nothing is inside outside the square);
  general area  polygons in general position (generator rejects the rest): `EO.validateGeneral` on 100 sample points
                per call that keep a margin of 1/64 from every edge of A, B and R — SAMPLING with a Lean oracle; the
                harness adds up to ~60 candidates taken from the RESULT itself (edge midpoints pushed to both sides,
                vertex averages) so that area only the result has is judged; about a fifth of these calls have a
                combined region that is PROVABLY empty (`EO.emptyCert`, `C05.emptyCert_sound`: separated operands for
                Intersect — by an axis-parallel line or by the line through one of their edges, i.e. also disjoint
                convex polygons with OVERLAPPING boxes, where the sweep decides —, identical operands for Sub/Xor, a
                covering rectangle for Sub, an operand without edges) and for them the result must be empty
                (`EO.validateGeneral`); another share is disjoint / nested with overlapping boxes in ways only the exact
                general judgement `EO.noContact` / `EO.containedIn` recognises (interleaved combs, a triangle in the
                notch of an L, a polygon in the hole of a ring, a polygon inside another one for Sub): the result must be
                empty too, but the soundness of that judgement is stated, not proved; three quarters of the remaining
                pairs have crossing boundaries; a call with no judged point is `unjudged`
                and is not counted as validated;
  biglattice /  LARGE inputs (a few dozen calls per quick run): 66-110 lattice rows / columns listed in descending,
  biggeneral    ascending or shuffled order, staircases and combs with 66-150 steps on [0,N]^2, N = 72..150 (exhaustive
                cell check, N^2 cells per call); 100-400-gons (regular, perturbed, elliptic, rings), the polygons
                poly.FromEllipse / poly.FromRect themselves produce, against each other and against small polygons, in
                general position (margins 1/2), 100 sample points per call, Lean margin 1/8;
  chain         3-5 calls per line on lattice polygons: operands are initial polygons or the polygons RETURNED by earlier
                calls (reused as returned), the same entry on both sides, Polygon.Clone() of an entry, empty results fed
                back in; after every call the whole pool is compared with a snapshot and the result is overwritten to
                detect shared memory; every step is validated by `validateLattice` on the exact returned values;
  corpus        corpus/C05/*.ops (fixed enumerated degenerate inputs and boundary cases), both modes;
                corpus/C05/degenerate.known.ops are the KNOWN FINDINGS on degenerate lattice inputs (panics, wrong
                regions): each must be matched by an entry of known_findings.json (KNOWN-FINDING, exit 0), every other
                rejected call is a VIOLATION.  A random degenerate-lattice stream is run as an observation only.

Anything but `valid <judgements>` (invalid <witness>, operands-modified, empty-mismatch, panic, timeout, crash) is a
violation.  Every call runs under a 2 s watchdog inside the harness (a looping clipper costs seconds: the harness exits
with status 124, the rest of that stream is skipped; the first such line is re-run alone with an 8 s limit before it is
reported, so a stall of an overloaded machine is not mistaken for a loop).
"""
import hashlib
import json
import os
import subprocess
import time
from concurrent.futures import ThreadPoolExecutor

DRIVER = "drv_c05"
N_CALLS = {
    "lattice": {"quick": 60000, "thorough": 2400000},
    "general": {"quick": 9000, "thorough": 240000},
    # LARGE inputs (deep scan-beam tree / long active edge table); each call costs 0.1-1.5 s of oracle time
    "biglattice": {"quick": 64, "thorough": 3200},
    "biggeneral": {"quick": 48, "thorough": 4000},
    # chains of 3-5 calls that reuse results (and clones, the same entry twice, empty results) as operands; lattice
    "chain": {"quick": 8000, "thorough": 400000},
}


def _validate(ctx, area, lines, extra_env=None):
    """-> list of (line, impl_out, verdict)"""
    io = ctx.run_impl(area, lines, timeout=300 if ctx.tier == "quick" else 1800, extra_env=extra_env)
    if io is None:
        return None
    joined = [l + " => " + o for l, o in zip(lines, io)]
    mo = ctx.run_model(DRIVER, joined, timeout=3600)
    if mo is None:
        return [(l, o, None) for l, o in zip(lines, io)]
    return list(zip(lines, io, mo))


def _operands_nonempty(line):
    # "... A <nc> ... B <nc> ..."
    w = line.split()
    if w and w[0] == "chain":
        return True
    try:
        return w[w.index("A") + 1] not in ("0", "nil") and w[w.index("B") + 1] not in ("0", "nil")
    except (ValueError, IndexError):
        return False


def _summarise(area, tag, triples):
    """Runs inside the worker: reduce one stream to counters, keeping only what the report needs."""
    S = {"area": area, "tag": tag, "evals": 0, "programs": 0, "judgements": 0, "empty_results": 0, "kinds": {},
         "tags": {}, "distinct": set(), "samples": [], "bad": [], "bad_count": 0, "malformed": None}
    for k, (line, out, verdict) in enumerate(triples):
        S["evals"] += 1
        w = line.split(" ", 3)
        kind = "%s:%s:%s" % (area, w[0], w[1] if len(w) > 1 else "?")
        S["kinds"][kind] = S["kinds"].get(kind, 0) + 1
        if out == "skipped-after-crash":
            continue
        if verdict is not None and verdict.startswith("unjudged"):
            S["unjudged"] = S.get("unjudged", 0) + 1  # executed, but nothing was judged: never counted as validated
            continue
        if verdict is not None and verdict.startswith("valid "):
            j = int(verdict.split()[1])
            if verdict.endswith("empty-judged"):
                S["empty_judged"] = S.get("empty_judged", 0) + 1
                if out.split(" X ")[0] != "R 0":
                    S["empty_with_contours"] = S.get("empty_with_contours", 0) + 1
            if verdict.endswith("empty-certified"):
                S["empty_certified"] = S.get("empty_certified", 0) + 1
                if out.split(" X ")[0] != "R 0":
                    S["empty_with_contours"] = S.get("empty_with_contours", 0) + 1
            S["programs"] += line.count(" S ") if area == "chain" else 1  # a chain line is several clipper calls
            S["judgements"] += j
            if out.split(" X ")[0] == "R 0":
                S["empty_results"] += 1
            if j > 0 and _operands_nonempty(line):
                S["distinct"].add(int.from_bytes(hashlib.md5((area + "|" + line).encode()).digest()[:8], "big"))
            t = "result-contours=%s" % (out.split()[1] if out.startswith("R ") and len(out.split()) > 1 else "?")
            S["tags"][t] = S["tags"].get(t, 0) + 1
            if len(S["samples"]) < 2 and k % 1499 == 7:
                S["samples"].append({"area": area, "call": line[:400], "result": out[:300], "oracle": verdict})
            continue
        if verdict == "bad-op" and out == "bad-op":
            S["malformed"] = line[:120]
            continue
        S["bad_count"] += 1
        if len(S["bad"]) < (50 if area == "degenerate" else 2):
            S["bad"].append((line, out, verdict))
    return S


def _report(ctx, S, counters):
    area, tag = S["area"], S["tag"]
    if S["malformed"]:
        ctx.violations.append({"kind": "harness", "concrete": False,
                               "what": "malformed operation line in %s/%s: %s" % (area, tag, S["malformed"])})
    counters["suppressed"] += S["bad_count"] - len(S["bad"])
    for line, out, verdict in S["bad"]:
        known = ctx._known_match(area, line, [line])
        if known:
            ctx.known_hits.append(known)
            counters["known"] = counters.get("known", 0) + 1
            continue
        if counters["reported"] >= 4:
            counters["suppressed"] += 1
            continue
        if out.startswith("crash:exit124"):
            # the 2 s watchdog fired: confirm alone with an 8 s limit before calling it a loop (machine stalls)
            if counters.get("timeout_confirmations", 0) >= 1:
                counters["suppressed"] += 1
                continue
            counters["timeout_confirmations"] = 1
            env = dict(os.environ)
            env["C05_CALL_TIMEOUT_MS"] = "8000"
            try:
                p = subprocess.run([ctx.harness_bin["harness"], "run", area], input=line + "\n", env=env, text=True,
                                   stdout=subprocess.PIPE, stderr=subprocess.PIPE, timeout=60, cwd=ctx.work)
                rc = p.returncode
            except subprocess.TimeoutExpired:
                rc = 124
            if rc == 0:
                counters["spurious_timeouts"] = counters.get("spurious_timeouts", 0) + 1
                continue
            out, verdict = "timeout", "invalid impl:timeout (call did not return within 8 s)"
        counters["reported"] += 1
        rep = {"property": "C05", "kind": "translation-validation", "area": area, "stream": tag, "driver": DRIVER,
               "harness": "harness", "ops": [line], "impl_outputs": [out], "model_outputs": [verdict],
               "contradicts": "C05.validateLattice_sound / C05.validatePoints_sound: the oracle rejects the result "
                              "of this call (or the call panicked / modified an operand)",
               "concrete_failing_input": True}
        path = ctx._write_replay(rep)
        ctx.violations.append({"kind": "translation-validation", "replay": path, "concrete": True,
                               "what": "%s: clipper result rejected: %s  (impl output %s) on `%s`" % (
                                   area, verdict, out[:100], line[:200])})


def _replay(ctx):
    rep = json.load(open(ctx.replay))
    area = rep.get("area", "lattice")
    triples = _validate(ctx, area, rep["ops"]) or []
    ctx.evals += len(triples)
    ctx.samples.append({"replayed": [o[:300] for o in rep["ops"][:3]]})
    bad = [(l, o, v) for l, o, v in triples if not (v or "").startswith("valid ")]
    if bad:
        l, o, v = bad[0]
        print("replay: still failing: oracle=%s impl=%s" % (v, o[:200]))
        ctx.violations.append({"kind": "translation-validation", "what": "replay still fails", "replay": ctx.replay,
                               "concrete": True})
    else:
        print("replay: the oracle accepts every call of the replay")
    ctx.extra["programs"] = len(triples)
    ctx.extra["disagreements_checked"] = sum(int(v.split()[1]) for _, _, v in triples if (v or "").startswith("valid "))


def run(ctx):
    ctx.level = "translation_validation"
    ctx.modelled += [
        "the clipper itself is not modelled: each call is validated by the Lean even-odd oracle drv_c05 "
        "(EO.validateLattice / EO.validatePoints, exact dyadic arithmetic); the theorems of Props/C05.lean are about "
        "that oracle",
        "harness go/cmd/c05: operand parsing (exactness of every number is checked), bit-exact printing of the "
        "result, operand deep comparison, Polygon.Empty cross-check",
    ]
    ctx.assumptions += [
        "nothing universal is claimed about the clipper: the claim is per validated call",
        "general-position calls are judged on sample points only (100 candidates per call plus up to ~60 taken from "
        "the result, margin 1/64 - for a third of the float64 calls 1/1024 - from every "
        "edge of A, B and R); lattice calls are decided at every point of every open unit cell, points on lattice "
        "lines are not judged",
    ]
    t0 = time.time()
    ctx.lean(props=["Props.C05"], drivers=[DRIVER])
    # the Lean phase waits on the lock shared by ALL checks (.work/lean.lock): its wall time is not this check's cost
    ctx.extra["wall_lean_phase_incl_shared_lock_wait_s"] = round(time.time() - t0, 1)
    t1 = time.time()
    if not ctx.harness("./cmd/c05"):
        return
    if ctx.replay:
        return _replay(ctx)

    if ctx.tier == "quick":
        shards = {"lattice": 8, "general": 24, "biglattice": 8, "biggeneral": 8, "chain": 4}
    else:
        shards = {"lattice": 32, "general": 96, "biglattice": 32, "biggeneral": 32, "chain": 32}
    jobs = []
    chunk = {"biglattice": 1, "biggeneral": 2}  # the large corpus calls cost about a second of oracle time each
    for area in ("biglattice", "biggeneral", "lattice", "general", "chain", "degenerate"):
        c = ctx.corpus(area)
        n = chunk.get(area, 100)  # chunks: the degenerate corpus lines carry many sample points
        for k in range(0, len(c), n):
            jobs.append((area, "corpus%d" % (k // n), c[k:k + n], None, 0))
    for area in ("biglattice", "biggeneral", "general", "lattice", "chain"):  # long jobs first
        per = max(1, N_CALLS[area][ctx.tier] // shards[area])
        for i in range(shards[area]):
            jobs.append((area, "seed%d" % (ctx.seed * 1000003 + i), None, ctx.seed * 1000003 + i, per))

    # observation only (OUTSIDE the judged domain and outside every count): random degenerate lattice inputs, and the
    # regular families scaled by 2^-20 (all distances below the clipper's absolute epsilon of 1e-5)
    q = ctx.tier == "quick"
    obs_jobs = []
    for area, total, parts in (("degenerate", 1200 if q else 12000, 6), ("tinygeneral", 300 if q else 3000, 3),
                               ("tinylattice", 1500 if q else 15000, 1)):
        for i in range(parts):
            obs_jobs.append((area, "observe%d" % i, None, ctx.seed * 1000003 + 500 + i, total // parts))

    def observe(job):
        area, tag, _, seed, per = job
        lines = ctx.gen(area, seed, per)
        triples = _validate(ctx, area, lines) or []
        rej = [(l, o, v) for l, o, v in triples if not (v or "").startswith("valid ")]
        return (area, len(triples), len(rej), sum(1 for _, o, _ in rej if o == "panic"))

    def work(job):
        area, tag, lines, seed, per = job
        if lines is None:
            lines = ctx.gen(area, seed, per)
        triples = _validate(ctx, area, lines)
        if triples is None:
            return {"area": area, "tag": tag, "failed": "harness could not run the stream"}
        if any(v is None for _, _, v in triples):
            return {"area": area, "tag": tag, "failed": "oracle driver %s failed on the stream" % DRIVER}
        return _summarise(area, tag, triples)

    with ThreadPoolExecutor(max_workers=16) as ex:
        obs_f = [ex.submit(observe, j) for j in obs_jobs]
        results = list(ex.map(work, jobs))
        obs = [f.result() for f in obs_f]
    notes = {
        "degenerate": "random NON-rectilinear polygons with vertices on a small integer lattice (shared vertices, vertices "
                      "on edges, coincident slanted edges); outside the property's quantifier; see the known findings of "
                      "corpus/C05/degenerate.known.ops",
        "tinygeneral": "the general-position family scaled by 2^-20 (coordinates about 1e-5): every distance is below "
                       "the clipper's ABSOLUTE epsilon 1e-5, so no margin of general position holds",
        "tinylattice": "the lattice family scaled by 2^-20 (lattice unit about 1e-6 < epsilon 1e-5)",
    }
    for area, key in (("degenerate", "observation_random_degenerate_lattice"),
                      ("tinygeneral", "observation_general_scaled_below_epsilon"),
                      ("tinylattice", "observation_lattice_scaled_below_epsilon")):
        sel = [o for o in obs if o[0] == area]
        ctx.extra[key] = {"calls": sum(o[1] for o in sel), "rejected_by_oracle": sum(o[2] for o in sel),
                          "of_which_panics": sum(o[3] for o in sel),
                          "note": notes[area] + "; not part of programs / evaluations / violations"}
    counters = {"programs": 0, "judgements": 0, "empty_results": 0, "reported": 0, "suppressed": 0}
    for S in results:
        if "failed" in S:
            ctx.violations.append({"kind": "correspondence", "concrete": False,
                                   "what": "%s (%s/%s)" % (S["failed"], S["area"], S["tag"])})
            continue
        ctx.evals += S["evals"]
        ctx.distinct |= S["distinct"]
        for k, v in S["kinds"].items():
            ctx.kinds[k] = ctx.kinds.get(k, 0) + v
        for k, v in S["tags"].items():
            ctx.tags[k] = ctx.tags.get(k, 0) + v
        if len(ctx.samples) < 12:
            ctx.samples += S["samples"][:1] if len(ctx.samples) >= 4 else S["samples"]
        counters["programs"] += S["programs"]
        counters["judgements"] += S["judgements"]
        fam = "lattice" if "lattice" in S["area"] else "general"
        counters["judgements_" + fam] = counters.get("judgements_" + fam, 0) + S["judgements"]
        if S["area"].startswith("big"):
            counters["programs_large"] = counters.get("programs_large", 0) + S["programs"]
        counters["empty_results"] += S["empty_results"]
        for k in ("unjudged", "empty_certified", "empty_judged", "empty_with_contours"):
            counters[k] = counters.get(k, 0) + S.get(k, 0)
        _report(ctx, S, counters)
    ctx.extra["wall_harness_and_streams_s"] = round(time.time() - t1, 1)
    ctx.extra["programs"] = counters["programs"]
    ctx.extra["disagreements_checked"] = counters["judgements"]
    ctx.extra["judgements_lattice_cells_exhaustive"] = counters.get("judgements_lattice", 0)
    ctx.extra["judgements_general_sample_points"] = counters.get("judgements_general", 0)
    ctx.extra["programs_large_inputs"] = counters.get("programs_large", 0)
    ctx.extra["empty_results"] = counters["empty_results"]
    ctx.extra["calls_unjudged_not_counted"] = counters.get("unjudged", 0)
    ctx.extra["sampled_calls_with_certified_empty_region"] = counters.get("empty_certified", 0)
    ctx.extra["sampled_calls_with_judged_empty_region_noContact_containedIn"] = counters.get("empty_judged", 0)
    ctx.extra["certified_empty_results_that_had_contours"] = counters.get("empty_with_contours", 0)
    ctx.extra["violations_not_listed"] = counters["suppressed"]
    ctx.extra["known_finding_inputs_hit"] = counters.get("known", 0)
    ctx.extra["watchdog_timeouts_not_confirmed"] = counters.get("spurious_timeouts", 0)
    ctx.extra["exhaustive"] = False
    ctx.rules.append(
        "programs = clipper calls (one per op line: op, float type, A, B) executed by the real code and accepted by the "
        "Lean oracle; disagreements_checked = (call, cell) judgements of lattice calls (every cell of [0,N]^2, which by "
        "C05.validateLattice_sound decides every point of every open cell) plus (call, sample point) judgements of "
        "general-position calls (only points that pass the Lean margin test are counted); corpus lines first, then "
        "seed-derived shards (SplitMix64); non-trivial = both operands non-empty and at least one judgement; "
        "distinct = distinct op lines")
