"""C20 — natural ordering: Lean model `NatSort.naturalCmp` (Model/NatSort.lean), theorems Props/C20.lean."""
import re

_RUN20 = re.compile(rb"[1-9][0-9]{19,}")
_TAILRUN = re.compile(rb"[0-9]+$")
_SEP = re.compile(rb"[0-9][:/]")


def _unhex(h):
    return b"" if h == "-" else bytes.fromhex(h)


def region(line, out):
    """Tag a case with the input region it exercises (the regions in which independently written regressions hid);
    the histogram of one run is in the evidence (tag_histogram), so a generator change that thins a region is visible."""
    f = line.split()
    if not f:
        return None
    if f[0] in ("sorta", "sortd"):
        k = len(f) - 1
        if k <= 16:
            return "sort:<=16"
        tag = "sort:17-70" if k <= 70 else "sort:71-999" if k < 1000 else "sort:>=1000"
        if any(int(w[i:i + 2], 16) >= 0x80 for w in f[1:] if w != "-" for i in range(0, len(w), 2)):
            tag += "+non-ascii"
        return tag
    if len(f) != 4 or f[0] not in ("cmp", "less"):
        return None
    a, b = _unhex(f[2]), _unhex(f[3])
    if a == b:
        return "identical"
    if max(len(a), len(b)) >= 1000:
        return "long:>=1000-bytes"
    la, lb = a.lower(), b.lower()
    if la == lb:
        d = {x < y for x, y in zip(a, b) if x != y}
        return "case-only:opposite-directions" if len(d) == 2 else "case-only:one-direction"
    if lb.startswith(la) or la.startswith(lb):
        n = min(len(a), len(b))
        return "prefix-after-folding:case-differs-in-shared-part" if a[:n] != b[:n] else "proper-prefix"
    n = 0
    while n < len(a) and n < len(b) and a[n] == b[n]:
        n += 1
    if n < len(a) and n < len(b) and 48 <= a[n] <= 57 and 48 <= b[n] <= 57 and (a[n] == 48 or b[n] == 48):
        m = _TAILRUN.search(a[:n])
        if m and m.group().strip(b"0"):
            return "common-prefix-ends-inside-number:zero-continues"
    for m in _RUN20.finditer(a + b" " + b):
        if int(m.group()) >= 1 << 64:
            return "number>=2^64"
    if _SEP.search(a) or _SEP.search(b):
        return "colon-or-slash-after-digit"
    return "other"


def run(ctx):
    ctx.modelled += ["slices.SortFunc is modelled by a merge sort; Props.C20.sorted_perm_unique shows every correct "
                     "sort returns the same list, so the comparison of sorted outputs is exact",
                     "the sort functions are handed a sub-slice of a larger array (0-2 elements in front, 0-3 spare "
                     "capacity behind); the harness reports any write outside in[0:len] (the model has no notion of capacity)",
                     "every library call runs under a 3 s deadline in the harness (`hang`), panics become `panic`, a fatal "
                     "stack overflow ends the process within milliseconds (reduced maximal stack)"]
    ctx.lean(props=["Props.C20"], drivers=["drv_c20"])
    ctx.harness("./cmd/c20")
    ctx.diff(area="natsort", driver="drv_c20", n={"quick": 150000, "thorough": 6000000},
             trivial=lambda l, o: False, tagger=region,
             theorem="C20.cmp_antisymm / cmp_trans / cmp_zero_iff / cmp_key / digits_numeric / digit_before_nondigit / "
                     "proper_prefix_first / bytes_bytewise(_ci) / sortAsc_sorted (model = spec); "
                     "impl != model on this input")
