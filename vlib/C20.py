"""C20 — natural ordering: Lean model `NatSort.naturalCmp` (Model/NatSort.lean), theorems Props/C20.lean."""


def run(ctx):
    ctx.modelled += ["slices.SortFunc is modelled by a merge sort; Props.C20.sorted_perm_unique shows every correct "
                     "sort returns the same list, so the comparison of sorted outputs is exact"]
    ctx.lean(props=["Props.C20"], drivers=["drv_c20"])
    ctx.harness("./cmd/c20")
    ctx.diff(area="natsort", driver="drv_c20", n={"quick": 150000, "thorough": 6000000},
             trivial=lambda l, o: False,
             theorem="C20.cmp_antisymm / cmp_trans / cmp_zero_iff / cmp_key / digits_numeric / digit_before_nondigit / "
                     "proper_prefix_first / bytes_bytewise(_ci) / sortAsc_sorted (model = spec); "
                     "impl != model on this input")
