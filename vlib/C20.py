"""C20 — natural ordering: Lean model `NatSort.naturalCmp` (Model/NatSort.lean), theorems Props/C20.lean."""
import hashlib
import os
import re

# sha1 of txt/natural_sort.go without comments and white space, at the time Model/NatSortGo.lean was transcribed from it
# statement for statement (the duplicated zero-skipping loop included)
TRANSCRIBED_FROM = "bb5a11ce0855ffd03d9a4aaceeda1b39c1fcf9b9"

_RUN20 = re.compile(rb"[1-9][0-9]{19,}")
_TAILRUN = re.compile(rb"[0-9]+$")
_SEP = re.compile(rb"[0-9][:/]")


def _unhex(h):
    return b"" if h == "-" else bytes.fromhex(h)


def region(line, out):
    """Tag a case with the input region it exercises (the regions in which independently written regressions hid);
    the histogram of one run is in the evidence (tag_histogram), so a generator change that thins a region is visible."""
    f = line.split()
    if not f:
        return None
    if f[0] in ("sorta", "sortd"):
        k = len(f) - 1
        if k <= 16:
            return "sort:<=16"
        tag = "sort:17-70" if k <= 70 else "sort:71-999" if k < 1000 else "sort:>=1000"
        if any(int(w[i:i + 2], 16) >= 0x80 for w in f[1:] if w != "-" for i in range(0, len(w), 2)):
            tag += "+non-ascii"
        return tag
    if len(f) != 4 or f[0] not in ("cmp", "less"):
        return None
    a, b = _unhex(f[2]), _unhex(f[3])
    if a == b:
        return "identical"
    if max(len(a), len(b)) >= 1000:
        return "long:>=1000-bytes"
    la, lb = a.lower(), b.lower()
    if la == lb:
        d = {x < y for x, y in zip(a, b) if x != y}
        return "case-only:opposite-directions" if len(d) == 2 else "case-only:one-direction"
    if lb.startswith(la) or la.startswith(lb):
        n = min(len(a), len(b))
        return "prefix-after-folding:case-differs-in-shared-part" if a[:n] != b[:n] else "proper-prefix"
    n = 0
    while n < len(a) and n < len(b) and a[n] == b[n]:
        n += 1
    if n < len(a) and n < len(b) and 48 <= a[n] <= 57 and 48 <= b[n] <= 57 and (a[n] == 48 or b[n] == 48):
        m = _TAILRUN.search(a[:n])
        if m and m.group().strip(b"0"):
            return "common-prefix-ends-inside-number:zero-continues"
    for m in _RUN20.finditer(a + b" " + b):
        if int(m.group()) >= 1 << 64:
            return "number>=2^64"
    if _SEP.search(a) or _SEP.search(b):
        return "colon-or-slash-after-digit"
    return "other"


def source_fingerprint(repo):
    try:
        src = open(os.path.join(repo, "txt", "natural_sort.go"), errors="replace").read()
    except OSError:
        return None
    src = re.sub(r"//[^\n]*", "", src)
    return hashlib.sha1(re.sub(r"\s+", "", src).encode()).hexdigest()


def run(ctx):
    fp = source_fingerprint(ctx.repo)
    ctx.extra["source_fingerprint"] = {"txt/natural_sort.go (comments and blanks removed) sha1": fp,
                                       "is_the_text_NatSortGo_was_transcribed_from": fp == TRANSCRIBED_FROM}
    if fp != TRANSCRIBED_FROM:
        # not a violation (a behaviour-preserving rewrite is allowed); it says which claim still stands on this tree
        ctx.assumptions.append("txt/natural_sort.go is not the text Model/NatSortGo.lean was transcribed from: "
                               "C20.go_transcription_refines speaks about the earlier text; on this tree the tie "
                               "between code and model is the correspondence run alone")
    ctx.modelled += ["slices.SortFunc is modelled by a merge sort; Props.C20.sorted_perm_unique shows every correct "
                     "sort returns the same list, so the comparison of sorted outputs is exact",
                     "the sort functions are handed a sub-slice of a larger array (0-2 elements in front, 0-3 spare "
                     "capacity behind); the harness reports any write outside in[0:len] (the model has no notion of capacity)",
                     "every library call runs under a 3 s deadline in the harness (`hang`), panics become `panic`, a fatal "
                     "stack overflow ends the process within milliseconds (reduced maximal stack)"]
    ctx.lean(props=["Props.C20"], drivers=["drv_c20"])
    # Loop-level translator tie (added in the extension session): txt.NaturalCmp / NaturalLess regenerated from the typed SSA of the working tree (six loops and the recursive call as fuel recursions) and proved EQUAL to Model/NatSortGo.goCmp and NatSort.naturalCmp (Props/C20Gen.lean).
    # ADVISORY: it is run, audited and recorded on every run (coverage.txt_advisory; on the unchanged tree it shows that
    # the model functions ARE the code), but a broken tie alone raises no alarm - a structural tie of a function with
    # loops also breaks under a behaviour-preserving restructuring of those loops (all four C20 controls and three of
    # the C08 controls do that); the correspondence streams below decide.
    from vlib import gentie
    gentie.run(ctx, target="txt", generated="SSA_Txt.lean", module="Props.C20Gen", key="txt", namespace="C20Gen", advisory=True)
    ctx.harness("./cmd/c20")
    ctx.diff(area="natsort", driver="drv_c20", n={"quick": 150000, "thorough": 6000000},
             trivial=lambda l, o: False, tagger=region,
             theorem="C20.cmp_antisymm / cmp_trans / cmp_zero_iff / cmp_key / digits_numeric / digit_before_nondigit / "
                     "proper_prefix_first / bytes_bytewise(_ci) / sortAsc_sorted (model = spec); "
                     "impl != model on this input")
    # `rows`: one line = 256 comparisons (p+c1+sa against p+c2+sb for every byte c2). The first 8192 lines are an
    # exhaustive block that does not depend on the seed: 16 fixed contexts x both modes x all 256 x 256 byte pairs,
    # so every byte constant of the source ('0' '9' 'a' 'z' 'A' and their neighbours) is hit from both sides in every
    # run; the rest are rows in random contexts. One shard, so that the block is emitted exactly once.
    ctx.diff(area="rows", driver="drv_c20", n={"quick": 12800, "thorough": 100000}, shards=1,
             trivial=lambda l, o: False, tagger=lambda l, o: "row:256-comparisons",
             theorem="C20.go_transcription_refines / cmp_key / fold_exact / nonascii_byte (model = spec); "
                     "impl != model for some byte c2 of this row (position of the first differing character)")
    rows = ctx.kinds.get("rows:row", 0)
    ctx.extra["row_comparisons"] = rows * 256
    ctx.evals += rows * 255  # a row line is 256 evaluations of NaturalCmp/NaturalLess, counted once by diff()
