"""Translator tie (second kind of tie between the Lean theorems and the Go code), shared helper.

`gossa/ssagen <repo> <out.lean> <target>` regenerates Lean definitions (namespace `Gen`) from the typed SSA form of the
Go source of the repository's working tree; a property module (`Props/CxxGen.lean`) proves that every regenerated
definition is the function of the hand-written model that the theorems of `Props/Cxx.lean` are about.

`run(ctx, ...)` — called by a check AFTER its own `ctx.lean(...)` — does, under a lock of its own (one run at a time
regenerates the shared file and builds against it; the lock order is always <tie>.lock, then core's lean.lock):
  1. delete and regenerate the generated file from `ctx.repo`;
  2. build the tie module separately (so that a proof that fails against the regenerated definitions cannot hide the audit
     of the main property module) with a wall-clock limit (`omega` can search for minutes on a goal that is no longer
     provable), and name the theorems whose proof failed;
  3. audit (`#print axioms`) every theorem of the tie module whose subject was translated in this run — a theorem is
     written `when_translated Gen.X in theorem …`; when a change of the Go code moves X outside the translated fragment
     (an implementation through math/big, say) the theorem is not elaborated: that is recorded as reduced coverage
     (`<key>_tie_unavailable`) and printed as a NOTE, it is not a broken proof — the differential run still covers X;
  4. restore the tracked generated file from /repo after a run against another working tree (VERIF_REPO).

Floor (the guarded theorems must not be able to vanish silently): lean/Generated/expected_<target>.txt is the committed
list of the functions that ARE translated on the reference tree.  It is produced by hand with
    python3 -m vlib.gentie --update-expected [target ...]
never at check time.  At check time every expected function that is not translated is reported: when the function still
exists in the Go source (ssagen lists it as outside the fragment, with the reason) the tie is LOST — a lean problem
"translator tie lost for …", i.e. a proof obligation that no longer checks (VIOLATION … no-failing-input-found unless the
differential run supplies a concrete input), exactly like a broken proof, also when the rewrite is harmless; only a
function that no longer exists at all (renamed / removed) is a NOTE.  A missing expected file is itself a problem.
"""
import fcntl
import hashlib
import json
import os
import re
import signal
import subprocess

from vlib import core

GOSSA = os.path.join(core.VERIF, "gossa")


def _ssagen(repo, out_path, target):
    if os.path.exists(out_path):
        os.remove(out_path)
    rc, out = core.sh(["go", "run", ".", repo, out_path, target], cwd=GOSSA, env=core.env_go(), timeout=600)
    if rc != 0 or not os.path.exists(out_path):
        return None, out
    try:
        return json.loads(out.strip().splitlines()[-1]), out
    except Exception:
        return None, out


def expected_path(target):
    return os.path.join(core.LEAN, "Generated", "expected_%s.txt" % target)


def read_expected(target):
    p = expected_path(target)
    if not os.path.exists(p):
        return None
    return [l.strip() for l in open(p) if l.strip() and not l.startswith("#")]


def update_expected(targets, repo="/repo"):
    """By hand only: record which functions the translator covers on the reference tree."""
    import tempfile
    for t in targets:
        with tempfile.TemporaryDirectory() as d:
            info, out = _ssagen(repo, os.path.join(d, "out.lean"), t)
        if info is None:
            raise SystemExit("ssagen failed for target %s: %s" % (t, out[-400:]))
        with open(expected_path(t), "w") as f:
            f.write("# functions that gossa/ssagen translates (target %s) on the reference tree; written by\n"
                    "# `python3 -m vlib.gentie --update-expected %s`, never at check time (see vlib/gentie.py)\n" % (t, t))
            # a translated function without a tie theorem (written to the _untied file) has nothing to lose
            names = [n for n in (info["translated"] or []) if n not in (info.get("untied") or [])]
            for n in names:
                f.write(n + "\n")
        print("%s: %d functions expected" % (expected_path(t), len(names)))


def _guards(path):
    """theorem name (unqualified) -> Lean name of the generated definition that guards it (or None)"""
    res, pending = {}, None
    for line in open(path):
        m = re.match(r"^when_translated\s+(\S+)\s+in\s*$", line)
        if m:
            pending = m.group(1)
            continue
        m = re.match(r"^(?:@\[[^\]]*\]\s*)?(?:protected\s+|private\s+)?theorem\s+(\S+)", line)
        if m:
            res[m.group(1)] = pending
            pending = None
    return res


def _failed_names(path, errs):
    lines = set()
    base = os.path.basename(path)
    for p in errs:
        for m in re.finditer(re.escape(base) + r":(\d+):", p):
            lines.add(int(m.group(1)))
    src = open(path).read().split("\n")
    names = []
    for ln in sorted(lines):
        k = min(ln, len(src)) - 1
        # an error may be reported at the `when_translated … in` line (or the doc comment) that precedes its theorem
        j = k
        while j < len(src) and (re.match(r"^when_translated\s", src[j]) or src[j].startswith("/--") or
                                (j > 0 and not re.match(r"^((?:@\[[^\]]*\]\s*)?theorem|when_translated)\s", src[j]) and
                                 any(src[i].startswith("/--") and "-/" not in "".join(src[i:j]) for i in range(max(0, j - 6), j)))):
            j += 1
        if j != k and j < len(src) and re.match(r"^(?:@\[[^\]]*\]\s*)?theorem\s+(\S+)", src[j]):
            k = j
        while k >= 0 and not re.match(r"^(?:@\[[^\]]*\]\s*)?theorem\s+(\S+)", src[k]):
            k -= 1
        if k >= 0:
            n = re.match(r"^(?:@\[[^\]]*\]\s*)?theorem\s+(\S+)", src[k]).group(1)
            if n not in names:
                names.append(n)
    return names


def run(ctx, target, generated, module, key, namespace, limit_quick=180, limit_thorough=900, deps=(), advisory=False):
    """target: ssagen target; generated: file name under lean/Generated; module: e.g. "Props.C03Gen"; key: prefix of the
    evidence entries; namespace: namespace of the theorems in the module; deps: generated files of OTHER targets that the
    module imports, as (target, file name, lock file name) — they are regenerated from the same working tree first, each
    under the lock of the check that owns it (lock order: this tie's lock, then the locks of deps in the given order, then
    core's lean.lock; the owning checks take only their own lock and lean.lock, so the order is acyclic)."""
    if advisory:
        # the tie is run and recorded (coverage.<key>_advisory, NOTE lines) but decides nothing: a structural tie of a
        # function with loops also breaks under a behaviour-preserving restructuring of the loops
        shadow = _Standalone(ctx.repo, ctx.tier)
        run(shadow, target, generated, module, key, namespace, limit_quick, limit_thorough, deps, advisory=False)
        bad = [t["name"] for t in shadow.theorems if not t["ok"]]
        ctx.extra.update(shadow.extra)
        ctx.extra[key + "_advisory"] = {"theorems": len(shadow.theorems), "not_discharged": bad,
                                        "problems": [p[:400] for p in shadow.lean_problems]}
        ctx.rules.extend(shadow.rules)
        ctx.checker_cmds.extend(shadow.checker_cmds)
        for pr in shadow.lean_problems:
            print("NOTE (translator tie %s, advisory): %s" % (target, pr[:400]))
        return
    out_path = os.path.join(core.LEAN, "Generated", generated)
    props_path = os.path.join(core.LEAN, module.replace(".", "/") + ".lean")
    os.makedirs(os.path.join(core.VERIF, ".work"), exist_ok=True)
    with open(os.path.join(core.VERIF, ".work", key + "gen.lock"), "w") as lk:
        fcntl.flock(lk, fcntl.LOCK_EX)
        held = []
        try:
            for dt, dfile, dlock in deps:
                f = open(os.path.join(core.VERIF, ".work", dlock), "w")
                fcntl.flock(f, fcntl.LOCK_EX)
                held.append(f)
                dinfo, dout = _ssagen(ctx.repo, os.path.join(core.LEAN, "Generated", dfile), dt)
                if dinfo is None:
                    ctx.lean_problems.append("ssagen could not translate the working tree (target %s): %s" % (dt, dout[-300:]))
            _run_locked(ctx, target, out_path, props_path, module, key, namespace,
                        limit_quick if ctx.tier == "quick" else limit_thorough)
        finally:
            if ctx.repo != "/repo" and os.path.isdir("/repo/xmath"):
                # leave the tracked files as generated from the reference tree (they are committed, like Generated/Facts.lean)
                _ssagen("/repo", out_path, target)
                for dt, dfile, dlock in deps:
                    _ssagen("/repo", os.path.join(core.LEAN, "Generated", dfile), dt)
            for f in held:
                f.close()


def _register_all(ctx, props_path, namespace, guards, lean_names):
    for n, gname in guards.items():
        if gname is None or gname.split(".")[-1] in lean_names:
            ctx.theorems.append({"name": namespace + "." + n, "axioms": None, "ok": False})


def _run_locked(ctx, target, out_path, props_path, module, key, namespace, limit):
    ctx.checker_cmds.append("cd gossa && go run . <repo> ../lean/Generated/%s %s   (regenerate the Lean definitions from "
                            "the Go source)" % (os.path.basename(out_path), target))
    guards = _guards(props_path)
    info, out = _ssagen(ctx.repo, out_path, target)
    if info is None:
        ctx.lean_problems.append("ssagen could not translate the working tree (target %s): %s" % (target, out[-400:]))
        _register_all(ctx, props_path, namespace, guards, set(g.split(".")[-1] for g in guards.values() if g))
        return
    for k in ("lean", "translated", "skipped", "partial", "untied"):
        info[k] = info.get(k) or []          # Go marshals an empty list as null
    lean_names = set(info["lean"])
    # ---- floor: every function that is translated on the reference tree must still be translated
    expected = read_expected(target)
    if expected is None:
        ctx.lean_problems.append("translator tie: %s is missing (run `python3 -m vlib.gentie --update-expected %s` on the "
                                 "reference tree and commit it)" % (os.path.relpath(expected_path(target), core.VERIF), target))
    else:
        reasons = {k["name"]: k["reason"] for k in info["skipped"]}
        lost = [n for n in expected if n not in info["translated"] and n in reasons]
        gone = [n for n in expected if n not in info["translated"] and n not in reasons]
        ctx.extra[key + "_tie_lost"] = ["%s: %s" % (n, reasons[n]) for n in lost]
        ctx.extra[key + "_tie_gone"] = gone
        if lost:
            msg = ("translator tie lost for %s: translated on the reference tree, outside the translated fragment in this "
                   "working tree (%s); the theorems of %s about them have nothing to state"
                   % (", ".join(lost), "; ".join("%s: %s" % (n, reasons[n]) for n in lost), module))
            ctx.lean_problems.append(msg)
            print("# " + msg[:600])
        if gone:
            print("NOTE (translator tie): no longer present in the Go source (renamed or removed), so nothing to tie: "
                  + ", ".join(gone))
    ctx.extra[key + "_ssa_translated"] = info["translated"]
    ctx.extra[key + "_ssa_partial"] = ["%s: %s" % (k["name"], k["reason"]) for k in (info.get("partial") or [])]
    ctx.extra[key + "_ssa_skipped"] = ["%s: %s" % (k["name"], k["reason"]) for k in info["skipped"]]
    ctx.extra[key + "_ssa_sha1"] = hashlib.sha1(open(out_path, "rb").read()).hexdigest()
    text = open(props_path).read()
    ctx.extra[key + "_ssa_translated_without_theorem"] = sorted(
        n for n in lean_names if not re.search(r"\bGen\." + re.escape(n) + r"\b", text))
    unavailable = {n: g for n, g in guards.items() if g is not None and g.split(".")[-1] not in lean_names}
    ctx.extra[key + "_tie_unavailable"] = ["%s (no %s in this run)" % (n, g) for n, g in sorted(unavailable.items())]
    if unavailable:
        print("NOTE (translator tie): %d theorem(s) of %s are not elaborated in this run (their subject is not translated: "
              "%s); see the tie-lost report above" % (len(unavailable), module, ", ".join(sorted(set(unavailable.values())))))
    ctx.rules.append("translator tie: %d functions regenerated from the Go source (%s), %d outside the fragment (listed "
                     "with reasons in coverage.%s_ssa_skipped); %s proves the regenerated definitions equal to the model"
                     % (len(info["translated"]), os.path.basename(out_path), len(info["skipped"]), key, module))
    names = [n for n, g in guards.items() if n not in unavailable]
    if unavailable and ctx.extra.get(key + "_tie_lost"):
        # the tie was lost (not merely renamed away): the theorems that have nothing to state count as not discharged
        for n in sorted(unavailable):
            ctx.theorems.append({"name": namespace + "." + n, "axioms": None, "ok": False})
    # ---- build, with a wall-clock limit
    cmd = ["lake", "build", module]
    ctx.checker_cmds.append("cd lean && " + " ".join(cmd))
    if os.environ.get("VERIF_GENTIE_LIMIT", "").isdigit():
        limit = int(os.environ["VERIF_GENTIE_LIMIT"])     # for testing the time-out path
    with open(os.path.join(core.VERIF, ".work", "lean.lock"), "w") as lk:
        fcntl.flock(lk, fcntl.LOCK_EX)
        p = subprocess.Popen(cmd, cwd=core.LEAN, stdout=subprocess.PIPE, stderr=subprocess.STDOUT, text=True,
                             errors="replace", start_new_session=True)
        try:
            bout, _ = p.communicate(timeout=limit)
            rc = p.returncode
        except subprocess.TimeoutExpired:
            try:
                os.killpg(p.pid, signal.SIGKILL)
            except OSError:
                pass
            bout, _ = p.communicate()
            rc = None
        if rc != 0:
            for n in names:
                ctx.theorems.append({"name": namespace + "." + n, "axioms": None, "ok": False})
            if rc is None:
                ctx.lean_problems.append("translator tie: the proofs of %s about the definitions regenerated from the Go "
                                         "source did not finish within %d s (a regenerated definition is no longer "
                                         "provably the verified model)" % (module, limit))
                print("# translator tie: %s did not build within %d s against the regenerated definitions" % (module, limit))
                return
            errs = [l for l in bout.splitlines() if "error" in l]
            failed = _failed_names(props_path, errs)
            ctx.extra[key + "_tie_failed"] = failed
            if failed:
                msg = ("translator tie: the definition regenerated from the Go source is no longer proved equal to the "
                       "verified model: %s." % namespace + (", %s." % namespace).join(failed))
                ctx.lean_problems.append(msg)
                print("# translator tie: the Go source no longer translates to the verified model; failing: %s."
                      % namespace + (", %s." % namespace).join(failed))
            ctx.lean_problems.append("lake build %s failed: %s" % (module, " | ".join(errs[:8])))
            return
        # ---- the translated functions without a tie (separate file, no property imports it): they must at least compile
        untied = out_path[:-len(".lean")] + "_untied.lean"
        if os.path.exists(untied):
            umod = "Generated." + os.path.basename(untied)[:-len(".lean")]
            rcu, outu = core.sh(["lake", "build", umod], cwd=core.LEAN, timeout=limit)
            ctx.extra[key + "_ssa_untied"] = info.get("untied") or []
            ctx.extra[key + "_ssa_untied_builds"] = rcu == 0
            if rcu != 0:
                print("NOTE (translator tie): %s (translated functions without a tie theorem) does not compile: %s"
                      % (os.path.relpath(untied, core.VERIF), " | ".join(l for l in outu.splitlines() if "error" in l)[:300]))
        # ---- audit
        audit = os.path.join(core.LEAN, "Audit", module.split(".")[-1] + ".lean")
        os.makedirs(os.path.dirname(audit), exist_ok=True)
        with open(audit, "w") as f:
            f.write("import %s\n" % module)
            for n in names:
                f.write("#print axioms %s.%s\n" % (namespace, n))
        ctx.checker_cmds.append("cd lean && lake env lean Audit/%s   (#print axioms on every theorem)" % os.path.basename(audit))
        rc2, out2 = core.sh(["lake", "env", "lean", "Audit/" + os.path.basename(audit)], cwd=core.LEAN, timeout=3600)
        ax = core.parse_axioms(out2)
        for n in names:
            q = namespace + "." + n
            if q in ax:
                bad = [a for a in ax[q] if a not in core.ALLOWED_AXIOMS]
                ctx.theorems.append({"name": q, "axioms": ax[q], "ok": not bad})
                if bad:
                    ctx.lean_problems.append("theorem %s depends on axioms %s" % (q, bad))
            else:
                ctx.theorems.append({"name": q, "axioms": None, "ok": False})
                ctx.lean_problems.append("theorem %s does not check (no axiom report)" % q)
        if ctx.tier == "thorough":
            cmdc = ["lake", "env", "leanchecker", module]
            ctx.checker_cmds.append("cd lean && " + " ".join(cmdc))
            rc3, out3 = core.sh(cmdc, cwd=core.LEAN, timeout=3600)
            if rc3 != 0:
                ctx.lean_problems.append("leanchecker rejected %s: %s" % (module, out3[-300:]))
    # ---- forbidden tokens in the new module and everything it imports (merged with the scan of the main call)
    prev_files = ctx.extra.get("lean_files_scanned", [])
    prev_hits = ctx.extra.get("forbidden_token_hits", [])
    ctx._scan_forbidden([module])
    ctx.extra["lean_files_scanned"] = sorted(set(prev_files) | set(ctx.extra.get("lean_files_scanned", [])))
    ctx.extra["forbidden_token_hits"] = sorted(set(prev_hits) | set(ctx.extra.get("forbidden_token_hits", [])))


# the ties that can be run on their own (`python3 -m vlib.gentie --run <target>`): target -> arguments of run()
STANDALONE = {
    "f64": dict(target="f64", generated="SSA_F64.lean", module="Props.C03Gen", key="f64", namespace="C03Gen"),
    "f128": dict(target="f128", generated="SSA_F128.lean", module="Props.C03Gen128", key="f128", namespace="C03Gen128",
                 deps=[("num", "SSA_Num.lean", "c01gen.lock")]),
    "geom": dict(target="geom", generated="SSA_Geom.lean", module="Props.C18Gen", key="geom", namespace="C18Gen"),
    "txt": dict(target="txt", generated="SSA_Txt.lean", module="Props.C20Gen", key="txt", namespace="C20Gen"),
    "bitset": dict(target="bitset", generated="SSA_Bitset.lean", module="Props.C08Gen", key="bitset", namespace="C08Gen"),
    "numloops": dict(target="numloops", generated="SSA_NumLoops.lean", module="Props.C01GenLoops", key="numloops",
                     namespace="C01GenLoops", deps=[("num", "SSA_Num.lean", "c01gen.lock")]),
}


class _Standalone(core.Ctx):
    """the part of a check context that run() uses, without the work directory and the locks of a real check"""

    def __init__(self, repo, tier):
        self.repo = os.path.abspath(repo)
        self.tier = tier
        self.theorems, self.lean_problems, self.rules, self.checker_cmds = [], [], [], []
        self.extra = {}


def run_standalone(name, repo, tier="quick"):
    """exit status 0: every tie theorem of the target checks against the definitions regenerated from `repo`"""
    ctx = _Standalone(repo, tier)
    run(ctx, **STANDALONE[name])
    bad = [t["name"] for t in ctx.theorems if not t["ok"]]
    print("translator tie %s on %s: %d translated, %d theorems, %d not discharged"
          % (name, ctx.repo, len(ctx.extra.get(STANDALONE[name]["key"] + "_ssa_translated", [])), len(ctx.theorems), len(bad)))
    for p in ctx.lean_problems:
        print("PROBLEM: " + p[:700])
    if bad:
        print("not discharged: " + ", ".join(bad))
    return 1 if (ctx.lean_problems or bad) else 0


if __name__ == "__main__":
    import sys
    if len(sys.argv) >= 2 and sys.argv[1] == "--update-expected":
        update_expected(sys.argv[2:] or ["f64", "f128", "geom"], os.environ.get("VERIF_REPO", "/repo"))
    elif len(sys.argv) >= 3 and sys.argv[1] == "--run":
        sys.exit(run_standalone(sys.argv[2], os.environ.get("VERIF_REPO", "/repo"), os.environ.get("VERIF_TIER", "quick")))
    else:
        print(__doc__)
