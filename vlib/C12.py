"""C12 — log rotation: Lean model `Rot` (Model/Rotation.lean: New/options, Write as a step function with the retry
loop, rotate as the literal rename chain, Close, re-open; Model/RotationErr.lean: the same on a file system whose calls
fail — what the driver runs), theorems Props/C12.lean, stateful correspondence with `rotation.Rotator` on scratch
directories (areas rot, rotdef; rotf under real faults: immutable slot, directory replaced by a file, RLIMIT_FSIZE; rotfd
with the descriptor closed behind the rotator's back), call-inventory tie Props/C12Calls.lean, lock tie Props/C12Lock.lean,
plus implementation-side oracles for resource failures and concurrent writers."""


# white-box accessor for the descriptor held by the rotator (area rotfd); found by type, so field renames do not matter
OVERLAY = {"log/rotation/verif_fd.go": "c12_fd.go"}


def _tag(line, out):
    if not line.startswith("w "):
        return None
    if out == "hang":
        return "write:hang"
    # number of files after the write and whether the write was empty
    files = out.split(" | ", 1)[1].split(" ") if " | " in out else []
    return "write:%s:files=%s" % ("empty" if line == "w 0" else "bytes", min(len(files), 7))


def run(ctx):
    import os
    import shutil
    import tempfile
    # scratch directories of the harness live on a memory file system when there is one (independent of disk load);
    # one parent per run so that whatever a killed harness leaves behind is removed here
    base = "/dev/shm" if os.path.isdir("/dev/shm") and os.access("/dev/shm", os.W_OK) else None
    scratch = tempfile.mkdtemp(prefix="c12run-", dir=base)
    try:
        _run(ctx, {"C12_TMP": scratch})
    finally:
        # a killed harness of area rotf may leave a file with the immutable / append-only inode flag behind
        import subprocess
        if os.listdir(scratch) and shutil.which("chattr"):
            subprocess.run(["chattr", "-R", "-f", "-i", "-a", scratch], stdout=subprocess.DEVNULL,
                           stderr=subprocess.DEVNULL, check=False)
        shutil.rmtree(scratch, ignore_errors=True)


def _tagf(line, out):
    """area rotf: what kind of failure did the operation meet"""
    op = line.split(" ", 1)[0]
    if op not in ("w", "wlim"):
        return None
    head = out.split(" | ", 1)[0]
    if head == "hang":
        return "fault:hang"
    if "err=error" in head:
        return "fault:%s:%s" % (op, "refused(n=0)" if head.startswith("n=0 ") else "short(n>0)")
    return "fault:%s:ok" % op


CALLS_MODULE = "Props.C12Calls"


def _lean_phase(ctx):
    """The Lean phase.  Call-inventory tie: go/cmd/c12facts reads from the Go source of the working tree which functions
    of package os and which methods of *os.File package rotation calls, and the flag constants of its os.OpenFile, and
    writes them to lean/Generated/RotationCalls.lean (deleted and regenerated on every run); Props/C12Calls.lean decides in
    the kernel that they are exactly the calls the failing-file-system model (Rot.Sys) quantifies over.  Built and audited
    together with Props/C12.lean; when the joint build fails the main module is built and audited again on its own, so
    that a tie that no longer checks cannot hide the audit of Props/C12.lean.  After a run against another tree the
    reference table (of /repo) is restored."""
    import fcntl
    import json
    import os
    from vlib import core
    gen = os.path.join(core.LEAN, "Generated", "RotationCalls.lean")
    tool = os.path.join(ctx.work, "c12facts")
    names = core.theorem_names(os.path.join(core.LEAN, CALLS_MODULE.replace(".", "/") + ".lean"))

    def fail_all():
        for q in names:
            ctx.theorems.append({"name": q, "axioms": None, "ok": False})

    def generate(repo):
        if os.path.exists(gen):
            os.remove(gen)
        rc, out = core.sh([tool, repo, gen], cwd=core.GO, env=core.env_go(), timeout=300)
        if rc != 0 or not os.path.exists(gen):
            return None, out
        try:
            return json.loads(out.strip().splitlines()[-1]), out
        except Exception:
            return None, out

    def main_only(why):
        ctx.lean_problems.append(why)
        fail_all()
        ctx.lean(props=["Props.C12"], drivers=["drv_c12"])

    ctx.checker_cmds.append("cd go && go run ./cmd/c12facts <repo> ../lean/Generated/RotationCalls.lean   (regenerate the "
                            "table of file-system calls from the Go source)")
    rc, out = core.sh(["go", "build", "-modfile=" + ctx._gomod(), "-o", tool, "./cmd/c12facts"], cwd=core.GO,
                      env=core.env_go(), timeout=600)
    if rc != 0:
        main_only("c12facts does not build: " + out[-300:])
        return
    os.makedirs(os.path.join(core.VERIF, ".work"), exist_ok=True)
    with open(os.path.join(core.VERIF, ".work", "c12facts.lock"), "w") as lk:
        fcntl.flock(lk, fcntl.LOCK_EX)
        try:
            info, out = generate(ctx.repo)
            if info is None:
                main_only("c12facts could not analyse package log/rotation of the working tree: " + out[-400:])
                return
            ctx.extra["call_tie_os_calls"] = info.get("osCalls")
            ctx.extra["call_tie_file_calls"] = info.get("fileCalls")
            ctx.extra["call_tie_open_flag_values"] = info.get("openFlagBits")
            ctx.extra["call_tie_os_constants"] = info.get("osConst")
            ctx.extra["call_tie_reachable_functions"] = info.get("reachable")
            ctx.extra["call_tie_complete"] = info.get("complete")
            # facts the extractor could not establish: the statements about them are vacuous (less coverage, no alarm)
            ctx.extra["call_tie_unresolved"] = info.get("unresolved") or []
            if info.get("unresolved"):
                ctx.assumptions.append("call-inventory tie incomplete in this working tree (statements about the "
                                       "unresolved facts are vacuous): " + "; ".join(info.get("unresolved")))
            ctx.rules.append("call-inventory tie: the %d functions of package os and the %d methods of os.File referenced in "
                             "the code reachable from the methods of the Rotator (type-checked: resolved objects, through "
                             "helpers) and the VALUES of the os.OpenFile flag arguments (constant evaluation); %s decides "
                             "that they are the calls of the model Rot.Sys" % (
                                 len(info.get("osCalls") or []), len(info.get("fileCalls") or []), CALLS_MODULE))
            nt, npb, ncmd = len(ctx.theorems), len(ctx.lean_problems), len(ctx.checker_cmds)
            ctx.lean(props=["Props.C12", CALLS_MODULE], drivers=["drv_c12"])
            if not any(p.startswith("lake build failed") for p in ctx.lean_problems[npb:]):
                return
            # the joint build failed: audit the main module on its own; the tie theorems count as not discharged
            del ctx.theorems[nt:]
            del ctx.lean_problems[npb:]
            del ctx.checker_cmds[ncmd:]
            ctx.lean(props=["Props.C12"], drivers=["drv_c12"])
            if not any(p.startswith("lake build failed") for p in ctx.lean_problems[npb:]):
                ctx.lean_problems.append(
                    "call-inventory tie lost: %s does not check against the calls read from the working tree "
                    "(os: %s; os.File: %s; OpenFile flag values: %s) — the model Rot.Sys quantifies over MkdirAll, Stat, OpenFile, "
                    "Remove, Rename, and Close/Sync/Write (Stat) on the descriptor, opened O_APPEND|O_CREATE without O_TRUNC"
                    % (CALLS_MODULE, info.get("osCalls"), info.get("fileCalls"), info.get("openFlagBits")))
            fail_all()
        finally:
            if ctx.repo != "/repo" and os.path.isdir("/repo/log/rotation"):
                generate("/repo")


def _run(ctx, env):
    import time
    t0 = time.time()
    marks = {}
    ctx.modelled += [
        "the directory of the log file is a partial map index -> bytes (0 = path, i = path-i); every system call of "
        "rotator.go (MkdirAll, Stat, OpenFile(O_APPEND|O_CREATE), Remove, each Rename of the chain, and Close/Sync/Write "
        "on the descriptor) asks an environment whether it fails (Model/RotationErr.lean, what drv_c12 runs); a failing "
        "call has no effect on the directory, a missing file is `not exist` (ignored as in the code), the descriptor "
        "write may be short; areas rot/rotdef run the calm environment, rotf/rotfd the environments of the real faults",
        "WithMask is an option without effect on the directory model (file modes are not in the property text and are not "
        "compared); without a Path option the rotator is only constructed (PathToLog() = DefaultPath()), never written",
        "records written by the harness are position-dependent (byte j of write k = (53k+1+j) mod 251) and files are "
        "printed losslessly as +1-runs, so loss, duplication, reordering and permutation inside a record all show",
        "a restart with other limits (`reopen <opts>`) is a new segment of `Rot.runSegs`; C12.*_across_restarts carry the "
        "size bound, the backup frame and (for unchanged MaxBackups) the suffix clause across such restarts",
        "MaxSize/MaxBackups take signed integers; negative values are configured into the model as 0 "
        "(C12.negative_limits_act_as_zero) and exercised (-1, MinInt64) like the huge ones (MaxInt64 and neighbours)",
    ]
    ctx.assumptions += [
        "concurrency — what is proved and what is not: C12.concurrent_writes_never_interleave / concurrent_complete / "
        "concurrent_bounds / concurrent_progress / concurrent_returns_in_bounded_time are theorems about an abstract "
        "machine (Model/Mutex.lean, Lemmas/MutexLin.lean) in which every call is BY CONSTRUCTION Lock(); micro-steps; "
        "Unlock(): for that machine every schedule is linearizable in acquisition order, dead-lock free and bounded. "
        "They are NOT statements about rotator.go: deleting r.lock.Lock() from Write, or unlocking before file.Write, "
        "leaves all of them true. That the Go code really brackets every access to its mutable state with the one "
        "sync.Mutex is decided on every run by Props/C12Lock.lean about lock-state tables that gossa/lockfacts regenerates "
        "from the typed SSA form of the working tree (deleting the Lock() from Write, Sync or Close, or touching file/size "
        "after the Unlock, breaks C12Lock.accesses_under_the_mutex); the extractor and the semantics of sync.Mutex are "
        "trusted. The concrete search for a failing schedule is the `stress` oracle of this check — goroutines calling "
        "Write, Close and Sync on one Rotator, judged by the conclusion of the theorem (whole records, per-goroutine "
        "order, all records while the oldest slot is unused, directory = sequential rotation rule applied to the "
        "records in the order read back) — run plain and under the race detector. The clause `concurrent writers "
        "never interleave bytes` is therefore: proved for the bracketed model, observed (not proved) for the code",
        "no other process modifies the log directory between operations; the failing-file-system theorems (C12.faulty_*) "
        "hold for every environment of the model; the code is compared with that model only under the faults the harness "
        "can provoke for real: an immutable slot (EPERM on Remove/Rename), the directory replaced by a regular file "
        "(ENOTDIR), RLIMIT_FSIZE (partial write, then EFBIG), the descriptor closed behind the rotator's back; a Stat "
        "that fails while OpenFile succeeds, and a failing MkdirAll/OpenFile in isolation, are in the model and in no "
        "differential run (the `errs` oracle covers parentfile/pathisdir/oldestdir on the implementation side)",
        "the cost of one rotation is linear in MaxBackups (one rename attempt per slot): MaxBackups is exercised up to "
        "100; astronomically large values (math.MaxInt) make a rotating Write run for that many iterations",
    ]
    _lean_phase(ctx)
    from vlib import lockfacts
    lockfacts.run(ctx, "rotation", "Props.C12Lock", "C12Lock")   # lock discipline decided about tables regenerated from the Go source
    marks["lean_s"] = round(time.time() - t0, 1)
    ctx.harness("./cmd/c12", overlay=OVERLAY)
    marks["harness_s"] = round(time.time() - t0, 1)
    ctx.extra["phase_times"] = marks
    ctx.diff(area="rot", driver="drv_c12", n={"quick": 70000, "thorough": 5000000}, stateful=True,
             trivial=lambda l, o: o in ("norot", "sync=nil", "nopath", "new=err"),
             tagger=_tag, extra_env=env,
             theorem="C12.write_terminates / write_whole / retained_is_suffix / size_bound / backup_count / "
                     "preexisting_appended / close_then_write (model = spec); impl != model on this input "
                     "(`hang` = the Write did not return within the deadline)")
    import os
    import subprocess
    probe = subprocess.run([ctx.harness_bin["harness"], "probe-faults"], env=dict(os.environ, **env),
                           stdout=subprocess.PIPE, stderr=subprocess.DEVNULL, text=True, check=False)
    if probe.stdout.strip() == "true":
        ctx.diff(area="rotf", driver="drv_c12", n={"quick": 20000, "thorough": 1500000}, stateful=True,
                 trivial=lambda l, o: o in ("norot", "sync=nil", "block=ok", "unblock=ok", "unjam=ok"),
                 tagger=_tagf, extra_env=env,
                 theorem="C12.faulty_write_terminates / faulty_retained_is_suffix / failed_write_adds_nothing / "
                         "short_write_places_prefix / faulty_backup_frame / recovery_after_faults (model with a failing "
                         "file system, Model/RotationErr.lean = spec); impl != model on this input under REAL faults "
                         "(immutable slot, directory replaced by a file, RLIMIT_FSIZE)")
        ctx.extra["fault_area"] = "run (inode flags and RLIMIT_FSIZE available in the scratch area)"
    else:
        ctx.extra["fault_area"] = "SKIPPED: the scratch file system refuses inode flags or RLIMIT_FSIZE"
        ctx.assumptions.append("area rotf (real file system faults against Model/RotationErr.lean) could not run here: "
                               "the scratch file system refuses the immutable flag or RLIMIT_FSIZE")
    pfd = subprocess.run([ctx.harness_bin["harness"], "probe-fd"], env=dict(os.environ, **env),
                         stdout=subprocess.PIPE, stderr=subprocess.DEVNULL, text=True, check=False)
    if "overlay_fallback" not in ctx.extra and pfd.stdout.strip() == "true":
        ctx.diff(area="rotfd", driver="drv_c12", n={"quick": 8000, "thorough": 600000}, stateful=True, shards=2,
                 trivial=lambda l, o: o in ("norot", "sync=nil", "breakfd=none"),
                 tagger=_tagf, extra_env=env,
                 theorem="C12.faulty_write_returns / failed_write_adds_nothing / faulty_retained_is_suffix (failing Close "
                         "inside rotate and in Close(), failing Sync, a descriptor write that takes nothing); impl != model "
                         "after the harness closed the rotator's descriptor behind its back (white-box accessor)")
        ctx.extra["fd_area"] = "run (descriptor reached through the injected accessor)"
    else:
        ctx.extra["fd_area"] = "SKIPPED: the white-box accessor does not reach the descriptor in this working tree"
    ctx.diff(area="rotdef", driver="drv_c12", n=1, shards=1, stateful=True, extra_env=env,
             theorem="C12.new_defaults (limits of a rotator built without MaxSize/MaxBackups options) + the theorems "
                     "above; impl != model on this input")
    marks["diff_s"] = round(time.time() - t0, 1)
    if ctx.violations:
        return  # the sequential behaviour is already refuted; the stress runs would only wait for hung writers
    ctx.impl_oracle("errs", {"quick": 40, "thorough": 2000}, extra_env=env,
                    label="resource failures (directory is a file, path is a directory, oldest backup slot is a "
                          "non-empty directory, read-only directory): Write returns n=0 and an error, never hangs, "
                          "changes nothing on disk, and the same Rotator works again once the obstacle is gone")
    marks["errs_s"] = round(time.time() - t0, 1)
    ctx.impl_oracle("stress", {"quick": 36, "thorough": 400}, extra_env=env,
                    label="Write/Close/Sync from concurrent goroutines; judge = conclusion of "
                          "C12.concurrent_writes_never_interleave: whole records, per-goroutine order, nothing lost "
                          "while the oldest slot is unused, directory = sequential rotation rule on the order read back")
    marks["stress_s"] = round(time.time() - t0, 1)
    if ctx.harness("./cmd/c12", name="race", race=True, overlay=OVERLAY):
        marks["racebuild_s"] = round(time.time() - t0, 1)
        ctx.impl_oracle("stress", {"quick": 12, "thorough": 120}, name="race",
                        extra_env=dict(env, GORACE="halt_on_error=1 exitcode=66"),
                        label="the same under the race detector (a reported race kills the harness)")
    marks["end_s"] = round(time.time() - t0, 1)
