"""C12 — log rotation: Lean model `Rot` (Model/Rotation.lean: New/options, Write as a step function with the retry
loop, rotate as the literal rename chain, Close, re-open), theorems Props/C12.lean, stateful correspondence with
`rotation.Rotator` on scratch directories, plus an implementation-side concurrent-writer oracle."""


def _tag(line, out):
    if not line.startswith("w "):
        return None
    if out == "hang":
        return "write:hang"
    # number of files after the write and whether the write was empty
    files = out.split(" | ", 1)[1].split(" ") if " | " in out else []
    return "write:%s:files=%s" % ("empty" if line == "w 0" else "bytes", min(len(files), 7))


def run(ctx):
    import os
    import shutil
    import tempfile
    # scratch directories of the harness live on a memory file system when there is one (independent of disk load);
    # one parent per run so that whatever a killed harness leaves behind is removed here
    base = "/dev/shm" if os.path.isdir("/dev/shm") and os.access("/dev/shm", os.W_OK) else None
    scratch = tempfile.mkdtemp(prefix="c12run-", dir=base)
    try:
        _run(ctx, {"C12_TMP": scratch})
    finally:
        shutil.rmtree(scratch, ignore_errors=True)


def _run(ctx, env):
    import time
    t0 = time.time()
    marks = {}
    ctx.modelled += [
        "the directory of the log file is a partial map index -> bytes (0 = path, i = path-i); os.Rename/Remove/"
        "Stat/OpenFile(O_APPEND|O_CREATE)/MkdirAll succeed (only `not exist` errors occur, and are ignored as in the "
        "code); Write returns (len(b), nil)",
        "WithMask is an option without effect on the directory model (file modes are not in the property text and are not "
        "compared); without a Path option the rotator is only constructed (PathToLog() = DefaultPath()), never written",
        "records written by the harness are position-dependent (byte j of write k = (53k+1+j) mod 251) and files are "
        "printed losslessly as +1-runs, so loss, duplication, reordering and permutation inside a record all show",
        "a restart with other limits (`reopen <opts>`) is a new segment of `Rot.runSegs`; C12.*_across_restarts carry the "
        "size bound, the backup frame and (for unchanged MaxBackups) the suffix clause across such restarts",
        "MaxSize/MaxBackups take signed integers; negative values are configured into the model as 0 "
        "(C12.negative_limits_act_as_zero) and exercised (-1, MinInt64) like the huge ones (MaxInt64 and neighbours)",
    ]
    ctx.assumptions += [
        "concurrency — what is proved and what is not: C12.concurrent_writes_never_interleave / concurrent_complete / "
        "concurrent_bounds / concurrent_progress / concurrent_returns_in_bounded_time are theorems about an abstract "
        "machine (Model/Mutex.lean, Lemmas/MutexLin.lean) in which every call is BY CONSTRUCTION Lock(); micro-steps; "
        "Unlock(): for that machine every schedule is linearizable in acquisition order, dead-lock free and bounded. "
        "They are NOT statements about rotator.go: deleting r.lock.Lock() from Write, or unlocking before file.Write, "
        "leaves all of them true. That the Go code really brackets every access to its mutable state with the one "
        "sync.Mutex is decided on every run by Props/C12Lock.lean about lock-state tables that gossa/lockfacts regenerates "
        "from the typed SSA form of the working tree (deleting the Lock() from Write, Sync or Close, or touching file/size "
        "after the Unlock, breaks C12Lock.accesses_under_the_mutex); the extractor and the semantics of sync.Mutex are "
        "trusted. The concrete search for a failing schedule is the `stress` oracle of this check — goroutines calling "
        "Write, Close and Sync on one Rotator, judged by the conclusion of the theorem (whole records, per-goroutine "
        "order, all records while the oldest slot is unused, directory = sequential rotation rule applied to the "
        "records in the order read back) — run plain and under the race detector. The clause `concurrent writers "
        "never interleave bytes` is therefore: proved for the bracketed model, observed (not proved) for the code",
        "no other process modifies the log directory between operations; file system calls do not fail (disk full, "
        "permissions) in the model — error paths of Write/rotate are exercised by the `errs` implementation oracle only",
        "the cost of one rotation is linear in MaxBackups (one rename attempt per slot): MaxBackups is exercised up to "
        "100; astronomically large values (math.MaxInt) make a rotating Write run for that many iterations",
    ]
    ctx.lean(props=["Props.C12"], drivers=["drv_c12"])
    from vlib import lockfacts
    lockfacts.run(ctx, "rotation", "Props.C12Lock", "C12Lock")   # lock discipline decided about tables regenerated from the Go source
    marks["lean_s"] = round(time.time() - t0, 1)
    ctx.harness("./cmd/c12")
    marks["harness_s"] = round(time.time() - t0, 1)
    ctx.extra["phase_times"] = marks
    ctx.diff(area="rot", driver="drv_c12", n={"quick": 90000, "thorough": 6000000}, stateful=True,
             trivial=lambda l, o: o in ("norot", "sync=nil", "nopath", "new=err"),
             tagger=_tag, extra_env=env,
             theorem="C12.write_terminates / write_whole / retained_is_suffix / size_bound / backup_count / "
                     "preexisting_appended / close_then_write (model = spec); impl != model on this input "
                     "(`hang` = the Write did not return within the deadline)")
    ctx.diff(area="rotdef", driver="drv_c12", n=1, shards=1, stateful=True, extra_env=env,
             theorem="C12.new_defaults (limits of a rotator built without MaxSize/MaxBackups options) + the theorems "
                     "above; impl != model on this input")
    marks["diff_s"] = round(time.time() - t0, 1)
    if ctx.violations:
        return  # the sequential behaviour is already refuted; the stress runs would only wait for hung writers
    ctx.impl_oracle("errs", {"quick": 40, "thorough": 2000}, extra_env=env,
                    label="resource failures (directory is a file, path is a directory, oldest backup slot is a "
                          "non-empty directory, read-only directory): Write returns n=0 and an error, never hangs, "
                          "changes nothing on disk, and the same Rotator works again once the obstacle is gone")
    marks["errs_s"] = round(time.time() - t0, 1)
    ctx.impl_oracle("stress", {"quick": 36, "thorough": 400}, extra_env=env,
                    label="Write/Close/Sync from concurrent goroutines; judge = conclusion of "
                          "C12.concurrent_writes_never_interleave: whole records, per-goroutine order, nothing lost "
                          "while the oldest slot is unused, directory = sequential rotation rule on the order read back")
    marks["stress_s"] = round(time.time() - t0, 1)
    if ctx.harness("./cmd/c12", name="race", race=True):
        marks["racebuild_s"] = round(time.time() - t0, 1)
        ctx.impl_oracle("stress", {"quick": 12, "thorough": 120}, name="race",
                        extra_env=dict(env, GORACE="halt_on_error=1 exitcode=66"),
                        label="the same under the race detector (a reported race kills the harness)")
    marks["end_s"] = round(time.time() - t0, 1)
