"""C01 — 128-bit integers: Lean models `U128.*` / `I128.*` (Model/U128.lean, Model/I128.lean), theorems Props/C01.lean.

Second tie (translator): `gossa/ssagen` regenerates lean/Generated/SSA_Num.lean (namespace `Gen`) from the typed SSA form of
package xmath/num of the repository's working tree on every run; Props/C01Gen.lean proves that every regenerated
definition is the corresponding function of the hand-written model, so the theorems of Props/C01.lean are re-checked
against what the code says now."""
import fcntl
import json
import os
import re

from vlib import core

GOSSA = os.path.join(core.VERIF, "gossa")
SSA_OUT = os.path.join(core.LEAN, "Generated", "SSA_Num.lean")
GEN_PROPS = os.path.join(core.LEAN, "Props", "C01Gen.lean")


def run(ctx):
    ctx.modelled += [
        "math/bits (Add64, Sub64, Mul64, Len64, LeadingZeros64, TrailingZeros64, OnesCount64) is modelled by its "
        "documented contract (Model/U128.lean, section `math/bits by contract`)",
        "Go uint64 = BitVec 64; Go shifts with an unsigned count = BitVec shifts with a Nat count; an int64 operand is "
        "its two's-complement bit pattern",
        "divBinaryShiftThreshold is read from the source on every run (Generated/Facts.lean) and used by the model's "
        "division dispatch",
    ]
    ctx.modelled += [
        "translator tie: every loop-free, panic-free function of xmath/num (selected by the shape of its SSA form) is "
        "regenerated as a Lean definition over BitVec 64 / Bool / U128 / I128 (Generated/SSA_Num.lean, written by "
        "gossa/ssagen from the working tree on every run; math/bits calls become the same contract definitions as in "
        "the model) and proved equal to the hand-written model function (Props/C01Gen.lean); trusted here: "
        "golang.org/x/tools/go/ssa and the instruction-by-instruction translation in gossa/main.go",
    ]
    # The regenerated file is shared by every run of this check: one run at a time regenerates it and builds against it.
    os.makedirs(os.path.join(core.VERIF, ".work"), exist_ok=True)
    with open(os.path.join(core.VERIF, ".work", "c01gen.lock"), "w") as lk:
        fcntl.flock(lk, fcntl.LOCK_EX)
        gen_ok = _ssagen(ctx, ctx.repo)
        # two separate builds/audits: a regenerated definition whose proof fails must not hide the audit of Props.C01
        ctx.lean(props=["Props.C01"], drivers=["drv_c01"])
        if gen_ok and _build_gen(ctx):
            ctx.lean(props=["Props.C01Gen"], facts=False)     # the build is up to date: this is the axiom audit
        else:
            for n in core.theorem_names(GEN_PROPS):
                ctx.theorems.append({"name": n, "axioms": None, "ok": False})
        if ctx.repo != "/repo" and os.path.isdir("/repo/xmath/num"):
            # leave the tracked file as generated from the reference tree (it is committed, like Generated/Facts.lean)
            _ssagen(None, "/repo")
    # Division is proved end to end (no open obligation): dispatch, fast paths and all three kernels
    # (divmod128bin_spec, divmod128by64_spec, divmod128by128_spec) give C01.divMod_spec / C01.idivMod_spec for every
    # operand pair with a non-zero divisor.
    ctx.assumptions += [
        "Division: dispatch, /0 panic, /1, 64-bit fast path, power-of-two path, u<n, u=n, Div/Mod = components of "
        "DivMod, the ...64 entry points = the 128-bit ones on the zero-extended divisor, the high/low split of the "
        "word-divisor case and all three kernels are proved: divmod128bin (divmod128bin_spec), divmod128by64 = Knuth D "
        "on 32-bit digits with both correction loops (divmod128by64_spec, Lemmas/U128Knuth.lean: corr_spec, "
        "corrLoop_eq, digit_spec, rem_spec, divluCore_spec) and the estimate-and-correct branch of divmod128by128 "
        "(divmod128by128_spec: est_bounds, final_corr).  C01.divMod_spec, div_mod_spec and div_mul_add_mod therefore "
        "hold with no hypothesis other than a non-zero divisor.  The correction loops are modelled as a fuelled "
        "recursion (fuel 4; the proof shows it is never exhausted); the path pass still checks that every path and "
        "every correction count is hit on each run (tag_histogram).",
        "Signed DivMod (magnitudes, sign fix-up, MinInt128 wrap; Div and Mod as its components; DivMod64 as DivMod of the "
        "sign-extended operand) is proved against Int.tdiv / Int.tmod (C01.idivMod_spec, idiv_mul_add_mod, no kernel "
        "hypothesis), and so is Int128.Div64 with its own sign fix-up on an int64 (C01.idiv64_spec).",
    ]
    ctx.harness("./cmd/c01")
    # The harness gives every call a 2 s deadline (`hang`, stream abandoned after three) and checks after every call
    # that the exported limit variables are intact; the stream time-out is therefore only a last resort.
    ctx.diff(area="int128", driver="drv_c01", n={"quick": 200000, "thorough": 20000000},
             trivial=lambda l, o: False, timeout=150 if ctx.tier == "quick" else 900,
             theorem="C01.* (model = Z mod 2^128 specification); impl != model on this input")
    _paths(ctx)


def _ssagen(ctx, repo):
    """Delete lean/Generated/SSA_Num.lean and regenerate it from the working tree `repo`."""
    if os.path.exists(SSA_OUT):
        os.remove(SSA_OUT)
    rc, out = core.sh(["go", "run", ".", repo, SSA_OUT], cwd=GOSSA, env=core.env_go(), timeout=600)
    if ctx is None:
        return rc == 0
    ctx.checker_cmds.append("cd gossa && go run . <repo> ../lean/Generated/SSA_Num.lean   (regenerate the Lean "
                            "definitions from the Go source)")
    if rc != 0 or not os.path.exists(SSA_OUT):
        ctx.lean_problems.append("ssagen could not translate xmath/num of the working tree: " + out[-400:])
        return False
    try:
        info = json.loads(out.strip().splitlines()[-1])
    except Exception:
        ctx.lean_problems.append("ssagen printed no summary: " + out[-200:])
        return False
    have = set(core.theorem_names(GEN_PROPS))
    ctx.extra["ssa_translated"] = info["translated"]
    ctx.extra["ssa_skipped"] = ["%s: %s" % (k["name"], k["reason"]) for k in info["skipped"]]
    ctx.extra["ssa_translated_without_theorem"] = [
        n for n in info["translated"] if "C01Gen.%s_eq" % n.replace(".", "_") not in have]
    import hashlib
    ctx.extra["ssa_sha1"] = hashlib.sha1(open(SSA_OUT, "rb").read()).hexdigest()
    ctx.rules.append("translator tie: %d functions of xmath/num regenerated from the source and proved equal to the "
                     "model (Props/C01Gen.lean), %d outside the fragment (listed with reasons in coverage.ssa_skipped)"
                     % (len(info["translated"]), len(info["skipped"])))
    return True


def _build_gen(ctx):
    """Build Props.C01Gen against the regenerated definitions, with a wall-clock limit: on a goal that is no longer
    provable `omega` can search for minutes, and a changed behaviour has to be reported within the tier's time budget.
    A failure or a timeout is reported as a proof that no longer checks (every theorem of the module counts as not
    discharged); the differential run then looks for a concrete failing input."""
    import signal
    import subprocess
    limit = 180 if ctx.tier == "quick" else 900   # a quiet machine needs 12-25 s, success or failure
    if os.environ.get("VERIF_C01GEN_LIMIT", "").isdigit():
        limit = int(os.environ["VERIF_C01GEN_LIMIT"])     # for testing the time-out path
    cmd = ["lake", "build", "Props.C01Gen"]
    ctx.checker_cmds.append("cd lean && " + " ".join(cmd))
    with open(os.path.join(core.VERIF, ".work", "lean.lock"), "w") as lk:
        fcntl.flock(lk, fcntl.LOCK_EX)
        p = subprocess.Popen(cmd, cwd=core.LEAN, stdout=subprocess.PIPE, stderr=subprocess.STDOUT, text=True,
                             errors="replace", start_new_session=True)
        try:
            out, _ = p.communicate(timeout=limit)
            rc = p.returncode
        except subprocess.TimeoutExpired:
            try:
                os.killpg(p.pid, signal.SIGKILL)
            except OSError:
                pass
            out, _ = p.communicate()
            rc = None
    if rc == 0:
        return True
    if rc is None:
        ctx.lean_problems.append("translator tie: the proofs of Props/C01Gen.lean about the definitions regenerated from "
                                 "the Go source did not finish within %d s (a regenerated definition is no longer "
                                 "provably the verified model)" % limit)
        print("# translator tie: Props/C01Gen.lean did not build within %d s against the regenerated definitions" % limit)
        return False
    errs = [l for l in out.splitlines() if "error" in l]
    _explain(ctx, errs)
    ctx.lean_problems.append("lake build Props.C01Gen failed: " + " | ".join(errs[:8]))
    return False


def _explain(ctx, errs):
    """Name the theorems of Props/C01Gen.lean whose proof failed (lake reports file positions)."""
    lines = set()
    for p in errs:
        for m in re.finditer(r"C01Gen\.lean:(\d+):", p):
            lines.add(int(m.group(1)))
    if not lines:
        return
    src = open(GEN_PROPS).read().split("\n")
    names = []
    for ln in sorted(lines):
        k = min(ln, len(src)) - 1
        while k >= 0 and not re.match(r"^(?:@\[[^\]]*\]\s*)?theorem\s+(\S+)", src[k]):
            k -= 1
        if k >= 0:
            n = re.match(r"^(?:@\[[^\]]*\]\s*)?theorem\s+(\S+)", src[k]).group(1)
            if n not in names:
                names.append(n)
    ctx.extra["c01gen_failed"] = names
    print("# translator tie: the Go source no longer translates to the verified model; failing: C01Gen."
          + ", C01Gen.".join(names))
    ctx.lean_problems.append("translator tie: the definition regenerated from the Go source is no longer proved equal to "
                             "the verified model: C01Gen." + ", C01Gen.".join(names))


def _paths(ctx):
    """Second pass (coverage evidence only): which division path / correction branch the generated unsigned division
    lines exercise, PER ENTRY POINT (Div, Mod, DivMod and the three ...64 forms are six separate copies of the dispatch
    in the source; each copy has to reach each path).  The driver's `u path` / `u path64` ops recompute the dispatch
    decisions of the model; the tag is `<entry point>:<path>`."""
    import re
    if ctx.replay or "harness" not in ctx.harness_bin:
        return
    n = 200000 if ctx.tier == "quick" else 2000000
    lines = ctx.gen("int128", ctx.seed * 1000003, n)   # same stream as the first shard(s) of the diff run
    lines = ctx.corpus("int128") + lines
    rx = re.compile(r"^u (div|mod|divmod)(64)? ")
    ops, plines = [], []
    for l in lines:
        m = rx.match(l)
        if m:
            ops.append(m.group(1) + (m.group(2) or ""))
            plines.append(rx.sub("u path64 " if m.group(2) else "u path ", l))
    outs = ctx.run_model("drv_c01", plines)
    if outs is None:
        ctx.lean_problems.append("path pass of drv_c01 failed")
        return
    for op, o in zip(ops, outs):
        t = re.sub(r"shift=\d+", lambda m: "shift=" + ("0" if m.group(0) == "shift=0" else "1..16"), o)
        t = op + ":" + t.split(":", 1)[1] if ":" in t else op + ":" + t
        ctx.tags[t] = ctx.tags.get(t, 0) + 1
    ctx.rules.append("tag histogram: path pass over the %d unsigned division lines of the corpus and a %d-line stream, "
                     "per entry point (dispatch path; l1/l2 = number of corrections in loop1/loop2 of divmod128by64; "
                     "corr/nocorr = final correction of divmod128by128; dec = estimate decremented)" % (len(plines), n))
    need128 = ["bin", "by1", "pow2", "u64", "lt", "eq", "panic", "by64lo", "by64hi", "by128,corr", "by128,nocorr",
               "l1=1", "l1=2", "l2=1", "l2=2"]
    need64 = ["bin", "by1", "pow2", "u64", "panic", "by64lo", "by64hi", "l1=1", "l1=2", "l2=1", "l2=2"]
    missing = []
    for op, need in (("div", need128), ("mod", need128), ("divmod", need128),
                     ("div64", need64), ("mod64", need64), ("divmod64", need64)):
        mine = [t[len(op) + 1:] for t in ctx.tags if t.startswith(op + ":")]
        missing += [op + ":" + k for k in need if not any(k in t for t in mine)]
    ctx.extra["division_paths_missing"] = missing
    # A self-check of the generator, not a property of the code: a tree with another (behaviour-preserving) value of
    # divBinaryShiftThreshold legitimately has other reachable paths, so it only fails the run on the reference tree.
    if missing and ctx.repo == "/repo":
        ctx.lean_problems.append("generator no longer reaches division paths: " + ", ".join(missing))
