"""C01 — 128-bit integers: Lean models `U128.*` / `I128.*` (Model/U128.lean, Model/I128.lean), theorems Props/C01.lean.

Second tie (translator): `gossa/ssagen` regenerates lean/Generated/SSA_Num.lean (namespace `Gen`) from the typed SSA form of
package xmath/num of the repository's working tree on every run; Props/C01Gen.lean proves that every regenerated
definition is the corresponding function of the hand-written model, so the theorems of Props/C01.lean are re-checked
against what the code says now."""
import fcntl
import json
import os
import re

from vlib import core

GOSSA = os.path.join(core.VERIF, "gossa")
SSA_OUT = os.path.join(core.LEAN, "Generated", "SSA_Num.lean")
GEN_PROPS = os.path.join(core.LEAN, "Props", "C01Gen.lean")


def run(ctx):
    ctx.modelled += [
        "math/bits (Add64, Sub64, Mul64, Len64, LeadingZeros64, TrailingZeros64, OnesCount64) is modelled by its "
        "documented contract (Model/U128.lean, section `math/bits by contract`)",
        "Go uint64 = BitVec 64; Go shifts with an unsigned count = BitVec shifts with a Nat count; an int64 operand is "
        "its two's-complement bit pattern",
        "divBinaryShiftThreshold is read from the source on every run (Generated/Facts.lean) and used by the model's "
        "division dispatch; the hand-copied constants bit32 and signBit are proved equal to the values read from the "
        "source on this run (C01.consts_from_source)",
        "the twelve division entry points are run through the partial-division model Model/U128Hw.lean: every machine "
        "division x / y, x % y of the entry points and of the two Knuth kernels is a partial operation (the Go runtime's "
        "integer-divide panic for y = 0, outcome hwdiv, printed panic:runtime-divide) kept apart from the library's explicit "
        "panic(divByZero) (outcome divzero, printed panic:divzero); C01.hw_unsigned_eq / hw_signed_eq prove these functions "
        "equal to the total model the spec theorems speak about, C01.hw_never_runtime_panic that hwdiv never occurs; the "
        "harness classifies the recovered panic value the same way, so WHICH panic fires is compared on every zero divisor",
        "the exported limit variables MaxUint128 / MaxInt128 / MinInt128 are printed by the `limit` lines and compared with "
        "the model constants (C01.limits_spec); the harness also checks after every call that they are unmodified",
    ]
    ctx.modelled += [
        "translator tie: every loop-free, panic-free function of xmath/num (selected by the shape of its SSA form) is "
        "regenerated as a Lean definition over BitVec 64 / Bool / U128 / I128 (Generated/SSA_Num.lean, written by "
        "gossa/ssagen from the working tree on every run; math/bits calls become the same contract definitions as in "
        "the model) and proved equal to the hand-written model function (Props/C01Gen.lean); trusted here: "
        "golang.org/x/tools/go/ssa and the instruction-by-instruction translation in gossa/main.go",
    ]
    # The regenerated file is shared by every run of this check: one run at a time regenerates it and builds against it.
    os.makedirs(os.path.join(core.VERIF, ".work"), exist_ok=True)
    with open(os.path.join(core.VERIF, ".work", "c01gen.lock"), "w") as lk:
        fcntl.flock(lk, fcntl.LOCK_EX)
        gen_ok = _ssagen(ctx, ctx.repo)
        # two separate builds/audits: a regenerated definition whose proof fails must not hide the audit of Props.C01
        ctx.lean(props=["Props.C01"], drivers=["drv_c01"])
        if gen_ok and _build_gen(ctx):
            ctx.lean(props=["Props.C01Gen"], facts=False)     # the build is up to date: this is the axiom audit
        else:
            for n in core.theorem_names(GEN_PROPS):
                ctx.theorems.append({"name": n, "axioms": None, "ok": False})
        # Loop-level translator tie (extension session): the 15 division functions of xmath/num with their loops
        # (divmod128bin, both correction loops of divmod128by64, ...) regenerated as fuel recursions on top of SSA_Num;
        # divmod128bin and divmod128by64 are proved EQUAL to the model kernels (Props/C01GenLoops.lean), the others are
        # emitted untied (they run, nothing depends on them).  ADVISORY: recorded in coverage.numloops_advisory, decides
        # nothing (a structural loop tie also breaks under a behaviour-preserving restructuring of the loops).
        # No `deps` here: this block already holds c01gen.lock.
        from vlib import gentie
        gentie.run(ctx, target="numloops", generated="SSA_NumLoops.lean", module="Props.C01GenLoops", key="numloops",
                   namespace="C01GenLoops", advisory=True)
        if ctx.repo != "/repo" and os.path.isdir("/repo/xmath/num"):
            # leave the tracked file as generated from the reference tree (it is committed, like Generated/Facts.lean)
            _ssagen(None, "/repo")
    # Division is proved end to end (no open obligation): dispatch, fast paths and all three kernels
    # (divmod128bin_spec, divmod128by64_spec, divmod128by128_spec) give C01.divMod_spec / C01.idivMod_spec for every
    # operand pair with a non-zero divisor.
    ctx.assumptions += [
        "Division: dispatch, /0 panic, /1, 64-bit fast path, power-of-two path, u<n, u=n, Div/Mod = components of "
        "DivMod, the ...64 entry points = the 128-bit ones on the zero-extended divisor, the high/low split of the "
        "word-divisor case and all three kernels are proved: divmod128bin (divmod128bin_spec), divmod128by64 = Knuth D "
        "on 32-bit digits with both correction loops (divmod128by64_spec, Lemmas/U128Knuth.lean: corr_spec, "
        "corrLoop_eq, digit_spec, rem_spec, divluCore_spec) and the estimate-and-correct branch of divmod128by128 "
        "(divmod128by128_spec: est_bounds, final_corr).  C01.divMod_spec, div_mod_spec and div_mul_add_mod therefore "
        "hold with no hypothesis other than a non-zero divisor.  The correction loops are modelled as a fuelled "
        "recursion (fuel 4; the proof shows it is never exhausted); the path pass still checks that every path and "
        "every correction count is hit on each run (tag_histogram).",
        "Signed DivMod (magnitudes, sign fix-up, MinInt128 wrap; Div and Mod as its components; DivMod64 as DivMod of the "
        "sign-extended operand) is proved against Int.tdiv / Int.tmod (C01.idivMod_spec, idiv_mul_add_mod, no kernel "
        "hypothesis), and so is Int128.Div64 with its own sign fix-up on an int64 (C01.idiv64_spec).",
        "Panic clause: in the two anchored files the only partial machine operations are the integer divisions of the "
        "division entry points and kernels (no indexing, no type assertion, no pointer dereference, every shift count is "
        "converted to uint first) - established by reading, not by a per-run census; those divisions are partial in "
        "Model/U128Hw.lean and proved never to divide by zero (C01.hw_never_runtime_panic), with the CONTRAST theorems "
        "C01.hw_without_zero_test (an entry point without its explicit zero test raises the runtime's panic) and "
        "C01.hw_kernel_unnormalised / hw_kernel_by64_iff (the kernel without the callers' normalisation count does).  For "
        "every other operation 'never panics' holds of the model because its functions are total; there the claim is "
        "carried by the correspondence run (the harness reports any recovered panic by class).",
        "CONTRAST theorems (Lemmas/U128Contrast.lean holds the variants; none is executed by the driver): the code without "
        "the carry/borrow, the cross products, both correction loops of divmod128by64, the final correction or the "
        "estimate decrement of divmod128by128, the high/low split of the word-divisor case, the sign test of the signed "
        "comparison, the sign extension of an int64 operand, the magnitudes of the signed division, and OnesCount as it "
        "was before the fix each violate the proved statement on a concrete operand pair (C01.contrast_*).",
    ]
    ctx.harness("./cmd/c01")
    # The harness gives every call a 2 s deadline (`hang`, stream abandoned after three) and checks after every call
    # that the exported limit variables are intact; the stream time-out is therefore only a last resort.
    ctx.diff(area="int128", driver="drv_c01", n={"quick": 200000, "thorough": 20000000},
             trivial=lambda l, o: False, timeout=150 if ctx.tier == "quick" else 900,
             tagger=_op_tag,
             theorem="C01.* (model = Z mod 2^128 specification); impl != model on this input")
    _ops_reached(ctx)
    _census(ctx)
    _paths(ctx)


# every operation of the line protocol = every exported arithmetic / ordering / bit method of the two types (plus the
# constructors and reinterpretations the harness uses on every line); the run fails if the generator stops reaching one
U_OPS = ("add sub mul div mod divmod and or xor andnot andnot64 cmp gt ge eq lt le add64 sub64 mul64 div64 mod64 divmod64 "
         "and64 or64 xor64 cmp64 gt64 ge64 eq64 lt64 le64 inc dec not bitlen onescount lz tz iszero isint128 isuint64 "
         "asuint64 shl shr bit setbit from64 limit").split()
I_OPS = ("add sub mul div mod divmod cmp gt ge eq lt le add64 sub64 mul64 div64 mod64 divmod64 cmp64 gt64 ge64 eq64 lt64 "
         "le64 inc dec neg abs absu sign iszero isuint128 isint64 asint64 isuint64 asuint64 from64 fromu64 limit").split()


def _bucket(tok):
    """magnitude class of an operand token (`hi:lo` 128-bit pattern, `x<hex>` word, decimal count/index)"""
    try:
        if ":" in tok:
            h, l = tok.split(":")
            v = (int(h, 16) << 64) | int(l, 16)
            if v == 0:
                return "0"
            if v == (1 << 128) - 1:
                return "all-ones"
            n = v.bit_length()
            return "2^k" if v & (v - 1) == 0 else ("len<=64" if n <= 64 else "len65-127" if n < 128 else "len128")
        if tok.startswith("x"):
            v = int(tok[1:], 16)
            if v == 0:
                return "w0"
            n = v.bit_length()
            return "w2^k" if v & (v - 1) == 0 else ("wlen<=32" if n <= 32 else "wlen33-63" if n < 64 else "wlen64")
        v = int(tok)
        return "n<0" if v < 0 else "n0-63" if v < 64 else "n64-127" if v < 128 else "n>=128"
    except ValueError:
        return "?"


_OPND = {}


def _op_tag(line, out):
    f = line.split(" ")
    if len(f) < 2:
        return None
    # operand-magnitude distribution of the generator (evidence only): one count per (position, class)
    for k, tok in enumerate(f[2:4]):
        key = "opnd%d:%s" % (k + 1, _bucket(tok))
        _OPND[key] = _OPND.get(key, 0) + 1
    t = "op:" + f[0] + " " + f[1]
    if out.startswith("panic:"):
        t += " -> " + out
    return t


def _ops_reached(ctx):
    """Generator self-check and distribution evidence: the tag histogram carries one `op:<type> <method>` count per
    operation of the protocol (and one per panic class it produced); every operation must have been executed."""
    if ctx.replay or "harness" not in ctx.harness_bin:
        return
    ctx.extra["operand_classes"] = dict(sorted(_OPND.items()))
    missing = ["u " + o for o in U_OPS if ("op:u " + o) not in ctx.tags] + \
              ["i " + o for o in I_OPS if ("op:i " + o) not in ctx.tags]
    ctx.extra["ops_missing"] = missing
    ctx.rules.append("tag histogram `op:<type> <method>`: number of executed lines per operation of the protocol (%d "
                     "operations = every exported arithmetic/ordering/bit method, the constructors From64/FromUint64 and "
                     "the three exported limits); `-> panic:<class>` counts the panics by class" % (len(U_OPS) + len(I_OPS)))
    if missing:
        ctx.lean_problems.append("generator no longer reaches operations: " + ", ".join(missing))


# functions of the two anchored files that belong to C02 (conversions, text, JSON/YAML): not part of the census
_C02_FUNCS = re.compile(r"(Float|Big|String|Format|Scan|scanText|parseToBigInt|Marshal|Unmarshal|Rand|Int64$)")
_DIV_FAMILY = re.compile(r"^(Uint128|Int128)\.(Div|Mod|DivMod)(64)?$|^Uint128\.divmod128")


_HW_SITES = {
    "Uint128.Div": {"div": 1, "mod": 0, "panic": 1}, "Uint128.Div64": {"div": 2, "mod": 1, "panic": 1},
    "Uint128.DivMod": {"div": 1, "mod": 1, "panic": 1}, "Uint128.DivMod64": {"div": 2, "mod": 2, "panic": 1},
    "Uint128.Mod": {"div": 0, "mod": 1, "panic": 1}, "Uint128.Mod64": {"div": 0, "mod": 2, "panic": 1},
    "Uint128.divmod128by64": {"div": 2, "mod": 2, "panic": 0}, "Uint128.divmod128by128": {"div": 1, "mod": 1, "panic": 0},
}


def _census(ctx):
    """Evidence only (never an alarm): a census of the syntactically partial operations in the arithmetic / ordering /
    bit functions of uint128.go and int128.go of the working tree - machine divisions `/ % /= %=`, explicit `panic(`,
    index or slice expressions `[`, type assertions `.(` - per function.  The panic clause of the property is argued from
    'the only partial operations are the divisions of the division family' (Model/U128Hw.lean makes exactly those
    partial); this records, for the tree of this run, whether that premise still holds textually."""
    if ctx.replay:
        return
    census, outside = {}, []
    for fn, typ in (("uint128.go", "Uint128"), ("int128.go", "Int128")):
        path = os.path.join(ctx.repo, "xmath", "num", fn)
        if not os.path.exists(path):
            continue
        src = open(path, errors="replace").read()
        src = re.sub(r'"(?:[^"\\\n]|\\.)*"', '""', src)
        src = re.sub(r"//[^\n]*", "", src)
        for m in re.finditer(r"^func (?:\((\w+) \*?(\w+)\) )?(\w+)\([^\n]*\{\n(.*?)^\}", src, re.S | re.M):
            name = (m.group(2) + "." if m.group(2) else "") + m.group(3)
            if _C02_FUNCS.search(m.group(3)):
                continue
            body = m.group(4)
            c = {"div": len(re.findall(r"(?<![/*])/(?![/*=])|/=", body)), "mod": len(re.findall(r"%", body)),
                 "panic": body.count("panic("), "index": body.count("["), "assert": body.count(".(")}
            if any(c.values()):
                census[name] = c
                if not _DIV_FAMILY.match(name):
                    outside.append(name)
    ctx.extra["partial_ops_census"] = census
    # the sites Model/U128Hw.lean makes partial (hwDiv / hwMod / explicit divzero per function), for comparison
    ctx.extra["partial_ops_differ_from_model"] = sorted(
        k for k in set(census) | set(_HW_SITES)
        if {x: census.get(k, {}).get(x, 0) for x in ("div", "mod", "panic")} != _HW_SITES.get(k, {"div": 0, "mod": 0, "panic": 0})
        and not k.startswith("Int128."))
    ctx.extra["partial_ops_outside_division_family"] = outside
    ctx.rules.append("partial-operation census (evidence only): %d functions of the arithmetic surface contain a machine "
                     "division, an explicit panic, an index expression or a type assertion; outside the division family: %s"
                     % (len(census), ", ".join(outside) or "none"))


def _ssagen(ctx, repo):
    """Delete lean/Generated/SSA_Num.lean and regenerate it from the working tree `repo`."""
    if os.path.exists(SSA_OUT):
        os.remove(SSA_OUT)
    rc, out = core.sh(["go", "run", ".", repo, SSA_OUT], cwd=GOSSA, env=core.env_go(), timeout=600)
    if ctx is None:
        return rc == 0
    ctx.checker_cmds.append("cd gossa && go run . <repo> ../lean/Generated/SSA_Num.lean   (regenerate the Lean "
                            "definitions from the Go source)")
    if rc != 0 or not os.path.exists(SSA_OUT):
        ctx.lean_problems.append("ssagen could not translate xmath/num of the working tree: " + out[-400:])
        return False
    try:
        info = json.loads(out.strip().splitlines()[-1])
    except Exception:
        ctx.lean_problems.append("ssagen printed no summary: " + out[-200:])
        return False
    have = set(core.theorem_names(GEN_PROPS))
    ctx.extra["ssa_translated"] = info["translated"]
    ctx.extra["ssa_skipped"] = ["%s: %s" % (k["name"], k["reason"]) for k in info["skipped"]]
    ctx.extra["ssa_translated_without_theorem"] = [
        n for n in info["translated"] if "C01Gen.%s_eq" % n.replace(".", "_") not in have]
    import hashlib
    ctx.extra["ssa_sha1"] = hashlib.sha1(open(SSA_OUT, "rb").read()).hexdigest()
    ctx.rules.append("translator tie: %d functions of xmath/num regenerated from the source and proved equal to the "
                     "model (Props/C01Gen.lean), %d outside the fragment (listed with reasons in coverage.ssa_skipped)"
                     % (len(info["translated"]), len(info["skipped"])))
    return True


def _build_gen(ctx):
    """Build Props.C01Gen against the regenerated definitions, with a wall-clock limit: on a goal that is no longer
    provable `omega` can search for minutes, and a changed behaviour has to be reported within the tier's time budget.
    A failure or a timeout is reported as a proof that no longer checks (every theorem of the module counts as not
    discharged); the differential run then looks for a concrete failing input."""
    import signal
    import subprocess
    limit = 180 if ctx.tier == "quick" else 900   # a quiet machine needs 12-25 s, success or failure
    # The limit is a wall-clock stand-in for CPU time: on a machine shared with many other builds (load average far above
    # the core count) the same build is several times slower, and a regenerated Generated/Facts.lean of a concurrent check
    # of another property can make this build redo the whole model.  Scale the limit with the load (at most 5x), so that a
    # slow machine is not reported as a proof that no longer checks.
    try:
        over = os.getloadavg()[0] / float(os.cpu_count() or 16)
    except OSError:
        over = 1.0
    if over > 1.0:
        limit = int(limit * min(5.0, over * 2))
    ctx.extra["c01gen_limit_s"] = limit
    if os.environ.get("VERIF_C01GEN_LIMIT", "").isdigit():
        limit = int(os.environ["VERIF_C01GEN_LIMIT"])     # for testing the time-out path
    cmd = ["lake", "build", "Props.C01Gen"]
    ctx.checker_cmds.append("cd lean && " + " ".join(cmd))
    with open(os.path.join(core.VERIF, ".work", "lean.lock"), "w") as lk:
        fcntl.flock(lk, fcntl.LOCK_EX)
        p = subprocess.Popen(cmd, cwd=core.LEAN, stdout=subprocess.PIPE, stderr=subprocess.STDOUT, text=True,
                             errors="replace", start_new_session=True)
        try:
            out, _ = p.communicate(timeout=limit)
            rc = p.returncode
        except subprocess.TimeoutExpired:
            try:
                os.killpg(p.pid, signal.SIGKILL)
            except OSError:
                pass
            out, _ = p.communicate()
            rc = None
    if rc == 0:
        return True
    if rc is None:
        ctx.lean_problems.append("translator tie: the proofs of Props/C01Gen.lean about the definitions regenerated from "
                                 "the Go source did not finish within %d s (a regenerated definition is no longer "
                                 "provably the verified model)" % limit)
        print("# translator tie: Props/C01Gen.lean did not build within %d s against the regenerated definitions" % limit)
        return False
    errs = [l for l in out.splitlines() if "error" in l]
    _explain(ctx, errs)
    ctx.lean_problems.append("lake build Props.C01Gen failed: " + " | ".join(errs[:8]))
    return False


def _explain(ctx, errs):
    """Name the theorems of Props/C01Gen.lean whose proof failed (lake reports file positions)."""
    lines = set()
    for p in errs:
        for m in re.finditer(r"C01Gen\.lean:(\d+):", p):
            lines.add(int(m.group(1)))
    if not lines:
        return
    src = open(GEN_PROPS).read().split("\n")
    names = []
    for ln in sorted(lines):
        k = min(ln, len(src)) - 1
        while k >= 0 and not re.match(r"^(?:@\[[^\]]*\]\s*)?theorem\s+(\S+)", src[k]):
            k -= 1
        if k >= 0:
            n = re.match(r"^(?:@\[[^\]]*\]\s*)?theorem\s+(\S+)", src[k]).group(1)
            if n not in names:
                names.append(n)
    ctx.extra["c01gen_failed"] = names
    print("# translator tie: the Go source no longer translates to the verified model; failing: C01Gen."
          + ", C01Gen.".join(names))
    ctx.lean_problems.append("translator tie: the definition regenerated from the Go source is no longer proved equal to "
                             "the verified model: C01Gen." + ", C01Gen.".join(names))


def _paths(ctx):
    """Second pass (coverage evidence only): which division path / correction branch the generated unsigned division
    lines exercise, PER ENTRY POINT (Div, Mod, DivMod and the three ...64 forms are six separate copies of the dispatch
    in the source; each copy has to reach each path).  The driver's `u path` / `u path64` ops recompute the dispatch
    decisions of the model; the tag is `<entry point>:<path>`."""
    import re
    if ctx.replay or "harness" not in ctx.harness_bin:
        return
    n = 200000 if ctx.tier == "quick" else 2000000
    lines = ctx.gen("int128", ctx.seed * 1000003, n)   # same stream as the first shard(s) of the diff run
    lines = ctx.corpus("int128") + lines
    rx = re.compile(r"^u (div|mod|divmod)(64)? ")
    ops, plines = [], []
    for l in lines:
        m = rx.match(l)
        if m:
            ops.append(m.group(1) + (m.group(2) or ""))
            plines.append(rx.sub("u path64 " if m.group(2) else "u path ", l))
    outs = ctx.run_model("drv_c01", plines)
    if outs is None:
        ctx.lean_problems.append("path pass of drv_c01 failed")
        return
    for op, o in zip(ops, outs):
        t = re.sub(r"shift=\d+", lambda m: "shift=" + ("0" if m.group(0) == "shift=0" else "1..16"), o)
        t = op + ":" + t.split(":", 1)[1] if ":" in t else op + ":" + t
        ctx.tags[t] = ctx.tags.get(t, 0) + 1
    ctx.rules.append("tag histogram: path pass over the %d unsigned division lines of the corpus and a %d-line stream, "
                     "per entry point (dispatch path; l1/l2 = number of corrections in loop1/loop2 of divmod128by64; "
                     "corr/nocorr = final correction of divmod128by128; dec = estimate decremented)" % (len(plines), n))
    need128 = ["bin", "by1", "pow2", "u64", "lt", "eq", "panic", "by64lo", "by64hi", "by128,corr", "by128,nocorr",
               "l1=1", "l1=2", "l2=1", "l2=2"]
    need64 = ["bin", "by1", "pow2", "u64", "panic", "by64lo", "by64hi", "l1=1", "l1=2", "l2=1", "l2=2"]
    missing = []
    for op, need in (("div", need128), ("mod", need128), ("divmod", need128),
                     ("div64", need64), ("mod64", need64), ("divmod64", need64)):
        mine = [t[len(op) + 1:] for t in ctx.tags if t.startswith(op + ":")]
        missing += [op + ":" + k for k in need if not any(k in t for t in mine)]
    ctx.extra["division_paths_missing"] = missing
    # A self-check of the generator, not a property of the code: a tree with another (behaviour-preserving) value of
    # divBinaryShiftThreshold legitimately has other reachable paths, so it only fails the run on the reference tree.
    if missing and ctx.repo == "/repo":
        ctx.lean_problems.append("generator no longer reaches division paths: " + ", ".join(missing))
