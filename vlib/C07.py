"""C07 — quadtree queries = linear scan: Lean model `Model/QuadTree.lean` (generic over the rectangle operations,
run at Geom.Rect Int and Geom.Rect Rat), theorems `Props/C07.lean` resting on C18's rectangle laws."""


def run(ctx):
    ctx.modelled += [
        "a stored node is (id, rect): identity is Go's comparable pointer, Bounds() is constant while stored "
        "(the contract the package documents); the same object inserted twice is two entries",
        "float64 coordinates are exact rationals (inputs are dyadic rationals k/2^j, j<=3, |k|<=2^20, for which the "
        "halvings and sums of splitIfNeeded / Union are exact in float64); int overflow is outside the model",
        "the recursion insert -> splitIfNeeded -> insert is fuelled (fuel 200 in the driver); the driver answers "
        "`out-of-fuel` if any node reaches that depth, which is a mismatch against a live implementation, and an "
        "implementation that dies (stack overflow) against a model answer is a mismatch too",
        "query results are compared as sorted id lists (order of the returned slice is not part of the property)",
        "the sixteen query methods are instances of two generic traversals (Node.find / Node.any) with the pruning "
        "test and the item test of the respective Go function",
    ]
    ctx.lean(props=["Props.C07"], drivers=["drv_c07"])
    ctx.harness("./cmd/c07")
    ctx.diff(area="quadtree", driver="drv_c07", n={"quick": 200000, "thorough": 3000000}, stateful=True,
             trivial=lambda l, o: o == "ok",
             tagger=lambda l, o: l.split()[0] if not l.startswith("reset") else "reset " + " ".join(l.split()[1:]),
             theorem="C07.abs_run / size_run / find_eq_filter / bool_iff_find_nonempty (model = linear scan); "
                     "impl != model on this history")
