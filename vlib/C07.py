"""C07 — quadtree queries = linear scan: Lean model `Model/QuadTree.lean` (generic over the rectangle operations,
run at Geom.Rect Int and Geom.Rect Rat), theorems `Props/C07.lean` resting on C18's rectangle laws."""

import json
from concurrent.futures import ThreadPoolExecutor


def _oracle(ctx, area, n, label):
    """Like ctx.impl_oracle, but the hand-written corpus lines of the area run first (and a replay of this area is
    re-run)."""
    if "harness" not in ctx.harness_bin:
        return
    if ctx.replay:
        rep = json.load(open(ctx.replay))
        if rep.get("area") != area:
            return
        outs = ctx.run_impl(area, rep["ops"]) or []
        ctx.evals += len(rep["ops"])
        for l, o in zip(rep["ops"], outs):
            print("replay: %s -> %s" % (l[:120], o[:300]))
            if not o.startswith("ok"):
                ctx.violations.append({"kind": "impl-oracle", "what": "replay still fails: " + o[:200],
                                       "replay": ctx.replay, "concrete": True})
        return
    total = n[ctx.tier] if isinstance(n, dict) else n
    lines = ctx.corpus(area) + ctx.gen(area, ctx.seed * 7919 + 17, total)
    k = 14
    chunks = [lines[i::k] for i in range(k)]
    with ThreadPoolExecutor(max_workers=k) as ex:
        res = list(ex.map(lambda c: ctx.run_impl(area, c, timeout=1200) if c else [], chunks))
    if any(r is None for r in res):
        return
    lines = [l for c in chunks for l in c]
    outs = [o for r in res for o in r]
    ctx.rules.append("area %s (%s): implementation-side oracle, no Lean model; one line = one whole history; counted "
                     "separately (oracle_%s = histories, oracle_%s_checks = query comparisons)" % (area, label, area, area))
    bad = 0
    key = "oracle_" + area
    for l, o in zip(lines, outs):
        ctx.extra[key] = ctx.extra.get(key, 0) + 1
        if o.startswith("ok"):
            for w in o.split()[1:]:
                if w.isdigit():
                    ctx.extra[key + "_checks"] = ctx.extra.get(key + "_checks", 0) + int(w)
                else:
                    ctx.extra[key + "_" + w] = ctx.extra.get(key + "_" + w, 0) + 1
            if len(ctx.samples) < 16 and ctx.extra[key] % 2000 == 1:
                ctx.samples.append({"area": area, "op": l[:200], "oracle": o[:200]})
            continue
        if o == "skipped-after-crash":
            continue
        known = ctx._known_match(area, l, [l])
        if known:
            ctx.known_hits.append(known)
            continue
        bad += 1
        if bad <= 3:
            rep = {"property": ctx.id, "kind": "impl-oracle", "area": area, "harness": "harness", "ops": [l],
                   "impl_outputs": [o], "concrete_failing_input": True, "note": label}
            ctx.violations.append({"kind": "impl-oracle", "what": "%s: %s on `%s`" % (area, o[:300], l[:200]),
                                   "replay": ctx._write_replay(rep), "concrete": True})


_FAM = ["ContainsPoint", "MatchedContainsPoint", "Intersects", "MatchedIntersects", "ContainsRect", "MatchedContainsRect",
        "ContainedByRect", "MatchedContainedByRect"]
_SEP = {}


def _sep(o):
    """Audit 7 / M3: the model has two generic traversals for the sixteen Go query functions, so which predicate pair
    each function uses is tied by the stream alone.  For every probe line (model output: 8 pairs `bool ids`) count, for
    every pair of families, whether their Find* lists differ and whether their boolean answers differ: a slip that gives
    one function the predicate pair of another shows exactly on those lines.  The counts go into the evidence
    (query_separation); every one of the 2 x 28 pairs must be hit (the corpus quadtree.sixteen.ops guarantees it)."""
    w = o.split()
    if len(w) != 16 or any(x not in ("T", "F") for x in w[0::2]):
        return
    for a in range(8):
        for b in range(a + 1, 8):
            if w[2 * a + 1] != w[2 * b + 1]:
                k = "Find%s|Find%s" % (_FAM[a], _FAM[b])
                _SEP[k] = _SEP.get(k, 0) + 1
            if w[2 * a] != w[2 * b]:
                k = "%s|%s" % (_FAM[a], _FAM[b])
                _SEP[k] = _SEP.get(k, 0) + 1


class _Tagger:
    """Classifies every line of the quadtree stream by its role in its history (the distribution goes into the
    evidence as `tags`): what the generator actually produced, judged from the lines alone."""

    def __init__(self):
        self.rect = {}
        self.stored = {}

    def __call__(self, l, o):
        w = l.split()
        if not w:
            return None
        if w[0] == "reset":
            self.rect, self.stored = {}, {}
            return "reset " + " ".join(w[1:])
        if o == "contract":
            return "contract-skip"
        if w[0] in ("ins", "rm") and len(w) == 6:
            i, r = w[1], tuple(w[2:])
            moved = i in self.rect and self.rect[i] != r
            self.rect[i] = r
            have = self.stored.get(i, 0)
            if w[0] == "ins":
                if r[2].startswith("-") or r[3].startswith("-") or r[2] in ("0", "0/1") or r[3] in ("0", "0/1"):
                    return "ins empty-bounds"
                self.stored[i] = have + 1
                if moved:
                    return "ins same-object-new-bounds"
                return "ins duplicate-of-stored" if have else "ins"
            if have:
                self.stored[i] = have - 1
                return "rm one-of-duplicates" if have > 1 else "rm"
            return "rm absent-new-bounds" if moved else "rm absent"
        if w[0] == "clear":
            self.stored = {}
        if w[0] == "probe":
            _sep(o)
            hits = o.split()[1::2]
            return "probe all-empty" if all(h == "-" for h in hits) else "probe"
        return w[0]


class _WrapTagger:
    """Classifies the lines of the machine-integer stream by the domain of the transfer theorems: `box` = inside
    [-2^60, 2^60]^2 (C07.int64_run / int64_queries / int64_linear_scan apply to the history so far), `beyond` = outside
    the box but no X+Width / Y+Height leaves int64, `wraps` = a stored rectangle wraps."""
    B = 1 << 60
    LIM = 1 << 63

    def __init__(self):
        self.cls = "box"

    def kind(self, x, y, w, h):
        if w <= 0 or h <= 0:
            return "empty"
        if not (-self.LIM <= x + w < self.LIM and -self.LIM <= y + h < self.LIM):
            return "wraps"
        if -self.B <= x and x + w <= self.B and -self.B <= y and y + h <= self.B:
            return "box"
        return "beyond"

    def __call__(self, l, o):
        w = l.split()
        if not w:
            return None
        if w[0] == "reset":
            self.cls = "box"
            return "w reset"
        if w[0] == "ins" and len(w) == 6:
            k = self.kind(*[int(v) for v in w[2:]])
            order = ["empty", "box", "beyond", "wraps"]
            if order.index(k) > order.index(self.cls):
                self.cls = k
            return "w ins " + k
        if w[0] == "probe" and len(w) == 9:
            _sep(o)
            q = self.kind(*[int(v) for v in w[3:7]])
            return "w probe history-in-%s query-%s" % (self.cls, "safe" if q != "wraps" else "wraps")
        return "w " + w[0]


def run(ctx):
    ctx.modelled += [
        "a stored node is (id, rect): identity is Go's comparable pointer, Bounds() is constant while stored "
        "(the contract the package documents); the same object inserted twice is two entries",
        "in the `f` histories float64 coordinates are exact rationals (inputs are dyadic rationals k/2^j, j<=3, |k|<=2^20, "
        "for which the halvings and sums of splitIfNeeded / Union are exact in float64) and in the `i` histories ints are "
        "unbounded; int wrap-around and float rounding are INSIDE the model in the `w` (Int64) and `d` (IEEE double) "
        "histories",
        "the recursion insert -> splitIfNeeded -> insert is fuelled (fuel 200 in the driver, 2300 for doubles); the driver answers "
        "`out-of-fuel` if any node reaches that depth, which is a mismatch against a live implementation, and an "
        "implementation that dies (stack overflow) against a model answer is a mismatch too",
        "query results are compared as sorted id lists (order of the returned slice is not part of the property)",
        "matchers that panic (string, error, runtime error, nil pointer, nil) or answer inconsistently are exercised "
        "by `pprobe` lines: what such a call returns is not judged (the property does not fix the order in which a "
        "matcher is consulted) except that matched answers stay within the unmatched ones; judged is that the tree is "
        "unharmed (the `state` line and probes that follow). Slices returned by All/Find* are overwritten by the "
        "harness after use (aliasing would show as ALIASED or in later lines)",
        "Threshold is set in mid-history to 0, +-1, negative, MinInt, 3, 4, 5, 7, 10, 12, 63..65 and MaxInt; int "
        "coordinates go up to 2^60 (huge root above unit squares, 60 levels) but never so far that X+Width leaves "
        "int64; a watchdog ends the harness when one operation runs for more than 10 s",
        "Go int is modelled twice from the same transcription (QT.geomOps): at unbounded Int (the theorems) and at core "
        "Lean's Int64 (QT.instI64, `reset w` histories: wrapping arithmetic exactly as compiled Go); the two are tied by "
        "the simulation theorem C07.int64_run",
        "MinQuadTreeThreshold / DefaultQuadTreeThreshold are not copied into the model: Tree.thr reads them from "
        "Generated/Facts.lean, which factgen writes from the repository on every run",
        "the sixteen query methods are instances of two generic traversals (Node.find / Node.any) with the pruning "
        "test and the item test of the respective Go function",
    ]
    ctx.assumptions += [
        "floating-point coordinates: the exact theorems (find*_eq_filter at Rat) cover every float64 history on which the "
        "unions/halvings/sums of the quadtree are exact (dyadic inputs; there the guard of Reorganize is always true, "
        "C07.reorganize_guard_exact). Under ROUNDING: C07.abs_run_machine proves Size/All for the IEEE-double instance "
        "QT.instF64 itself (no law of the arithmetic is needed); C07.queries_any_arithmetic / _matched / "
        "queries_hist_any_arithmetic prove the queries for ANY coordinate type with arbitrary +, -, min, max whose <= and < "
        "satisfy the three transitivity laws QT.OrdLaws (no antisymmetry, no totality: geom's predicates only compare the "
        "computed X, Y, Right(), Bottom()): point and intersection queries unconditionally, FindContainsRect when the "
        "(non-empty) query has X < Right() and Y < Bottom() as computed, FindContainedByRect when the stored rectangles "
        "have; C07.queries_float64 is that statement about the Float instance the driver runs. Assumed: OrdLaws Float "
        "(IEEE-754 comparisons are transitive in this sense for all doubles, NaN and signed zeros included; Lean's Float "
        "is opaque to the logic), and that core Lean's Float computes like Go's float64 - the latter is what area "
        "`quadfloat` checks line by line (histories over non-dyadic floats, probes at and one ulp around the "
        "right/bottom edges, plus the exact histories of area quadtree once more through the Float instance). "
        "Independent of any model, the implementation-side oracle `floatscan` compares Size/All and all 16 queries "
        "after every mutation with a linear scan using the library's own geom predicates on the same float values",
        "floatscan judged domain: every history whose STORED rectangles all have a representable point (sizes down "
        "to one ulp of the coordinate, magnitudes 1e-12 .. 1e16 are generated). A rectangle whose positive "
        "width/height is absorbed by rounding (fl(X+Width) == X) is non-Empty and Contains itself although nothing "
        "Intersects it, so the Intersects-based pruning of ContainsRect/ContainedByRect loses it: KNOWN FINDING, its "
        "three inputs run on every check from corpus/C07/floatscan.known-absorbed-width.ops and are matched against "
        "known_findings.json (any other failing history is a VIOLATION); probe rectangles derived by the harness "
        "are dropped when absorbed",
    ]
    ctx.assumptions += [
        "integer domain of the theorems: abs_run, find*_eq_filter, fuel_* are about unbounded integers (QT.instInt), Go int "
        "wraps. The model at machine integers QT.instI64 (core Lean's Int64: wrapping + and -, truncating /2, signed "
        "comparisons; the same transcription) carries them over BY THEOREM: C07.int64_safe_linear_scan - every history "
        "in which no stored and no query rectangle wraps (X+Width, Y+Height within int64; anywhere in the range, union "
        "wider than 2^63 included): the four Find* = linear scan with the mathematical predicates; "
        "C07.queries_int64_everywhere - every history whatsoever: point and intersection queries = linear scan with "
        "the machine's predicates, containment queries as long as the query / the stored rectangles do not wrap; "
        "C07.abs_run_machine - Size/All for every history; C07.int64_run / int64_queries inside the box "
        "[-2^60, 2^60]^2 - the machine tree is node for node the Int64.toInt image of the unbounded tree and all 16 "
        "queries answer alike (no Right(), Bottom(), Union or quadrant computation wraps, the hw x hw child 0 included). "
        "What remains assumed is that Go's int arithmetic is Int64's (two's complement, 64-bit platform) - and that is "
        "what area `quadwrap` checks: the Int64 model against QuadTree[int] line by line, on the int histories of area "
        "quadtree and on histories at the ends of the int64 range. A rectangle whose X+Width leaves int64 makes geom's "
        "Contains/Intersects mutually inconsistent, so the pruned containment queries disagree with the scan: KNOWN "
        "FINDING by specific histories (corpus/C07/intwrap.known-wrap.ops, op word iws, matched against "
        "known_findings.json; the same two inputs are the Lean theorems C07.int64_box_needed / "
        "int64_stored_wrap_needed about the Int64 model); generated histories of that class are counted by the "
        "implementation-side oracle `intwrap` (code = linear scan with the library's predicates, these cross-checked "
        "against math/big; oracle_intwrap_wrap-mismatch / wrap-agree) and quadwrap compares only Size/All there (probes "
        "are not translated while a wrapping rectangle is stored or probed)",
        "fuel: fuel_suffices_int_log / fuel_irrelevant_int (sides of the box <= 2^j: depth <= j+1 after every prefix, and "
        "every fuel above j+1 builds the same tree) cover every int history that is run (box +-2^60, j = 61, driver fuel "
        "200), int64_fuel_suffices the machine-integer histories inside the box; fuel_suffices_rat bounds the depth of "
        "every exact-rational history by j whenever box width < smallest item width * 2^j, fuel_irrelevant_rat makes "
        "the fuel unobservable there; the IEEE-double histories run with fuel 2300 (halving a double reaches 0 after about 2100 levels) "
        "and have no a-priori bound. In every case the driver tests Tree.fuelOK after every line (out-of-fuel against a "
        "live implementation is a mismatch) and C07.fuel_test_sound makes that test sound for every instance: if it "
        "passes after every prefix the run equals the run with any larger fuel",
        "contract: abs_run ... find*_eq_filter fix ONE bounds function per history (OpOK); the package only demands that "
        "Bounds() stays the same WHILE a node is stored, and abs_run_hist / queries_hist / threshold_reorganize_invisible "
        "are stated under that history-dependent contract (HistOK; OpOK is the special case hist_of_opOK). The harness "
        "gives objects that are not stored other bounds now and then (tag `ins same-object-new-bounds`); a history cut "
        "down by the minimiser that breaks the contract answers `contract` on both sides. That the contract is needed is "
        "C07.contract_needed",
    ]
    ctx.lean(props=["Props.C07"], drivers=["drv_c07"])
    ctx.harness("./cmd/c07")
    ctx.diff(area="quadtree", driver="drv_c07", n={"quick": 150000, "thorough": 3000000}, stateful=True, timeout=300,
             trivial=lambda l, o: o == "ok",
             tagger=_Tagger(),
             theorem="C07.abs_run / size_run / find_eq_filter / bool_iff_find_nonempty (model = linear scan); "
                     "impl != model on this history")
    ctx.diff(area="quadwrap", driver="drv_c07", n={"quick": 80000, "thorough": 800000}, stateful=True, timeout=300,
             trivial=lambda l, o: o == "ok", tagger=_WrapTagger(),
             theorem="model at machine integers (QT.instI64 = geom/quadtree transcription at Int64, wrapping like Go int) "
                     "!= impl on this history; inside the +-2^60 box C07.int64_* carries the linear-scan theorems over")
    ctx.diff(area="quadfloat", driver="drv_c07", n={"quick": 80000, "thorough": 800000}, stateful=True, timeout=300,
             trivial=lambda l, o: o == "ok",
             tagger=lambda l, o: (_sep(o) if l.startswith("probe") else None) or
             "d " + (l.split()[0] if not (l.startswith("probe") and all(h == "-" for h in o.split()[1::2]))
                     else "probe all-empty"),
             theorem="model at IEEE doubles (QT.instF64 = geom/quadtree transcription at core Lean's Float, rounding like "
                     "Go float64; Size/All: C07.abs_run_machine, queries: C07.queries_any_arithmetic for an abstract rounded "
                     "arithmetic) != impl on this history (non-dyadic floats, or an exact dyadic history of area quadtree)")
    if _SEP:
        want = ["%s%s|%s%s" % (pre, _FAM[a], pre, _FAM[b]) for pre in ("Find", "") for a in range(8) for b in range(a + 1, 8)]
        ctx.extra["query_separation"] = {k: _SEP.get(k, 0) for k in want}
        ctx.extra["query_separation_min"] = min(ctx.extra["query_separation"].values())
        ctx.rules.append("query_separation: number of probe lines on which two of the 16 query functions give different "
                         "answers (lists for the Find* functions, truth values for the boolean ones), per pair; a function "
                         "that used another function's predicate pair would differ from the model on those lines")
        missing = [k for k in want if not _SEP.get(k)]
        if missing and not ctx.replay:
            ctx.violations.append({"kind": "coverage", "concrete": False,
                                   "what": "the stream no longer separates the query functions " + ", ".join(missing[:6])})
    _oracle(ctx, "floatscan", {"quick": 6000, "thorough": 150000},
            "quadtree vs linear scan with the library's geom predicates on rounding float64 coordinates")
    _oracle(ctx, "intwrap", {"quick": 20000, "thorough": 400000},
            "QuadTree[int] at the ends of the int64 range vs linear scan with the library's geom predicates "
            "(cross-checked against unbounded-integer arithmetic)")
