"""C07 — quadtree queries = linear scan: Lean model `Model/QuadTree.lean` (generic over the rectangle operations,
run at Geom.Rect Int and Geom.Rect Rat), theorems `Props/C07.lean` resting on C18's rectangle laws."""

import json
from concurrent.futures import ThreadPoolExecutor


def _oracle(ctx, area, n, label):
    """Like ctx.impl_oracle, but the hand-written corpus lines of the area run first (and a replay of this area is
    re-run)."""
    if "harness" not in ctx.harness_bin:
        return
    if ctx.replay:
        rep = json.load(open(ctx.replay))
        if rep.get("area") != area:
            return
        outs = ctx.run_impl(area, rep["ops"]) or []
        ctx.evals += len(rep["ops"])
        for l, o in zip(rep["ops"], outs):
            print("replay: %s -> %s" % (l[:120], o[:300]))
            if not o.startswith("ok"):
                ctx.violations.append({"kind": "impl-oracle", "what": "replay still fails: " + o[:200],
                                       "replay": ctx.replay, "concrete": True})
        return
    total = n[ctx.tier] if isinstance(n, dict) else n
    lines = ctx.corpus(area) + ctx.gen(area, ctx.seed * 7919 + 17, total)
    k = 14
    chunks = [lines[i::k] for i in range(k)]
    with ThreadPoolExecutor(max_workers=k) as ex:
        res = list(ex.map(lambda c: ctx.run_impl(area, c, timeout=300) if c else [], chunks))
    if any(r is None for r in res):
        return
    lines = [l for c in chunks for l in c]
    outs = [o for r in res for o in r]
    ctx.rules.append("area %s (%s): implementation-side oracle, no Lean model; one line = one whole history; counted "
                     "separately (oracle_%s = histories, oracle_%s_checks = query comparisons)" % (area, label, area, area))
    bad = 0
    key = "oracle_" + area
    for l, o in zip(lines, outs):
        ctx.extra[key] = ctx.extra.get(key, 0) + 1
        if o.startswith("ok"):
            for w in o.split()[1:]:
                if w.isdigit():
                    ctx.extra[key + "_checks"] = ctx.extra.get(key + "_checks", 0) + int(w)
                else:
                    ctx.extra[key + "_" + w] = ctx.extra.get(key + "_" + w, 0) + 1
            if len(ctx.samples) < 16 and ctx.extra[key] % 2000 == 1:
                ctx.samples.append({"area": area, "op": l[:200], "oracle": o[:200]})
            continue
        if o == "skipped-after-crash":
            continue
        known = ctx._known_match(area, l, [l])
        if known:
            ctx.known_hits.append(known)
            continue
        bad += 1
        if bad <= 3:
            rep = {"property": ctx.id, "kind": "impl-oracle", "area": area, "harness": "harness", "ops": [l],
                   "impl_outputs": [o], "concrete_failing_input": True, "note": label}
            ctx.violations.append({"kind": "impl-oracle", "what": "%s: %s on `%s`" % (area, o[:300], l[:200]),
                                   "replay": ctx._write_replay(rep), "concrete": True})


class _Tagger:
    """Classifies every line of the quadtree stream by its role in its history (the distribution goes into the
    evidence as `tags`): what the generator actually produced, judged from the lines alone."""

    def __init__(self):
        self.rect = {}
        self.stored = {}

    def __call__(self, l, o):
        w = l.split()
        if not w:
            return None
        if w[0] == "reset":
            self.rect, self.stored = {}, {}
            return "reset " + " ".join(w[1:])
        if o == "contract":
            return "contract-skip"
        if w[0] in ("ins", "rm") and len(w) == 6:
            i, r = w[1], tuple(w[2:])
            moved = i in self.rect and self.rect[i] != r
            self.rect[i] = r
            have = self.stored.get(i, 0)
            if w[0] == "ins":
                if r[2].startswith("-") or r[3].startswith("-") or r[2] in ("0", "0/1") or r[3] in ("0", "0/1"):
                    return "ins empty-bounds"
                self.stored[i] = have + 1
                if moved:
                    return "ins same-object-new-bounds"
                return "ins duplicate-of-stored" if have else "ins"
            if have:
                self.stored[i] = have - 1
                return "rm one-of-duplicates" if have > 1 else "rm"
            return "rm absent-new-bounds" if moved else "rm absent"
        if w[0] == "clear":
            self.stored = {}
        if w[0] == "probe":
            hits = o.split()[1::2]
            return "probe all-empty" if all(h == "-" for h in hits) else "probe"
        return w[0]


def run(ctx):
    ctx.modelled += [
        "a stored node is (id, rect): identity is Go's comparable pointer, Bounds() is constant while stored "
        "(the contract the package documents); the same object inserted twice is two entries",
        "float64 coordinates are exact rationals (inputs are dyadic rationals k/2^j, j<=3, |k|<=2^20, for which the "
        "halvings and sums of splitIfNeeded / Union are exact in float64); int overflow is outside the model",
        "the recursion insert -> splitIfNeeded -> insert is fuelled (fuel 200 in the driver); the driver answers "
        "`out-of-fuel` if any node reaches that depth, which is a mismatch against a live implementation, and an "
        "implementation that dies (stack overflow) against a model answer is a mismatch too",
        "query results are compared as sorted id lists (order of the returned slice is not part of the property)",
        "matchers that panic (string, error, runtime error, nil pointer, nil) or answer inconsistently are exercised "
        "by `pprobe` lines: what such a call returns is not judged (the property does not fix the order in which a "
        "matcher is consulted) except that matched answers stay within the unmatched ones; judged is that the tree is "
        "unharmed (the `state` line and probes that follow). Slices returned by All/Find* are overwritten by the "
        "harness after use (aliasing would show as ALIASED or in later lines)",
        "Threshold is set in mid-history to 0, +-1, negative, MinInt, 3, 4, 5, 7, 10, 12, 63..65 and MaxInt; int "
        "coordinates go up to 2^60 (huge root above unit squares, 60 levels) but never so far that X+Width leaves "
        "int64; a watchdog ends the harness when one operation runs for more than 10 s",
        "the sixteen query methods are instances of two generic traversals (Node.find / Node.any) with the pruning "
        "test and the item test of the respective Go function",
    ]
    ctx.assumptions += [
        "the Lean model computes in exact arithmetic (Int, Rat): its theorems cover int coordinates and every float64 "
        "history on which the unions/halvings/sums of the quadtree are exact; they do NOT cover float rounding (in "
        "exact arithmetic the guard of Reorganize is always true, C07.reorganize_guard_exact, whereas a rounded union "
        "can leave a node sticking out of the root by an ulp). The evidence for the 'floating-point coordinates "
        "(whole or fractional)' clause under rounding is the implementation-side oracle area `floatscan`: histories "
        "over non-dyadic float64 rectangles, after every mutation Size/All and all 16 queries are compared with a "
        "linear scan using the library's own geom predicates on the same float values, probed at and one ulp around "
        "the right/bottom edges of the stored rectangles and of their union",
        "floatscan judged domain: every history whose STORED rectangles all have a representable point (sizes down "
        "to one ulp of the coordinate, magnitudes 1e-12 .. 1e16 are generated). A rectangle whose positive "
        "width/height is absorbed by rounding (fl(X+Width) == X) is non-Empty and Contains itself although nothing "
        "Intersects it, so the Intersects-based pruning of ContainsRect/ContainedByRect loses it: KNOWN FINDING, its "
        "three inputs run on every check from corpus/C07/floatscan.known-absorbed-width.ops and are matched against "
        "known_findings.json (any other failing history is a VIOLATION); probe rectangles derived by the harness "
        "are dropped when absorbed",
    ]
    ctx.assumptions += [
        "integer domain of the theorems: the model computes in unbounded integers, Go int wraps. The theorems (abs_run, "
        "find*_eq_filter, fuel_*) transfer to Go for histories in which every value the source computes stays within "
        "int64: every stored and query rectangle has X+Width and Y+Height within int64 AND the union of the stored "
        "rectangles is narrower than 2^63 on both axes. Outside that domain the evidence is the implementation-side "
        "oracle `intwrap` (linear scan with the library's predicates, these cross-checked against math/big): "
        "histories where no rectangle wraps are judged strictly, also when the union is wider than 2^63 (the root "
        "computed by Reorganize then wraps to an Empty rectangle and the Contains guard keeps everything in the "
        "scanned outside list); a rectangle whose X+Width leaves int64 makes geom's Contains/Intersects mutually "
        "inconsistent, so the pruned queries disagree with the scan: KNOWN FINDING by specific histories "
        "(corpus/C07/intwrap.known-wrap.ops, op word iws, matched against known_findings.json); generated "
        "histories of that class are counted (oracle_intwrap_wrap-mismatch / wrap-agree), not alarmed",
        "fuel: fuel_suffices_int needs a box with W+H < fuel; the driver's fuel is 200 while int histories contain "
        "squares up to 2^60, so for the histories actually run the theorem does not apply and the run-time test "
        "Tree.fuelOK (out-of-fuel = mismatch) is the guard; the real depth is logarithmic. For Rat, "
        "split_depth_rat / reorganize_depth_rat bound the depth by k whenever root width < smallest item width * "
        "2^k (node level and one Reorganize; not lifted to whole histories, no fuel-independence theorem for Rat)",
        "OpOK fixes ONE bounds function for the whole history: a node id cannot be removed, given other bounds and "
        "re-inserted under the same id (the package allows that for a node that is not stored); the harness "
        "enforces the same restriction, so that pattern is not exercised - it is covered only up to renaming ids",
    ]
    ctx.lean(props=["Props.C07"], drivers=["drv_c07"])
    ctx.harness("./cmd/c07")
    ctx.diff(area="quadtree", driver="drv_c07", n={"quick": 150000, "thorough": 3000000}, stateful=True, timeout=300,
             trivial=lambda l, o: o == "ok",
             tagger=_Tagger(),
             theorem="C07.abs_run / size_run / find_eq_filter / bool_iff_find_nonempty (model = linear scan); "
                     "impl != model on this history")
    _oracle(ctx, "floatscan", {"quick": 6000, "thorough": 300000},
            "quadtree vs linear scan with the library's geom predicates on rounding float64 coordinates")
    _oracle(ctx, "intwrap", {"quick": 20000, "thorough": 600000},
            "QuadTree[int] at the ends of the int64 range vs linear scan with the library's geom predicates "
            "(cross-checked against unbounded-integer arithmetic)")
