"""C16 — rate limiter: Lean transition system `RL.Step` / scheduler `RL.exec` (Model/RateLimiter.lean),
theorems Props/C16.lean.

Tie (a) `burst`: lock-step histories.  Every history owns a limiter tree whose ticker has a long period; the harness
calls the API in bursts between two observed ticks (a white-box sentinel request on a detached closed dummy limiter,
injected by go/overlay/c16_rate_hook.go, marks "the tick has been served"; a burst that is not certainly inside its
period is output as `inconclusive` and does not count).  The driver replays the same calls on `RL.exec`.
After every call the harness also prints the whole private state of the tree (go/overlay/c16_rate_dump.go) and the driver
the model's; three build levels (hooks + dump / hooks only / black box), see `_build`.
Tie (b) `stress`: Close-vs-tick stress with microsecond periods, judged by the harness, every line in a child process."""

import re

OVERLAY = {"rate/zz_verif_c16_hook.go": "c16_rate_hook.go"}
# the state dump names more private fields than the hooks do: it is a separate overlay file with a fallback of its own
OVERLAY_DUMP = {"rate/zz_verif_c16_hook.go": "c16_rate_hook.go", "rate/zz_verif_c16_dump.go": "c16_rate_dump.go"}
_ERR = re.compile(r"err-(neg|cap|closed|other)")


def _canon(out):
    """The property constrains nil / error, not which error a request gets nor its text (the harness has to read the
    class off the message): all error classes are compared as `err`."""
    return _ERR.sub("err", out)


def _race_stress(ctx):
    """A small part of the Close-vs-tick stress (with the concurrent Cap / LastUsed / Closed / SetCap callers) under the
    race detector: a data race inside the package kills the child process, which the parent reports as FAIL."""
    if ctx.replay or "harness" not in ctx.harness_bin:
        return
    if not ctx.harness("./cmd/c16", name="harness_race", race=True, tags="verif nodump", overlay=OVERLAY):
        return
    n = 16 if ctx.tier == "quick" else 120
    lines = [re.sub(r" \d+$", " 12", l) for l in ctx.gen("stress", ctx.seed * 7919 + 23, n)]
    outs = ctx.run_impl("stress", lines, name="harness_race", timeout=900, extra_env={"C16_STRESS_PAR": "8"}) or []
    ctx.rules.append("area stress under -race: %d configurations x 12 attempts, implementation-side oracle" % len(lines))
    for l, o in zip(lines, outs):
        ctx.extra["oracle_stress_race"] = ctx.extra.get("oracle_stress_race", 0) + 1
        if not o.startswith("ok"):
            rep = {"property": ctx.id, "kind": "impl-oracle", "area": "stress", "harness": "harness_race", "ops": [l],
                   "impl_outputs": [o], "concrete_failing_input": True,
                   "note": "Close-vs-tick stress built with -race (a dying child process = race detector report or crash)"}
            ctx.violations.append({"kind": "impl-oracle", "what": "stress (-race): %s on `%s`" % (o[:200], l),
                                   "replay": ctx._write_replay(rep), "concrete": True})
            break


def _mask_inconclusive(ctx):
    """A line the harness declared inconclusive (timing) must not count on either side: the model's output for such a
    line is replaced by the same token.  (core.diff canonicalises line by line, so the pairing is done here.)"""
    impl0, model0 = ctx.run_impl, ctx.run_model
    stash = {}
    stats = ctx.extra.setdefault("burst_lines", {"conclusive": 0, "inconclusive": 0})

    def run_impl(area, lines, *a, **k):
        o = impl0(area, lines, *a, **k)
        if area == "burst" and o is not None:
            stash[hash(tuple(lines))] = o
        return o

    def run_model(driver, lines, *a, **k):
        io = stash.get(hash(tuple(lines)))
        fed = lines
        if io is not None and len(io) == len(lines):
            # area `window`: several interleavings are allowed; the model is told which outcome the harness observed so
            # that it can continue from that interleaving (it echoes the outcome iff it is one of the allowed ones,
            # otherwise it prints the allowed set)
            fed = [l + " => " + o if l.startswith("window ") else l for l, o in zip(lines, io)]
        if "overlay_fallback" in ctx.extra:
            # black-box build: the harness observes ticks through calls of the public API on a hidden limiter; the model
            # is told to perform the same calls (driver mode `bb`)
            fed = [l + " bb" if l.startswith("reset ") and len(l.split()) == 2 else l for l in fed]
        mo = model0(driver, fed, *a, **k)
        if mo is None or io is None or len(io) != len(mo):
            return mo
        inc = sum(1 for x in io if x == "inconclusive")
        stats["inconclusive"] += inc
        stats["conclusive"] += len(io) - inc
        # the driver prints the model's whole state behind ` # ` after every call; a harness built without the state
        # dump (fallback builds), or a call that hung, prints none: then only the part before it is compared
        dumped = sum(1 for x in io if " # " in x)
        stats["with_state_dump"] = stats.get("with_state_dump", 0) + dumped
        mo = [y if " # " in x else y.split(" # ")[0] for x, y in zip(io, mo)]
        return ["inconclusive" if x == "inconclusive" else y for x, y in zip(io, mo)]

    ctx.run_impl, ctx.run_model = run_impl, run_model


def _cheap_minimise(ctx):
    """Replaying a history costs real time (its ticks, and 5 s for every call that hangs).  Replays are memoised; a
    history whose failure is a timeout or hang is reported as it is; every other one is minimised with a small ddmin
    budget and all minimisations of a run together get at most MIN_BUDGET_S seconds of replay time (after that an
    untried candidate counts as "does not fail", i.e. the reduction stops where it is)."""
    import time
    MIN_BUDGET_S = 15.0
    minimise0 = ctx._minimise
    mismatch0 = ctx._mismatch
    memo = {}
    state = {"in_min": False, "spent": 0.0}

    def mismatch(area, driver, name, hist, canon, extra_env=None):
        key = (area, tuple(hist))
        if key not in memo:
            if state["in_min"] and state["spent"] > MIN_BUDGET_S:
                return None
            t = time.time()
            memo[key] = mismatch0(area, driver, name, hist, canon, extra_env)
            if state["in_min"]:
                state["spent"] += time.time() - t
        return memo[key]

    def minimise(area, driver, name, hist, canon, extra_env=None, budget=80):
        if area != "burst":
            return minimise0(area, driver, name, hist, canon, extra_env, budget)
        if len(hist) <= 6:
            return hist
        r = mismatch(area, driver, name, hist, canon, extra_env)
        if r is None or any(("timeout" in o or "hang" in o or "never-answered" in o) for o in r[1]):
            return hist
        state["in_min"] = True
        try:
            return minimise0(area, driver, name, hist, canon, extra_env, 12)
        finally:
            state["in_min"] = False

    ctx._mismatch = mismatch
    ctx._minimise = minimise


def _stress_corpus(ctx):
    """corpus/C16/stress.*.ops: fixed configurations (the one in which the unrepaired Close hung) run first"""
    lines = ctx.corpus("stress")
    if not lines or ctx.replay or "harness" not in ctx.harness_bin:
        return
    outs = ctx.run_impl("stress", lines, timeout=600, extra_env={"C16_STRESS_PAR": "8"}) or []
    for l, o in zip(lines, outs):
        ctx.extra["oracle_stress_corpus"] = ctx.extra.get("oracle_stress_corpus", 0) + 1
        if not o.startswith("ok"):
            rep = {"property": ctx.id, "kind": "impl-oracle", "area": "stress", "harness": "harness", "ops": [l],
                   "impl_outputs": [o], "concrete_failing_input": True,
                   "note": "Close-vs-tick stress, corpus configuration; contradicts C16.close_returns / "
                           "answer_exactly_once / close_marks_subtree_and_fails_pending"}
            ctx.violations.append({"kind": "impl-oracle", "what": "stress: %s on `%s`" % (o[:200], l),
                                   "replay": ctx._write_replay(rep), "concrete": True})


def _build(ctx):
    """Three levels of white-box access: lock / sentinel hooks + state dump; hooks only (tag nodump) when the dump, which
    names more private fields, no longer compiles; black box (tag nooverlay, the fallback of core.harness) when the hooks
    do not compile either."""
    ctx.harness("./cmd/c16", overlay=OVERLAY_DUMP)
    if "overlay_fallback" in ctx.extra:
        why = ctx.extra.pop("overlay_fallback")
        ctx.harness("./cmd/c16", tags="verif nodump", overlay=OVERLAY)
        if "overlay_fallback" not in ctx.extra:
            ctx.extra["dump_fallback"] = ("the state dump did not compile against the working tree (%s); built with the "
                                          "lock / sentinel hooks only: answers and API observations are compared, the "
                                          "private counters and the queue are not" % why[:160])


def _amt_class(a):
    try:
        a = int(a)
    except ValueError:
        return "?"
    if a < 0:
        return "neg" if a > -(1 << 62) else "neg-huge"
    if a == 0:
        return "0"
    if a < 16:
        return "1..15"
    if a < (1 << 31):
        return "16..2^31"
    if a < (1 << 62):
        return "2^31..2^62"
    return ">=2^62"


def _tagger(line, out):
    """distribution of the generated calls (evidence: coverage.tag_histogram): kind x magnitude class x outcome"""
    f = line.split()
    if not f or out in ("inconclusive", "bad-op", "bad-handle"):
        return None
    main = out.split(" # ")[0]
    if f[0] == "use" and len(f) == 3:
        o = main.split()[-1]
        return "use amt=%s -> %s" % (_amt_class(f[2]), o)
    if f[0] in ("new", "setcap") and len(f) == 3:
        return "%s cap=%s%s" % (f[0], _amt_class(f[2]), " (limiter closed)" if main == "nil" else "")
    if f[0] == "close" and len(f) == 2:
        return "close root" if f[1] == "0" else "close child"
    if f[0] == "tick":
        k = sum(1 for w in main.split() if w.startswith("r") and "=" in w)
        return "tick answering %s" % ("0" if k == 0 else "1" if k == 1 else "2..5" if k <= 5 else "6+")
    if f[0] == "rwin":
        spec = " ".join(f[1:]).split("|")
        return "rwin %d readers + %s (%s)" % (len([x for x in spec[0].split(";") if x.strip()]), spec[1].split()[0] if len(spec) > 1 and spec[1].split() else "?",
                                              "writer kept out" if "blocked=1" in main else "writer NOT kept out")
    if f[0] == "window":
        ops = sorted(o.split()[0] + ("0" if o.split()[0] == "close" and o.split()[1] == "0" else "")
                     for o in " ".join(f[2:]).split(";") if o.split())
        return "window %s %s" % (f[1], "+".join(ops))
    return f[0]


def run(ctx):
    ctx.modelled += [
        "controller.lock is a field of the model state (RL.S.holder): the ticker goroutine (select / lock / body / "
        "unlock; done received / lock / drain / unlock), the goroutine in root Close (lock / mark / unlock / send on the "
        "unbuffered `done`, a joint step with the receiver) and the callers of the API (lock / body-and-unlock) take and "
        "release it in separate steps, a step that needs it is enabled only while it is free; RL.StepU is the same "
        "system with the unrepaired order (send while holding the lock), in which a deadlock is reachable "
        "(C16.unrepaired_close_deadlocks)",
        "body and unlock of an API call are one step: the holder does nothing blocking in between (answer channels have "
        "buffer 1 and receive one value each, C16.answer_exactly_once); in RL.Step Cap/LastUsed/Closed (read lock) are "
        "exclusive holders; that readers may overlap is modelled separately: the one-bracket calls run on the generic "
        "readers-writer machine RW.step (Model/RWMutex.lean) as RL.callSys (Use in two micro-steps: decision, then charge "
        "or append), C16.concurrent_readers_linearizable: under every schedule, readers inside their brackets together, "
        "state and results are those of RL.exec one call at a time in acquisition order; contrast "
        "C16.write_under_a_read_lock_is_not_linearizable",
        "lines `rwin r ; r | w` of area burst run the read-lock window: the harness holds controller.lock in READ mode "
        "(go/overlay/c16_rate_hook.go), the read-only calls made meanwhile return (a call that does not overlap is "
        "tolerated: the property does not ask for concurrency of readers), the writing call must be kept out until the "
        "harness lets go; the driver runs the same schedule on the readers-writer machine (RL.rwWindow, "
        "C16.rw_window_is_a_schedule) and prints results, `blocked` and the state",
        "the history fields (answered, glog, capMax, ...) are written by the model in the same step as the action they "
        "record; that the code's critical sections do what the model's do is the transcription, checked by the tie",
        "area burst runs fused calls (RL.exec = the schedule lock/body/unlock of one call at a time); area window "
        "(lines `window early|late op ; op ; op`) runs the Close-vs-tick window: the harness holds the lock (white box, "
        "go/overlay/c16_rate_hook.go) across a tick so that the ticker goroutine and up to three calls (root/child "
        "Close, Use, SetCap, New) wait for it, releases it, and the driver computes the outcomes of ALL interleavings of "
        "the single steps (RL.explore, Model/RateLimiterWindow.lean, through RL.micro: sound - every listed outcome is a run "
        "of RL.Step, C16.window_outcomes_are_runs - and complete - every interleaving of the waiting threads shorter than the "
        "fuel is listed, C16.window_exploration_is_complete); the line is accepted iff the observed outcome is in the set",
        "the lock-step harness observes ticks through a white-box sentinel request (go/overlay/c16_rate_hook.go) on a "
        "detached closed limiter; it does not touch the tree",
        "after EVERY call of a burst history (and every window) the whole state is compared, not only what the call "
        "returns: capacity, used (open limiters), last, closed of every limiter and the waiting queue in order as "
        "limiter:amount (requests on closed limiters left out), read under the lock by go/overlay/c16_rate_dump.go and "
        "printed by the driver from RL.S; in a window the dump is part of the outcome that selects the interleaving",
        "the DECISIONS of Use and of one iteration of the tick's loop are transcribed a second time on machine ints "
        "(RL.useDecI / RL.tickDecI, Model/RateLimiterInt.lean: state and amount as Go ints, effectiveCap()'s running minimum, "
        "capacity-used and its running minimum with wrap-around, the comparisons in the code's order), independently of "
        "fits / effCap / RL.micro; C16.machine_int_decisions_are_the_models: on every reachable state with capacities <= "
        "MaxInt they are the decisions RL.exec and RL.service act on, for every amount; the driver runs useDecI next to the "
        "model on every `use` line (token machine-int-decision-differs); contrast "
        "C16.adding_before_comparing_grants_what_it_must_queue; the tie of this arithmetic to the Go code remains the burst "
        "stream near MaxInt (genLimits, corpus), the loop-level composition of tickDecI over a whole queue is not a theorem",
    ]
    ctx.assumptions += [
        "capacities: New / Limiter.New / SetCap are given any Go int and store max(capacity, 0) (commit 4e94d2c); the "
        "clamp is part of the model (RL.clampCap, applied by RL.initGo and the plans of RL.exec; the driver passes the "
        "argument through unchanged; C16.nonpositive_cap_grants_nothing, contrast "
        "C16.unclamped_negative_cap_looks_unlimited); negative arguments incl. -1, -MaxInt, "
        "MinInt are generated and in the corpus; capacities are Go ints, i.e. <= MaxInt (a fact of the type); no "
        "smaller bound is assumed: "
        "C16.int_arithmetic_exact shows 0 <= used, last, queued amounts <= MaxInt and used <= capacity, so every "
        "`capacity - used` of the code is exact and `used += amount` cannot wrap; both ties run capacities and "
        "amounts at MaxInt, MaxInt-1, MaxInt/2+1 with usage summing past MaxInt within a period",
        "SetCap is a step of RL.Step (new cap >= 0) and every theorem holds with SetCap calls anywhere in the run: the "
        "cap bound is then C16.granted_le_max_cap_in_force / granted_le_max_cap_of_chain (granted in period p <= the "
        "largest capacity the limiter, resp. each ancestor, had during p); granted_le_cap / "
        "granted_le_min_cap_of_chain are the special case without SetCap so far; SetCap is generated in all ties",
        "`exceeds the cap` is ANY applicable cap (commit 8ceae61): a request above the smallest capacity among the "
        "limiter and its ancestors is refused at once, and a queued one is refused by the next tick after SetCap lowered "
        "that minimum (C16.use_above_chain_cap_fails_at_once / queued_above_lowered_chain_cap_fails_at_tick; the variant "
        "testing the own cap only starves a request: C16.own_cap_only_starves)",
        "close_returns is deadlock freedom over all interleavings with the lock modelled; termination of Close "
        "(close_returns_under_fair_scheduling) assumes scheduler fairness only: goroutines inside their own critical "
        "section run, sync.Mutex is fair to the waiting ticker goroutine, select takes a case that is ready again and "
        "again (C16.fair_run_exists: the assumptions are satisfiable)",
        "every_request_answered_under_fair_scheduling assumes the same scheduler fairness (HoldersRun, LockFair, and "
        "DrainFair: the same two for the goroutine's final drain) plus the passing of time (TicksFire: the goroutine does "
        "not sit at its select for ever); TicksServed, formerly a bare hypothesis, is derived from them "
        "(C16.ticks_served_under_fair_scheduling); C16.fair_run_with_a_served_tick_exists: a run with a waiting request, "
        "a served tick and root Close meets all of them",
        "timing: a lock-step burst counts only if it certainly lies within one period (wall-clock window check)",
        "only nil / error is compared for an answer, not which error nor its text (the harness reads the class off the "
        "message; a reworded message must not alarm)",
        "reading (coordinator decision): lastUsed_spec is about limiters still linked into the tree, which includes "
        "every open limiter; a child unlinked by its own Close is no longer reset, so its LastUsed keeps the value of "
        "the last tick before its Close (model and code agree; not alarmed on)",
    ]
    ctx.lean(props=["Props.C16"], drivers=["drv_c16"])
    from vlib import lockfacts
    lockfacts.run(ctx, "rate", "Props.C16Lock", "C16Lock")   # lock discipline decided about tables regenerated from the Go source
    _build(ctx)
    if "overlay_fallback" in ctx.extra:
        # the white-box hooks name private identifiers of rate/limiter.go; when they no longer compile the harness is
        # built black-box (tag nooverlay): ticks are observed through calls of the public API on a hidden capacity-1
        # child of the root, which the model performs as well (go/cmd/c16/hooks_stub.go, driver mode `bb`); the `window` lines, which have to hold the controller's lock, are output as
        # `inconclusive` (not compared).  Burst lock-step and both stress oracles run as usual.
        ctx.extra["skipped_areas"] = ["window (forced Close-vs-tick schedules: needs the white-box lock hooks)"]
        ctx.assumptions.append("black-box fallback build: ticks observed through the public API only (Use/SetCap on a "
                               "hidden child of the root, performed by the model as well); area window skipped")
    _mask_inconclusive(ctx)
    _cheap_minimise(ctx)
    period = "200" if ctx.tier == "quick" else "120"
    ctx.diff(area="burst", driver="drv_c16", n={"quick": 40000, "thorough": 3000000}, stateful=True,
             trivial=lambda l, o: o == "inconclusive", canon=_canon, tagger=_tagger,
             extra_env={"C16_PERIOD_MS": period, "C16_PAR": "64"}, timeout=600,
             theorem="C16.granted_le_cap / lastUsed_spec / answer_exactly_once / immediate_errors / "
                     "waiting_served_fifo_as_capacity_returns / close_marks_subtree_and_fails_pending are about "
                     "RL.exec; the implementation answers differently from RL.exec on this history",
             what="lock-step history: `tick` = exactly one tick of the ticker goroutine; rK = K-th Use call")
    _stress_corpus(ctx)
    ctx.impl_oracle("stress", n={"quick": 96, "thorough": 1200}, timeout=1500,
                    label="Close on root/child concurrently with microsecond ticks and Use calls; every attempt under "
                          "a 5 s deadline in a child process (C16.close_returns / answer_exactly_once / "
                          "close_marks_subtree_and_fails_pending)",
                    extra_env={"C16_STRESS_PAR": "8"})
    _race_stress(ctx)
