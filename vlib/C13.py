"""C13 — log handlers: Lean models `TL` (tracelog) and `ML` (multilog) in Model/LogHandlers.lean, theorems Props/C13.lean.

Correspondence (area `log`, stateful): derivation trees of WithGroup/WithAttrs over tracelog and multilog handlers with
recording sinks; after every Handle the Write calls received (count and bytes of each) and the return value are compared
with the model.  Schedules (area `stress`, -race build): judged on the implementation side only."""


import re

_AGG = re.compile(r"ret=\d+\[")


def _has_sv(words):
    """does the attribute part of an op line contain the word `s` (the library's own stackValue)?"""
    i = 0
    step = {"l": 5, "g": 3, "v": 1, "k": 3, "e": 1}
    while i < len(words):
        if words[i] == "s":
            return True
        i += step.get(words[i], 1)
    return False



def _tag(line, out):
    w = line.split(" ", 2)
    if w[0] == "logx":
        return "errs." + w[1]
    if w[0] not in ("log", "logerr"):
        return None
    if _AGG.search(out):
        return "aggregate-returned"
    if "ret=E:" in out:
        return "sink-error-returned"
    if "ret=panic" in out:
        return "sink-panic"
    if _has_sv(line.split()[4 if w[0] == "logerr" else 8:]):
        return "record-with-real-stackValue"
    if "0a3c3c535441434b3e3e0a" in out or " k " in line:
        return "record-with-stack-carrier"
    return "plain"


RACE_ENV = {"GORACE": "halt_on_error=1"}

# white-box accessor: the library's own `*stackValue` over a scripted errs.StackError (attribute word `s`)
OVERLAY = {"errs/c13_stackvalue_verif.go": "c13_stackvalue.go"}


def sched(ctx, n, name="race"):
    """Forced schedules of buffered mode: the harness runs each script against the real handler, the protocol model
    (TraceProto, theorems buffered_never_blocks / buffered_no_tear_no_dup / buffered_drop_only_when_full) computes the set
    of outcomes the script allows, and the implementation's outcome must be in it."""
    if name not in ctx.harness_bin:
        return
    import json
    if ctx.replay:
        rep = json.load(open(ctx.replay))
        if rep.get("area") != "sched":
            return
        lines = rep["ops"] * 20          # scheduling is not reproducible run by run: try the script a number of times
    else:
        total = n[ctx.tier] if isinstance(n, dict) else n
        lines = ctx.corpus("sched") + ctx.gen("sched", ctx.seed * 104729 + 5, total, name)
    outs = ctx.run_impl("sched", lines, name, timeout=900, extra_env=RACE_ENV)
    if outs is None:
        return
    verdicts = ctx.run_model("drv_c13", ["judge %s => %s" % (l, o) for l, o in zip(lines, outs)], timeout=1200)
    if verdicts is None:
        ctx.violations.append({"kind": "correspondence", "concrete": False,
                               "what": "model driver drv_c13 failed on the forced-schedule stream"})
        return
    ctx.rules.append("area sched: scripted schedules of buffered mode (producers released in scripted order, sink gated by "
                     "permits, BufferDepth 1..N); a case is one script; the verdict is membership of the implementation's "
                     "outcome in the set of outcomes the protocol model allows for the script")
    bad = 0
    for l, o, v in zip(lines, outs, verdicts):
        ctx.evals += 1
        ctx.kinds["sched:script"] = ctx.kinds.get("sched:script", 0) + 1
        ctx.distinct.add(("sched|" + l + "|" + o)[:400])
        if v.startswith("ok"):
            k = v.split("allowed=")[-1]
            t = "sched-allowed-1" if k == "1" else "sched-allowed-2..9" if len(k) == 1 else "sched-allowed-10+"
            ctx.tags[t] = ctx.tags.get(t, 0) + 1
            if len(ctx.samples) < 16 and ctx.kinds["sched:script"] % 200 == 1:
                ctx.samples.append({"area": "sched", "op": l[:200], "impl": o[:160], "model": v})
            continue
        if v.startswith("inconclusive"):   # the model's exploration was cut short: neither a pass nor a finding
            ctx.tags["sched-inconclusive"] = ctx.tags.get("sched-inconclusive", 0) + 1
            ctx.extra["sched_inconclusive"] = ctx.extra.get("sched_inconclusive", 0) + 1
            continue
        bad += 1
        if bad <= 3:
            rep = {"property": ctx.id, "kind": "forced-schedule", "area": "sched", "harness": name, "ops": [l],
                   "impl_outputs": [o], "model_outputs": [v], "concrete_failing_input": True,
                   "contradicts": "C13.buffered_never_blocks / buffered_no_tear_no_dup / buffered_drop_only_when_full: the "
                                  "outcome is not among those the protocol allows for this script"}
            ctx.violations.append({"kind": "forced-schedule", "what": "sched: %s on `%s`" % (v[:200], l[:160]),
                                   "replay": ctx._write_replay(rep), "concrete": True})
    if ctx.replay:
        print("replay: %d of %d runs of the script gave an outcome the protocol does not allow" % (bad, len(lines)))


def facts(ctx, limit=300):
    """Constants tie: lean/Generated/C13Facts.lean is deleted and regenerated from the Go source of the working tree
    (vlib/c13facts.py), Props/C13Facts.lean decides in the kernel that the constants of the models are those."""
    import fcntl
    import os
    import signal
    import subprocess
    from vlib import c13facts, core
    module = "Props.C13Facts"
    props_path = os.path.join(core.LEAN, "Props", "C13Facts.lean")
    names = core.theorem_names(props_path)

    def fail_all():
        for q in names:
            ctx.theorems.append({"name": q, "axioms": None, "ok": False})

    os.makedirs(os.path.join(core.VERIF, ".work"), exist_ok=True)
    with open(os.path.join(core.VERIF, ".work", "c13facts.lock"), "w") as lk:
        fcntl.flock(lk, fcntl.LOCK_EX)
        try:
            ctx.checker_cmds.append("python3 -m vlib.c13facts <repo>   (regenerate lean/Generated/C13Facts.lean from "
                                    "tracelog.go, errs/log.go, errs/recovery.go of the working tree)")
            try:
                _, found = c13facts.write(ctx.repo)
            except Exception as e:  # noqa: BLE001 - anything here is a broken extractor, not a finding about the code
                ctx.lean_problems.append("c13facts could not read the working tree: %r" % (e,))
                fail_all()
                return
            ctx.extra["c13facts_found"] = sorted(k for k, v in found.items() if v)
            ctx.extra["c13facts_not_found"] = sorted(k for k, v in found.items() if not v)
            ctx.rules.append("constants tie: %d of %d constants/tables of tracelog.go, errs/log.go, errs/recovery.go found by "
                             "their textual pattern in the working tree (%s not found: the statements about them are "
                             "vacuous); Props.C13Facts decides that the models use exactly these"
                             % (len(ctx.extra["c13facts_found"]), len(found), ", ".join(ctx.extra["c13facts_not_found"]) or "none"))
            cmd = ["lake", "build", module]
            ctx.checker_cmds.append("cd lean && " + " ".join(cmd))
            with open(os.path.join(core.VERIF, ".work", "lean.lock"), "w") as ll:
                fcntl.flock(ll, fcntl.LOCK_EX)
                pr = subprocess.Popen(cmd, cwd=core.LEAN, stdout=subprocess.PIPE, stderr=subprocess.STDOUT, text=True,
                                      errors="replace", start_new_session=True)
                try:
                    bout, _ = pr.communicate(timeout=limit)
                    rc = pr.returncode
                except subprocess.TimeoutExpired:
                    try:
                        os.killpg(pr.pid, signal.SIGKILL)
                    except OSError:
                        pass
                    bout, _ = pr.communicate()
                    rc = None
                if rc != 0:
                    fail_all()
                    errs = [ln for ln in bout.splitlines() if "error" in ln]
                    msg = ("constants tie: the constants regenerated from the Go source no longer agree with the models "
                           "(Props.C13Facts does not check): " + " ;; ".join(errs[:4])[:600])
                    ctx.lean_problems.append(msg)
                    print("# " + msg[:900])
                    return
                audit = os.path.join(core.LEAN, "Audit", "C13Facts.lean")
                os.makedirs(os.path.dirname(audit), exist_ok=True)
                with open(audit, "w") as f:
                    f.write("import %s\n" % module)
                    for q in names:
                        f.write("#print axioms %s\n" % q)
                ctx.checker_cmds.append("cd lean && lake env lean Audit/C13Facts.lean   (#print axioms on every theorem)")
                _, out2 = core.sh(["lake", "env", "lean", "Audit/C13Facts.lean"], cwd=core.LEAN, timeout=1800)
            ax = core.parse_axioms(out2)
            for q in names:
                if q in ax:
                    bad = [a for a in ax[q] if a not in core.ALLOWED_AXIOMS]
                    ctx.theorems.append({"name": q, "axioms": ax[q], "ok": not bad})
                    if bad:
                        ctx.lean_problems.append("theorem %s depends on axioms %s" % (q, bad))
                else:
                    ctx.theorems.append({"name": q, "axioms": None, "ok": False})
                    ctx.lean_problems.append("theorem %s does not check (no axiom report)" % q)
            prev_files = ctx.extra.get("lean_files_scanned", [])
            prev_hits = ctx.extra.get("forbidden_token_hits", [])
            ctx._scan_forbidden([module])
            ctx.extra["lean_files_scanned"] = sorted(set(prev_files) | set(ctx.extra.get("lean_files_scanned", [])))
            ctx.extra["forbidden_token_hits"] = sorted(set(prev_hits) | set(ctx.extra.get("forbidden_token_hits", [])))
        finally:
            if ctx.repo != "/repo" and os.path.isdir("/repo/errs"):
                c13facts.write("/repo")   # leave the tracked file as generated from the reference tree


def run(ctx):
    ctx.modelled += [
        "leaf rendering (strconv.Quote, time RFC3339Nano, slog.Value.String, LogValuer resolution) and the record's time "
        "stamp are tokens computed by the generator with strconv/fmt/time directly (not through tracelog); the model "
        "assembles tokens",
        "slog.GroupValue / Record.AddAttrs drop empty groups at construction; the generator encodes the tree the "
        "handler actually receives",
        "errs stack text of a real *errs.Error (op logerr) is replaced by a placeholder after the harness checked it "
        "equals err.StackTrace(true) and follows the main line inside the same Write; the time stamp taken by errs "
        "(time.Now) is replaced after a window check",
        "reading of 'followed by the stack-trace lines when the record carries an errs stack': tracelog picks the stack "
        "up only from a top-level attribute with key stack_trace while NO group is in force (tracelog.go:194); under "
        "WithGroup the same record prints the stack as an ordinary attribute <group>.stack_trace=[...] on the main "
        "line.  The model follows the code; C13.stack_lines_follow carries the 'no group in force' hypothesis",
        "multilog's error accumulation is also run on the errs heap model of C11 (Model/Errs.lean: Errs.append / count / "
        "message / wrappedErrors / errorOrNil): failing sinks return a fresh plain error, a fresh *errs.Error or one "
        "long-lived sentinel *errs.Error per sink; after every record the harness prints Handle's result as "
        "Count()[WrappedErrors()] and Count()/Message() of every sentinel, the driver prints the same from the heap",
        "buffered mode is driven deterministically: the test sink is either free (the harness waits for a sentinel "
        "record before reading the sink) or stalled with the delivery goroutine occupied by a primer record",
    ]
    ctx.assumptions += [
        "schedules: the clauses about concurrent loggers are proved for EVERY schedule on protocol models, not on the Go "
        "code: buffered mode on TraceProto (producers: atomic format step + the non-blocking select; one delivery "
        "goroutine: receive, then a Write that returns after any number of steps, ok / error ignored / panic = goroutine "
        "dead); synchronous mode on the generic mutex-bracket machine (Model/Mutex.lean, Lemmas/MutexLin.lean by the C12 "
        "builder) instantiated with a sink that takes the line one byte per micro-step.  That the code IS these "
        "protocols — a fresh buffer per call, exactly one select with default, no lock on the buffered path, the lock "
        "shared by a handler family and held across exactly the sink.Write on the synchronous path — is carried by the "
        "forced-schedule stream `sched` (outcome must be in the set the protocol model allows), the deterministic "
        "hold/release part of `log`, and the -race stress oracle",
        "Go channels are FIFO with the documented select semantics; sync.Mutex is a mutex; the Go memory model",
        "a panic of the sink inside the delivery goroutine is not recovered by the code (the process dies); the model "
        "has it as the consumer state `dead`; the harness never lets a buffered sink panic",
        "slog.Value.Resolve, strconv.Quote, time.Format and fmt are correct (their output enters the model as tokens)",
    ]
    ctx.lean(props=["Props.C13"], drivers=["drv_c13"])
    from vlib import lockfacts
    lockfacts.run(ctx, "tracelog", "Props.C13Lock", "C13Lock")   # lock discipline decided about tables regenerated from the Go source
    facts(ctx)                                                   # constants of the models decided to be those of the Go source
    ctx.harness("./cmd/c13", overlay=OVERLAY)
    ctx.diff(area="log", driver="drv_c13", n={"quick": 40000, "thorough": 600000}, stateful=True,
             trivial=lambda l, o: l.split(" ", 1)[0] in ("new", "mnew", "mode", "hold", "wg", "wa", "setlevel"),
             tagger=_tag, timeout=1500,
             theorem="C13.format_spec / one_write_per_record / derive_isolated / stack_lines_follow / "
                     "buf_fifo_no_dup_no_tear / fanout_each_enabled_once / fanout_nil_iff_all_ok / "
                     "fanout_errors_collected / handle_errors_collected_heap / handle_keeps_child_errors / with_applies_to_all (model = spec); impl != model on this history")
    ctx.impl_oracle("recovery", {"quick": 48, "thorough": 480}, timeout=300,
                    label="errs.Recovery on its own: no panic escapes, the handler is called once with an error that leads "
                          "back to the panic value, for every kind of panic value and handler")
    ctx.diff(area="rec", driver="drv_c13", n={"quick": 88, "thorough": 880}, stateful=False, timeout=300,
             theorem="C13.recovery_contains_every_panic / recovery_calls_handler_once / recovery_keeps_panic_value "
                     "(Rec.recovery, the model of errs/recovery.go); impl != model on this call")
    if ctx.harness("./cmd/c13", name="race", race=True, overlay=OVERLAY):
        sched(ctx, {"quick": 1500, "thorough": 12000})
        ctx.impl_oracle("stress", {"quick": 40, "thorough": 600}, name="race", timeout=1500,
                        label="schedules: whole-record writes, per-goroutine order, sink error to its caller, "
                              "buffered never blocks / no tear / no duplicate (race build)",
                        extra_env=RACE_ENV)
