"""C09 — expression evaluator: Lean model `Eval.parseLoop / processOperator / evaluate …` (Model/Eval.lean), theorems
Props/C09.lean.  Three ties:
  struct  model vs implementation on every input (well-formed and malformed): the parse tree as a bracketed string,
          observed through an eval.Evaluator assembled from the real operator table with symbolic functions
  wf      implementation vs the expression AST (conventional precedence, hard-coded in the harness) in three layouts
  val     real NewFixedEvaluator / NewFloatEvaluator vs the value of the MODEL's tree walked with the library's own
          operator functions; reused vs fresh evaluator; division by zero as configured; no panic
  fxval   model vs code on VALUES of the fixed evaluator (Model/EvalFixed.lean computes the result)
  state   (advisory, white-box) the stacks of the reused Evaluator after every call vs the model's evaluator state
  flval   model vs code on VALUES of the float64 / float32 evaluators, bit for bit (Model/EvalFloat.lean over the IEEE-754
          arithmetic of Model/EvalSoftFloat.lean); every line also on a reused evaluator"""
import json
from concurrent.futures import ThreadPoolExecutor


def _par(ctx, area, lines, chunk=2500):
    """run an oracle area in parallel chunks (each harness process is independent)"""
    parts = [lines[i:i + chunk] for i in range(0, len(lines), chunk)] or [[]]
    with ThreadPoolExecutor(max_workers=14) as ex:
        res = list(ex.map(lambda p: ctx.run_impl(area, p), parts))
    if any(r is None for r in res):
        return None
    return [o for r in res for o in r]


def _oracle(ctx, area, lines, outs, label, shown):
    bad = 0
    for l, o in zip(lines, outs):
        ctx.evals += 1
        ctx.kinds[area + ":" + l.split(" ", 1)[0]] = ctx.kinds.get(area + ":" + l.split(" ", 1)[0], 0) + 1
        if o.startswith("ok"):
            ctx.distinct.add(hash((area, l)))
            if shown[0] < 3:
                shown[0] += 1
                ctx.samples.append({"area": area, "op": l[:200], "oracle": o[:200]})
            continue
        if o == "skipped-after-crash":
            continue
        bad += 1
        if bad <= 2:
            rep = {"property": ctx.id, "kind": "impl-oracle", "area": area, "harness": "harness", "ops": [l],
                   "impl_outputs": [o], "concrete_failing_input": True, "note": label}
            path = ctx._write_replay(rep)
            ctx.violations.append({"kind": "impl-oracle", "what": "%s: %s on `%s`" % (area, o[:240], l[:160]),
                                   "replay": path, "concrete": True})


def _wf(ctx, n):
    lines = ctx.corpus("wf") + ctx.gen("wf", ctx.seed * 7919 + 17, n[ctx.tier])
    outs = _par(ctx, "wf", lines)
    if outs is None:
        return
    ctx.rules.append("area wf: implementation-side oracle — the tree built for a rendered AST equals the AST "
                     "(conventional precedence table of the property statement) in three whitespace layouts, and the "
                     "real fixed/float evaluators return the same value in all three")
    _oracle(ctx, "wf", lines, outs, "parse tree of a well-formed expression / whitespace invariance", [0])


_SINGLE = {"abs", "cbrt", "ceil", "exp", "exp2", "floor", "log", "log1p", "log10", "round", "sqrt"}


def _unhex(h):
    return b"" if h == "-" else bytes.fromhex(h)


def _hex(b):
    return b.hex() if b else "-"


def _next_arg(b):
    """NextArg (the model's nextArg is compared with the implementation's on the `a` lines of the struct stream)"""
    parens = 0
    for i, ch in enumerate(b):
        if ch == 0x28:
            parens += 1
        elif ch == 0x29:
            parens -= 1
        elif ch == 0x2C and parens == 0:
            return b[:i], b[i + 1:]
    return b, b""


def _split_args(name, b):
    """the argument texts a standard function evaluates: one-argument functions take the whole text, max/min/if walk
    it with NextArg until nothing remains"""
    if name in _SINGLE:
        return [b]
    parts = []
    while b:
        a, b = _next_arg(b)
        parts.append(a)
    return parts


def _expand_calls(ctx, trees, depth=120):
    """replace every call node `F un name args` of the model's trees by `G un name k <tree of arg 1> … <tree of arg k>`
    (trees again from the Lean driver), so that the harness can hand VALUES to the library's functions"""
    trees = list(trees)
    todo = [i for i, t in enumerate(trees) if t.startswith("F ") or " F " in t]
    for _ in range(depth):
        if not todo:
            break
        toks = {i: trees[i].split(" ") for i in todo}
        want = set()
        split = {}
        for i, tk in toks.items():
            for j, w in enumerate(tk):
                if w == "F":
                    key = (tk[j + 2], tk[j + 3])
                    if key not in split:
                        split[key] = [_hex(a) for a in _split_args(_unhex(key[0]).decode("latin-1"), _unhex(key[1]))]
                    want.update(split[key])
        want = sorted(want)
        outs = ctx.run_model("drv_c09", ["t " + h for h in want])
        if outs is None:
            return None
        sub = {}
        for h, o in zip(want, outs):
            sub[h] = {"err": ["X"], "empty": ["M"], "panic": ["P"], "bad-op": ["X"]}.get(o) or o.split(" ")
        nxt = []
        for i, tk in toks.items():
            out = []
            j = 0
            again = False
            while j < len(tk):
                if tk[j] == "F":
                    parts = split[(tk[j + 2], tk[j + 3])]
                    out += ["G", tk[j + 1], tk[j + 2], str(len(parts))]
                    for a in parts:
                        out += sub[a]
                        again = again or "F" in sub[a]
                    j += 4
                else:
                    out.append(tk[j])
                    j += 1
            trees[i] = " ".join(out)
            if again:
                nxt.append(i)
        todo = nxt
    return trees


def _val(ctx, n, only=None):
    tl = only if only is not None else ctx.corpus("val") + ctx.gen("val", ctx.seed * 104729 + 5, n[ctx.tier])
    trees = ctx.run_model("drv_c09", tl)
    if trees is not None:
        trees = _expand_calls(ctx, trees)
    if trees is None:
        ctx.violations.append({"kind": "correspondence", "concrete": False, "what": "model driver drv_c09 failed on the value stream"})
        return
    vl = ["v " + l.split(" ", 1)[1] + " " + t for l, t in zip(tl, trees)]
    outs = _par(ctx, "val", vl)
    if outs is None:
        return
    ctx.rules.append("area val: the Lean driver prints the model's parse tree (variables substituted); the harness walks it "
                     "with the library's exported Operator.Evaluate/EvaluateUnary and Functions and compares with "
                     "Evaluate of 10 real evaluators (fixed D1/D2/D4/D6/D16, float64/32, both division-by-zero settings), reused and fresh; "
                     "literal texts are converted by the harness's own strconv.ParseFloat at the evaluator's bit size / "
                     "fXX.FromString and handed to operators and functions as VALUES (call arguments: trees from the driver)")
    before = len(ctx.violations)
    _oracle(ctx, "val", vl, outs, "value of the model's tree vs the real evaluators", [0])
    for v in ctx.violations[before:]:
        rep = json.load(open(v["replay"]))
        rep["val_t_lines"] = ["t " + rep["ops"][0].split(" ")[1]]
        json.dump(rep, open(v["replay"], "w"), indent=1)
    ctx.extra["val_model_err"] = sum(1 for t in trees if t == "err")
    ctx.extra["val_model_tree"] = sum(1 for t in trees if t[:1] in "OFGT")


def _fxval(ctx, n, only=None):
    """model vs code on VALUES of the fixed evaluator: the driver computes the result with Model/EvalFixed.lean; lines
    the model answers with `opaque` (float64 arithmetic decides) are not compared"""
    lines = only if only is not None else ctx.corpus("fxval") + ctx.gen("fxval", ctx.seed * 15485863 + 11, n[ctx.tier])
    impl = _par(ctx, "fxval", lines, chunk=8000)
    parts = [lines[i:i + 8000] for i in range(0, len(lines), 8000)] or [[]]
    with ThreadPoolExecutor(max_workers=14) as ex:
        res = list(ex.map(lambda p: ctx.run_model("drv_c09", p), parts))
    if impl is None or any(r is None for r in res):
        ctx.violations.append({"kind": "correspondence", "concrete": False, "what": "fxval stream could not be run (driver or harness failed)"})
        return
    model = [o for r in res for o in r]
    ctx.rules.append("area fxval: model vs code on values — NewFixedEvaluator[D1|D2|D3|D4|D6|D9|D16](resolver, z).Evaluate against "
                     "EvalFixed.evaluate computed by the Lean driver (operand conversion, operators, integer functions from the "
                     "C03/C04 models, literals with an exponent through the IEEE-754 model); plain comparison of the result "
                     "texts; `opaque` model answers (^, sqrt/log/exp…, exponent literals beyond int64) are not compared and "
                     "counted separately")
    bad = 0
    opaque = 0
    hist = {}
    for l, a, b in zip(lines, impl, model):
        ctx.evals += 1
        ctx.kinds["fxval:x"] = ctx.kinds.get("fxval:x", 0) + 1
        if b == "opaque":
            opaque += 1
            if a in ("PANIC", "panic", "hang"):
                b = "no panic / hang"      # never acceptable
            else:
                continue
        hist[b.split(" ", 1)[0]] = hist.get(b.split(" ", 1)[0], 0) + 1
        if a == b and b != "panic":
            if b != "err":
                ctx.distinct.add(hash(("fxval", l)))
            if len(ctx.samples) < 16 and ctx.kinds["fxval:x"] % 4999 == 1:
                ctx.samples.append({"area": "fxval", "op": l[:200], "impl": a[:120], "model": b[:120]})
            continue
        if a == "skipped-after-crash":
            continue
        bad += 1
        if bad <= 3:
            rep = {"property": ctx.id, "kind": "correspondence", "area": "fxval", "harness": "harness", "driver": "drv_c09",
                   "ops": [l], "impl_outputs": [a], "model_outputs": [b], "concrete_failing_input": True,
                   "contradicts": "C09.fixed_value_render / div_by_zero_configured / … are about EvalFixed.evaluate; the "
                                  "implementation returns a different value (or fails differently) on this input"}
            path = ctx._write_replay(rep)
            ctx.violations.append({"kind": "correspondence", "what": "fxval: impl=%s model=%s on `%s`" % (a[:120], b[:120], l[:200]),
                                   "replay": path, "concrete": True})
    ctx.extra["fxval_opaque_not_compared"] = opaque
    ctx.extra["fxval_results"] = dict(sorted(hist.items()))


def _flval(ctx, n, only=None):
    """model vs code on VALUES of the float evaluators: the driver computes the result with Model/EvalFloat.lean over the
    IEEE-754 arithmetic on bit patterns of Model/EvalSoftFloat.lean; `opaque` model answers are not compared"""
    lines = only if only is not None else ctx.corpus("flval") + ctx.gen("flval", ctx.seed * 32452843 + 29, n[ctx.tier])
    impl = _par(ctx, "flval", lines, chunk=8000)
    parts = [lines[i:i + 8000] for i in range(0, len(lines), 8000)] or [[]]
    with ThreadPoolExecutor(max_workers=14) as ex:
        res = list(ex.map(lambda p: ctx.run_model("drv_c09", p), parts))
    if impl is None or any(r is None for r in res):
        ctx.violations.append({"kind": "correspondence", "concrete": False, "what": "flval stream could not be run (driver or harness failed)"})
        return
    model = [o for r in res for o in r]
    ctx.rules.append("area flval: model vs code on values — NewFloatEvaluator[float64|float32](resolver, z).Evaluate against "
                     "EvalFloat.evaluate computed by the Lean driver (strconv.ParseFloat on decimal literals, + - * / math.Mod, "
                     "comparisons, signs, abs ceil floor round max min if on IEEE-754 BIT PATTERNS by exact rational "
                     "arithmetic, round to nearest even); plain comparison of the result texts (numbers as bit patterns, all "
                     "NaNs one value, a zero of either sign one value); `opaque` model answers (^, sqrt/log/exp…, hexadecimal or `_` "
                     "literals) are not compared and counted separately")
    bad = 0
    opaque = 0
    hist = {}
    for l, a, b in zip(lines, impl, model):
        ctx.evals += 1
        ctx.kinds["flval:y"] = ctx.kinds.get("flval:y", 0) + 1
        if b == "opaque":
            opaque += 1
            if a in ("PANIC", "panic", "hang"):
                b = "no panic / hang"      # never acceptable
            else:
                continue
        key = l.split(" ")[1] + ":" + b.split(" ", 1)[0]
        hist[key] = hist.get(key, 0) + 1
        if a == b and b != "panic":
            if b != "err":
                ctx.distinct.add(hash(("flval", l)))
            if len(ctx.samples) < 20 and ctx.kinds["flval:y"] % 4999 == 1:
                ctx.samples.append({"area": "flval", "op": l[:200], "impl": a[:120], "model": b[:120]})
            continue
        if a == "skipped-after-crash":
            continue
        bad += 1
        if bad <= 3:
            rep = {"property": ctx.id, "kind": "correspondence", "area": "flval", "harness": "harness", "driver": "drv_c09",
                   "ops": [l], "impl_outputs": [a], "model_outputs": [b], "concrete_failing_input": True,
                   "contradicts": "C09.float_value_render / float_div_by_zero_configured / … are about EvalFloat.evaluate; the "
                                  "implementation returns a different value (or fails differently) on this input"}
            path = ctx._write_replay(rep)
            ctx.violations.append({"kind": "correspondence", "what": "flval: impl=%s model=%s on `%s`" % (a[:120], b[:120], l[:200]),
                                   "replay": path, "concrete": True})
    ctx.extra["flval_opaque_not_compared"] = opaque
    ctx.extra["flval_results"] = dict(sorted(hist.items()))


def _state(ctx, n):
    """white-box tie of the evaluator STATE between calls: after every Evaluate of a history (accepted, rejected by parse
    at any position, failed at evaluation time) the two stacks of the real reused Evaluator (go/overlay/c09_stacks.go)
    against the model's Eval.St (after a rejected parse: Eval.leftoverOn).  The property does not constrain the internal
    state — only the answers, which the struct stream compares — so a difference here is recorded, not reported: it
    means the state theorems (reuse_after_any_call, state_after_call, reset_is_needed_after_rejection) speak about a
    state the working tree no longer has, while reuse = fresh itself stays checked by `reuse-mismatch`."""
    lines = ctx.gen("state", ctx.seed * 2750159 + 3, n[ctx.tier])
    if not any(l.startswith("d ") for l in lines):
        ctx.extra["state_dump"] = "not observed: the white-box accessor did not compile against the working tree (black-box build)"
        return
    impl = ctx.run_impl("state", lines)
    model = ctx.run_model("drv_c09", lines)
    if impl is None or model is None:
        ctx.extra["state_dump"] = "not observed: stream could not be run"
        return
    compared = nonempty_after_err = differ = 0
    first = None
    prev = ""
    for l, a, b in zip(lines, impl, model):
        if l.startswith("d "):
            compared += 1
            ctx.evals += 1
            ctx.kinds["state:d"] = ctx.kinds.get("state:d", 0) + 1
            if prev == "err" and b != "D  | ":
                nonempty_after_err += 1
            if a != b:
                differ += 1
                first = first or {"op": l, "impl": a[:300], "model": b[:300]}
            else:
                ctx.distinct.add(hash(("state", l, b)))
        prev = b
    ctx.rules.append("area state (white-box, advisory): the operand and operator stacks the real reused Evaluator holds after "
                     "every call of a history vs the model's evaluator state (Eval.St; Eval.leftoverOn after a rejected parse)")
    ctx.extra["state_dump"] = {"dumps_compared": compared, "after_rejected_parse_with_pending_entries": nonempty_after_err,
                               "differ": differ}
    if first:
        ctx.extra["state_dump_first_difference"] = first


def run(ctx):
    ctx.modelled += [
        "symbolic tie (struct): the harness copies Symbol/Precedence/presence of Evaluate and EvaluateUnary from "
        "eval.FixedOperators / FloatOperators and the names of eval.FixedFunctions / FloatFunctions into an eval.Evaluator "
        "whose functions build strings; the exported fields make the parse tree observable; the driver threads the "
        "evaluator state (the stacks the previous call left) from line to line",
        "strings.TrimSpace is modelled on bytes (ASCII blanks and the UTF-8 encodings of the Unicode White_Space runes); "
        "blanks BETWEEN tokens are the four bytes the scan loop skips (space, tab, newline, carriage return)",
        "proved about the definitions the driver runs (Props/C09.lean): parse_render / evaluate_render — for the full "
        "language (atoms incl. exponent literals and $variables such as $e, $rate, $a1e; nested calls; binary operators; "
        "signs; parentheses) in every blank layout, parse = tree and Evaluate = bracketed form; call_capture, "
        "nextArg_split, replaceVariables_args; whitespace_irrelevant; parse_no_panic / parse_total for every byte list; "
        "evaluate_no_panic / evaluate_total / evaluate_no_panic_budget / evaluate_no_panic_driver — Evaluate of EVERY byte "
        "list with EVERY resolver whose answers contain no `$` neither panics nor (beyond a finite budget) runs out of "
        "the model's nesting budget; reuse_eq_fresh / reuse_after_any_history for every old evaluator state, "
        "reset_is_needed (without the two reset statements a leftover operand changes a later result)",
        "VALUES of the fixed-point evaluator are inside the Lean model (Model/EvalFixed.lean: FixedFrom, || && == != < "
        "<= > >= + - * / % with the string fall-backs and the configured division by zero, the signs, abs ceil floor round "
        "max min if — composed from the C03 model Model/Fixed.lean and the C04 model Model/FixedText.lean) and compared "
        "directly, model vs code, by the fxval stream; fixed_value_render (Evaluate(render e) = value of the tree), "
        "fixed_operators_are_f64 / fixed_operators_exact / fixed_functions_are_f64 / fixed_floor_spec, "
        "div_by_zero_configured / div_by_zero_render, sign_on_literal / sign_applies_to_operand_value, "
        "bool_counts_as_one, string_fallbacks, fixed_value_no_panic",
        "VALUES of the float evaluators are inside the Lean model as well (Model/EvalFloat.lean over Model/EvalSoftFloat.lean: "
        "IEEE-754 binary64 and binary32 on BIT PATTERNS by exact rational arithmetic, round to nearest even — "
        "strconv.ParseFloat on decimal literals at the evaluator's own bit size, + - * /, math.Mod, the comparisons with NaN "
        "unordered, signs, abs ceil floor round, the built-in max/min with -0 < +0 and NaN, if, the string fall-backs incl. the "
        "%v text of a NUMBER = strconv's shortest %g, SoftFloat.fmtG) and "
        "compared bit for bit, model vs code, by the flval stream (every line also on a REUSED evaluator); "
        "float_value_render / float_value_render_vars / float_value_whitespace, float_operators_are_ieee, "
        "float_functions_are_ieee, float_div_by_zero_configured / float_div_by_zero_render with the contrast "
        "float_zero_test_is_needed, float_sign_on_literal / float_sign_applies_to_operand_value, float_evaluate_no_panic, "
        "float_rounding_nearest_even / float_encoding_decodes (what the model's rounding IS), float_order_total / "
        "float_nan_unordered / float_mul_comm, float_number_meets_text",
        "literals with an exponent inside the FIXED evaluator (f64.FromString's ParseFloat branch, then From[T](float64) = one "
        "float64 product with the multiplier, truncated) are computed by the model too, for every grammar of ParseFloat "
        "(decimal, `_`-separated, hexadecimal: C04's FixedText.fromStrX64, Model/FixedTextExp.lean); fixed_exponent_literal",
        "the evaluator STATE between calls is explicit: after an accepted call the reduced stacks, after a rejected parse "
        "the stacks at that error exit (Eval.leftoverOn: every exit of parse / processOperator / processFunction with the "
        "mutations made by then); reuse_after_any_call, state_after_call, reset_is_needed_after_rejection; tied to the "
        "real Evaluator's stacks by the advisory white-box area `state`",
        "NOT modelled in Lean (opaque `outside` in the model, taken from the implementation): the operator ^ (math.Pow), "
        "sqrt cbrt exp exp2 log log10 log1p, hexadecimal and `_`-separated literals of the FLOAT evaluators, the %v text of a float number on an exact "
        "tie between two shortest digit strings, exponent literals of the fixed evaluator whose scaled value leaves int64 (the Go specification leaves that "
        "conversion to the implementation); they are tied by the val stream (the model's tree walked with the library's "
        "operators, each application judged by an independent reference — Go float arithmetic / f64 methods — on ten real "
        "evaluators)"]
    ctx.assumptions += ["variable resolvers answer with literals (text without `$`): the Go loop in replaceVariables re-scans "
                        "its own output, so chains ($a -> $b -> 7) are followed but a self-referential answer ($x -> $x) "
                        "never returns; this is the one resolver hypothesis (h36) of the no-panic theorems",
                        "function calls in well-formed expressions have the arity of the function (`max()` vs `max( )` "
                        "and `abs(1,2)` vs `abs(1 , 2)` evaluate differently and are not counted as well-formed)",
                        "the model's nesting budget (the Go code has none) is len*33+1 in the driver: enough for resolver "
                        "answers up to 32 bytes longer than `$name`"]
    ctx.lean(props=["Props.C09"], drivers=["drv_c09"])
    ctx.harness("./cmd/c09", overlay={"eval/verif_c09_stacks.go": "c09_stacks.go"})
    if ctx.replay:
        rep = json.load(open(ctx.replay))
        if rep.get("area") == "struct":
            ctx.diff(area="struct", driver="drv_c09", n=1, stateful=True)
        elif rep.get("area") == "wf":
            outs = ctx.run_impl("wf", rep["ops"]) or []
            _oracle(ctx, "wf", rep["ops"], outs, "replay", [0])
            print("replay wf:", outs)
        elif rep.get("area") == "val":
            _val(ctx, None, only=rep.get("val_t_lines") or [])
        elif rep.get("area") == "fxval":
            _fxval(ctx, None, only=rep["ops"])
        elif rep.get("area") == "flval":
            _flval(ctx, None, only=rep["ops"])
        return
    ctx.diff(area="struct", driver="drv_c09", n={"quick": 120000, "thorough": 6000000}, stateful=True,
             trivial=lambda l, o: o in ("err", "ok -"),
             tagger=lambda l, o: ("struct:" + o.split(" ", 1)[0]) if l[:1] in "sf" else None,
             theorem="C09.parse_render / evaluate_render / evaluate_no_panic / precedence_table are about "
                     "Eval.parseLoop / Eval.evaluate; the implementation builds a different tree (or fails differently) "
                     "than the model on this input")
    _wf(ctx, {"quick": 30000, "thorough": 1500000})
    _val(ctx, {"quick": 30000, "thorough": 1000000})
    _fxval(ctx, {"quick": 120000, "thorough": 4000000})
    _flval(ctx, {"quick": 100000, "thorough": 2000000})
    _state(ctx, {"quick": 30000, "thorough": 600000})
