"""C18 — rectangles, affine matrices, contours: Lean model `Model/Geom.lean` (polymorphic; run at Int and at core Lean's
exact Rat), theorems `Props/C18.lean` (proved for every linearly ordered commutative ring / field, instantiated at the
two run-time types)."""

import json
from concurrent.futures import ThreadPoolExecutor


def _oracle(ctx, area, n, label):
    """Like ctx.impl_oracle, but the hand-written corpus lines of the area run first, the work is spread over the
    cores, the harness' `ok <tags>` answers are counted, and a replay of this area is re-run."""
    if "harness" not in ctx.harness_bin:
        return
    if ctx.replay:
        rep = json.load(open(ctx.replay))
        if rep.get("area") != area:
            return
        outs = ctx.run_impl(area, rep["ops"]) or []
        ctx.evals += len(rep["ops"])
        for l, o in zip(rep["ops"], outs):
            print("replay: %s -> %s" % (l[:200], o[:400]))
            if not o.startswith("ok"):
                ctx.violations.append({"kind": "impl-oracle", "what": "replay still fails: " + o[:200],
                                       "replay": ctx.replay, "concrete": True})
        return
    total = n[ctx.tier] if isinstance(n, dict) else n
    lines = ctx.corpus(area) + ctx.gen(area, ctx.seed * 7919 + 17, total)
    k = 14
    chunks = [lines[i::k] for i in range(k)]
    with ThreadPoolExecutor(max_workers=k) as ex:
        res = list(ex.map(lambda c: ctx.run_impl(area, c, timeout=300) if c else [], chunks))
    if any(r is None for r in res):
        return
    lines = [l for c in chunks for l in c]
    outs = [o for r in res for o in r]
    ctx.rules.append("area %s (%s): implementation-side oracle, no Lean model; counted separately (oracle_%s, "
                     "oracle_%s_<tag>)" % (area, label, area, area))
    bad = 0
    key = "oracle_" + area
    for l, o in zip(lines, outs):
        ctx.extra[key] = ctx.extra.get(key, 0) + 1
        kind = key + "_" + l.split(" ", 1)[0]
        ctx.extra[kind] = ctx.extra.get(kind, 0) + 1
        if o.startswith("ok"):
            for t in o.split()[1:]:
                ctx.extra[key + "_" + t] = ctx.extra.get(key + "_" + t, 0) + 1
            if len(ctx.samples) < 16 and ctx.extra[key] % 50000 == 1:
                ctx.samples.append({"area": area, "op": l[:200], "oracle": o[:200]})
            continue
        if o == "skipped-after-crash":
            continue
        known = ctx._known_match(area, l, [l])
        if known:
            ctx.known_hits.append(known)
            continue
        bad += 1
        if bad <= 3:
            rep = {"property": ctx.id, "kind": "impl-oracle", "area": area, "harness": "harness", "ops": [l],
                   "impl_outputs": [o], "concrete_failing_input": True, "note": label}
            ctx.violations.append({"kind": "impl-oracle", "what": "%s: %s on `%s`" % (area, o[:400], l[:200]),
                                   "replay": ctx._write_replay(rep), "concrete": True})


def run(ctx):
    ctx.modelled += [
        "float64 is modelled by exact rational arithmetic (core Lean `Rat`); the correspondence run only uses inputs "
        "(small dyadic rationals; contour queries filtered so that every quotient is representable) on which every "
        "float64 operation of the source is exact, and demands equality of the exact values (both zeros print as 0)",
        "Go int overflow: the rectangle layer is ALSO run at Int64 with wrap-around (stream `rw` of area rect: the same "
        "polymorphic functions of Model/Geom.lean at Lean's Int64), on inputs where X+Width, the recomputed sizes of "
        "Intersect/Union/Expand or Width-insets overflow (edges 1..12 beyond MaxInt/MinInt, origins and sizes at the "
        "limits, rectangles three quarters of the range apart); Go and the model must wrap identically. "
        "C18.int64_agrees / contains_iff_int64 / intersects_iff_int64 / intersect_spec_int64 prove the laws for machine "
        "integers under explicit no-overflow conditions, C18.int64_wrap_contrast shows them fail beyond. The `ri` "
        "stream (model at Int) keeps to inputs on which no intermediate value of the source leaves int64 (pairs shifted "
        "to the corners of the range and to 2^40..2^61). The Point/Size/Rect arithmetic of area `arith` is likewise ALSO "
        "run at Int64 (stream `aw`: operands at the limits, overflowing sums / differences / products, MinInt / -1, "
        "division by zero); C18.int64_expand_inset_agree / expand_spec_int64 / int64_point_size_agree prove agreement "
        "with the integer functions under the no-overflow conditions of exactly the operations each method performs, "
        "C18.int64_arith_wrap_contrast shows the failure beyond",
        "float64 UNDER ROUNDING, model-based (stream `rd` of area rect): the same polymorphic rectangle functions run at "
        "Lean's Float (IEEE double) on the non-dyadic pairs of the floatspec generator (fractional coordinates and "
        "sizes, abutting through the rounded far edge, an edge one ulp off, probe points on an edge and one ulp beside "
        "it, tiny/large/mixed magnitudes) and are compared with Go bit for bit (IEEE bit patterns; both zeros as 0): "
        "Contains / Intersects / Intersect / Union / Point.In / Expand / Inset / Empty / Right / Bottom / Center / the "
        "corners. A predicate that rounds the far edge differently from the source (offset form p.X-r.X < r.Width) is "
        "reported on a float input. Trusted here: Lean's Float is the platform's IEEE double (+, -, /2, comparisons)",
        "Matrix.Rotate/NewRotationMatrix are modelled with (sin, cos) as parameters; the harness passes the float64 "
        "values of math.Sin/math.Cos (exact comparison on matrices whose products with them are exact); the general "
        "rotation laws are checked implementation-side (area `rotate`, no Lean model): Rotate, RotateByDegrees, "
        "NewRotationMatrix, NewRotationByDegreesMatrix and n-fold Rotate (n up to 4000, against one rotation by n*theta) "
        "within 16 ulp (n*16) RELATIVE to the sum of the absolute terms of each coordinate, no absolute slack; angles "
        "densely within 1e-3..1e-12 of the quarter turns",
        "Contour.Bounds / Polygon.Bounds are run in the form of the source (Model/GeomExt.lean boundsSrc: min/max loop "
        "started at (MaxFloat64, MaxFloat64, -MaxFloat64, -MaxFloat64), sizes by extent() with its guard; the guarded "
        "Nextafter branch is a stub because C18.extent_guard_dead proves it unreachable in exact arithmetic); "
        "C18.bounds_src_rat proves this equal to the closed form the bounds theorems are about",
        "area `arith`: Point Add/Sub/Mul/Div/Neg/Dot/Cross/Floor/Ceil/EqualWithin, Size Add/Sub/Mul/Div/Floor/Ceil/Min/Max/"
        "ConstrainForHint, Rect.Center/Align, ConvertPoint/ConvertSize/ConvertRect at Go int and at float64 (exact "
        "dyadic values); the operations that differ between the two types are parameters of the model (int division "
        "truncates and panics on zero; Floor/Ceil are the identity on int; float division by zero prints +inf/-inf/nan); "
        "inputs on which Go int arithmetic would wrap are not generated",
        "HAND-TRANSCRIBED, outside the translator tie (gossa covers package xmath/geom only): every function of "
        "xmath/geom/poly that the model has — Contour.Contains (loop over c[i], c[(i+1)%len]; model: countP of edgeHit "
        "over Contour.edges, C18.contour_edges proves the edge list is that index walk), Contour.Bounds (min/max loop "
        "from MaxValue/MinValue + extent with its Nextafter branch), Polygon.Bounds / Contains / ContainsEvenOdd "
        "(loops; model: foldl union / any / countP), Polygon.Transform (Clone + in-place loop; model: nested List.map), "
        "Contour.Clone / Polygon.Clone / Polygon.Empty. Their link to the Go code is reading plus the correspondence "
        "lines `poly ccontains / cbounds / pcontains / pevenodd / pbounds / ptransform / pempty / pclone / cclone` "
        "(exact dyadic float64) and `pd cbounds / pbounds` (float64 under rounding); statements that merely unfold the "
        "model's map / countP (transform_maps_vertices, transform_compose, empty_polygon, evenodd_spec) are helper "
        "lemmas in Lemmas/GeomExt.lean and are NOT counted as property theorems",
        "Contour.Bounds / Polygon.Bounds UNDER ROUNDING, model-based (stream `pd` of area poly): the source form "
        "boundsSrc at Lean's Float with the guarded branch of extent transcribed (widenSrc: Nextafter(hi, MaxValue) - lo, "
        "then at most 4 further Nextafter widenings while hi is not below lo+size; nextUpF64 transcribes math.Nextafter "
        "towards MaxFloat64) on contours of magnitudes 2^52..MaxFloat64, mixed magnitudes and opposite huge signs, compared "
        "with Go bit for bit. PROVED: extent_widen_spec (for any `next`, the branch returns the first of its five "
        "candidates that encloses hi, the fifth if none does) and extent_guard_dead (branch unreachable in exact "
        "arithmetic). ONLY RUN, not proved: that one of the five candidates always encloses hi under IEEE rounding — in "
        "the generated domain at most ONE widening was ever needed for finite coordinates below MaxFloat64; for a vertex AT "
        "MaxFloat64 the cap is exhausted and the vertex is not In its bounds (corpus poly.bounds-double.ops; no finite far "
        "edge can exceed it); float32 is covered by the floatspec oracle only",
        "Polygon.Empty, Contour.Clone and Polygon.Clone are modelled as values (area `poly`, ops pempty/pclone/cclone); "
        "that Clone returns nil for length 0, leaves the operand untouched and shares no storage with it is observed "
        "on the Go side and printed as part of the compared line",
        "NOT modelled: Rect.IntersectsLine (and line.go), the String methods, the JSON tags, the clipping operations "
        "of poly (Union/Intersect/Sub/Xor: other files)",
    ]
    ctx.assumptions += [
        "float rounding is not covered by the theorems: the Lean model computes in exact arithmetic (Int, Rat; Int64 with "
        "wrap-around for the rectangle layer) and the model-vs-code streams only use inputs on which every float "
        "operation is exact; integer overflow is covered for the rectangle predicates/Intersect/Union by the Int64 "
        "theorems, for Expand/Inset and the Point/Size arithmetic by int64_expand_inset_agree / int64_point_size_agree, "
        "all under their stated no-overflow conditions; Point.Div/Size.Div, Floor/Ceil, Center and Align at Int64 are "
        "compared with Go (stream aw) but have no transport theorem",
        "what is evidenced under float rounding, exactly (no tolerance), by the implementation-side oracle `floatspec` "
        "on non-dyadic float64/float32 inputs of tiny, large and mixed magnitudes: Rect Contains / Intersects / "
        "Intersect / Union / Point.In (below); Contour.Bounds (every vertex In the bounds, strict) and Polygon.Bounds "
        "(counted where Union's far edge is short); Polygon.Transform (every result vertex bit-identical to "
        "Matrix.TransformPoint of the original vertex, operand untouched, no shared storage); the identity matrix "
        "(identity.TransformPoint(p) = p, identity*m = m = m*identity, Translate(0,0), Scale(1,1)); Contour.Contains / "
        "Polygon.Contains / ContainsEvenOdd away from edges (exact crossing number in big.Rat; a case is judged only "
        "if the point keeps a margin of 64 eps times the coordinate magnitudes from every edge whose Y range holds "
        "it, otherwise counted as near-edge). The composition laws of Multiply / Translate / Scale under rounding are "
        "evidenced by the implementation-side oracle `compose` (non-dyadic float64/float32 entries of mixed magnitudes, "
        "translation-only / scale-only / identity / quarter-turn operands: m.Multiply(n).TransformPoint(p), "
        "m.Translate(..).TransformPoint(p), m.Scale(..).TransformPoint(p) against the exact composition computed in "
        "big.Rat, within 16 ulp of the sum of the absolute terms of the coordinate, no absolute slack); Rotate has the "
        "relative 16-ulp oracle `rotate`",
        "Contour.Bounds: the absorbed 1 of Width = 1+maxX-minX at large magnitudes (far vertices not In the bounds, or "
        "Empty bounds that Polygon.Bounds ignored) was repaired in /repo (commit c8f36a0); every generated bounds case "
        "is judged strictly at contour level and the four inputs of the defect run on every check "
        "(corpus/C18/floatspec.fixed-bounds-absorbed.ops, reverse patch seeded/revert-c18-bounds-absorbed). "
        "Polygon.Bounds still inherits Rect.Union's one-ulp-short far edge: generated cases where a vertex is not In "
        "Polygon.Bounds() are counted (oracle_floatspec_pbounds-short) under the existing Union known finding, not "
        "alarmed",
        "the evidence for the 'floating-point coordinates' clause under rounding is the implementation-side oracle "
        "area `floatspec` (float64 and float32 rectangles with non-dyadic coordinates, tiny/large magnitudes, zero and "
        "negative sizes): Contains <=> non-empty and the four extreme representable points of b are In a; Intersects "
        "<=> the candidate point (max lefts, max tops) is In both; Intersect is the zero Rect exactly when there is no "
        "common point and otherwise starts exactly at the candidate point; Union returns the other operand exactly "
        "for an empty operand and otherwise starts exactly at (min lefts, min tops); the far edges X+Width, "
        "Y+Height of Intersect/Union equal min/max of the operands' far edges only up to the rounding of the "
        "recomputed size (|difference| <= one ulp of the largest of |X|, |size|, |edge|; counted as "
        "oracle_floatspec_far-rounded, and oracle_floatspec_union-short when the union's rounded far edge ends below "
        "an operand's, so that the operand's last representable point is not In the union — inherent to the "
        "(X, Y, Width, Height) representation; oracle_floatspec_intersect-long is the mirror image for Intersect: its "
        "far edge rounds beyond an operand's, so its last representable point is not In both operands). This far-edge "
        "effect is a KNOWN FINDING recorded by call site (Rect.Union / Rect.Intersect): four specific inputs are judged "
        "strictly on every run (corpus/C18/floatspec.known-union-short.ops, op words fs64s/fs32s, matched against "
        "known_findings.json); other inputs of the class are counted, not alarmed; rectangles whose positive size is absorbed "
        "(fl(X+Width) == X: non-Empty but without representable point) are skipped and counted "
        "(oracle_floatspec_absorbed)",
    ]
    ctx.lean(props=["Props.C18"], drivers=["drv_c18"])
    ctx.modelled.append(
        "translator tie: the loop-free functions of xmath/geom (Rect Empty Right Bottom corners CenterX/Y Contains "
        "Intersects Intersect Union Expand Inset, Point.In, Insets Width/Height, Matrix constructors Translate Scale "
        "Multiply TransformPoint and the Point/Size/Insets arithmetic) are regenerated from the typed SSA form of the "
        "working tree on every run (gossa/ssagen geom, lean/Generated/SSA_Geom.lean) as definitions over an abstract "
        "coordinate type with exactly the operations the Go body uses (exact operations: overflow and float rounding are "
        "outside the C18 theorems) and proved equal to the functions of Model/Geom.lean for every such type "
        "(lean/Props/C18Gen.lean); trusted here: golang.org/x/tools/go/ssa and the translation in gossa/main.go")
    from vlib import gentie
    gentie.run(ctx, target="geom", generated="SSA_Geom.lean", module="Props.C18Gen", key="geom", namespace="C18Gen")
    ctx.harness("./cmd/c18")
    tg = lambda l, o: " ".join(l.split()[:2])
    th = "C18.%s (model = specification); impl != model on this input"
    ctx.diff(area="rect", driver="drv_c18", timeout=300, n={"quick": 400000, "thorough": 4000000}, tagger=tg,
             theorem=th % "contains_iff / intersects_iff / intersect_spec / union_covers / union_smallest / empty_absorbs / "
                          "expand_spec / inset_spec / int64_agrees / int64_expand_inset_agree (stream rw); stream rd: the "
                          "model at Lean Float under rounding")
    ctx.diff(area="matrix", driver="drv_c18", timeout=300, n={"quick": 200000, "thorough": 2000000}, tagger=tg,
             theorem=th % "transform_multiply / transform_translate / transform_scale / transform_rotate / identity_neutral")
    ctx.diff(area="poly", driver="drv_c18", timeout=300, n={"quick": 120000, "thorough": 2000000}, tagger=tg,
             theorem=th % "contour_contains_crossing / evenodd_crossing / polygon_contains_crossing / bounds_encloses / "
                          "bounds_tight / bounds_src_rat / extent_widen_spec (stream pd: Bounds at Lean Float); Transform / Clone / Empty and the "
                          "loops of Contains / ContainsEvenOdd are tied by these lines only")
    ctx.diff(area="arith", driver="drv_c18", timeout=300, n={"quick": 160000, "thorough": 2000000}, tagger=tg,
             theorem=th % "transform_point_arith / constrain_spec / int64_point_size_agree (stream aw)")
    ctx.impl_oracle("rotate", n={"quick": 20000, "thorough": 400000},
                    label="rotation law with rounding sin/cos products, tolerance 16 ulp of the largest term")
    _oracle(ctx, "compose", {"quick": 60000, "thorough": 1500000},
            "composition laws of Multiply / Translate / Scale and the identity under rounding (non-dyadic float64/float32 "
            "entries), against the exact composition in big.Rat, tolerance 16 ulp of the sum of the absolute terms")
    _oracle(ctx, "floatspec", {"quick": 300000, "thorough": 6000000},
            "point-set specifications of Contains/Intersects/Intersect/Union on the extreme representable points of "
            "non-dyadic float64/float32 rectangles")
