"""C18 — rectangles, affine matrices, contours: Lean model `Model/Geom.lean` (polymorphic; run at Int and at core Lean's
exact Rat), theorems `Props/C18.lean` (proved for every linearly ordered commutative ring / field, instantiated at the
two run-time types)."""


def run(ctx):
    ctx.modelled += [
        "float64 is modelled by exact rational arithmetic (core Lean `Rat`); the correspondence run only uses inputs "
        "(small dyadic rationals; contour queries filtered so that every quotient is representable) on which every "
        "float64 operation of the source is exact, and demands equality of the exact values (both zeros print as 0)",
        "Go int overflow of X+Width is outside the model (coordinates stay below 2^33)",
        "Matrix.Rotate/NewRotationMatrix are modelled with (sin, cos) as parameters; the harness passes the float64 "
        "values of math.Sin/math.Cos (exact comparison on matrices whose products with them are exact); the general "
        "rotation law is checked implementation-side within 16 ulp of the largest term (area `rotate`, no Lean model)",
        "Contour.Bounds starts its min/max loop at the first vertex instead of at +/-MaxFloat64 (same result for finite "
        "coordinates)",
    ]
    ctx.assumptions += ["float rounding and integer overflow are not covered by the theorems (exact arithmetic)"]
    ctx.lean(props=["Props.C18"], drivers=["drv_c18"])
    ctx.harness("./cmd/c18")
    tg = lambda l, o: " ".join(l.split()[:2])
    th = "C18.%s (model = specification); impl != model on this input"
    ctx.diff(area="rect", driver="drv_c18", n={"quick": 400000, "thorough": 4000000}, tagger=tg,
             theorem=th % "contains_iff / intersects_iff / intersect_spec / union_covers / union_smallest / empty_absorbs")
    ctx.diff(area="matrix", driver="drv_c18", n={"quick": 200000, "thorough": 2000000}, tagger=tg,
             theorem=th % "transform_multiply / transform_translate / transform_scale / transform_rotate / identity_neutral")
    ctx.diff(area="poly", driver="drv_c18", n={"quick": 200000, "thorough": 2000000}, tagger=tg,
             theorem=th % "contour_contains_crossing / evenodd_spec / bounds_encloses / transform_maps_vertices")
    ctx.impl_oracle("rotate", n={"quick": 20000, "thorough": 400000},
                    label="rotation law with rounding sin/cos products, tolerance 16 ulp of the largest term")
