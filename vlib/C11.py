"""C11 — error aggregation and wrapping: Lean heap model `Errs.append/wrap/…` (Model/Errs.lean), theorems Props/C11.lean."""


def _tag(line, out):
    w = line.split()
    if len(w) < 3:
        return None
    if w[2] == "append":
        n = len(w) - 4
        alias = "alias" if len(set(w[3:])) < len(w[3:]) else "distinct"
        return "append:%s:%s" % ("0" if n <= 0 else "1" if n == 1 else "2-3" if n <= 3 else "4+", alias)
    return w[2]


def run(ctx):
    ctx.modelled += [
        "stack capture is modelled by one bit per node (stack != nil); stack text, fmt verbs, errors.Is/As, Recovery and the "
        "slog glue are checked on the implementation only (oracle area `fmt`)",
        "pointer identity of foreign errors is modelled by a creation counter",
    ]
    ctx.assumptions += [
        "the Append theorems assume a well-formed heap (WF: links point forward, stay inside the heap, never reach an "
        "empty node; preserved by New/NewWithCause/&Error{}/Wrap/WrapTyped/Append — constructors_wf, append_wf) and "
        "NoAlias: no appended argument's chain ends in the accumulator's last cell; aliased calls (Append(a, b, a) "
        "contains a, b, a, b) and heaps built with CloneWithPrefixMessage (shared tails) are covered by the "
        "correspondence run only (append_alias_Statement, append_wf_any_Statement are stated, not proved)",
        "the model driver evaluates the Boolean form of WF on every heap of every history without clone and prints an "
        "alarm (a mismatch) if it fails",
        "Appendix B: when err is nil the first non-nil *Error argument is adopted as the accumulator (and mutated)",
    ]
    ctx.lean(props=["Props.C11"], drivers=["drv_c11"])
    ctx.harness("./cmd/c11")
    ctx.diff(area="errs", driver="drv_c11", n={"quick": 100000, "thorough": 1500000}, stateful=True, timeout=240,
             trivial=lambda l, o: False, tagger=_tag,
             theorem="C11.append_items / append_nil_iff / append_args_unchanged / count_eq / wrapped_errors_eq / wrap_* "
                     "(model = spec); impl != model on this history (every variable is re-observed after every call)")
    ctx.impl_oracle("fmt", {"quick": 3000, "thorough": 60000},
                    label="fmt verbs, stack text names the creating function, errors.Is/As/Unwrap reach the cause, "
                          "ErrorOrNil, Recovery, slog record")
