"""C11 — error aggregation and wrapping: Lean heap model `Errs.append/wrap/…` (Model/Errs.lean), theorems Props/C11.lean."""


def _tag(line, out):
    w = line.split()
    if len(w) < 3:
        return None
    if w[2] == "append":
        args = w[3:]
        n = len(args) - 1
        alias = "alias" if len(set(args)) < len(args) else "distinct"
        tag = "append:%s:%s" % ("0" if n <= 0 else "1" if n == 1 else "2-3" if n <= 3 else "4+", alias)
        # Appendix B observation: with a nil err the first non-nil *Error argument is adopted (the result IS that
        # argument, which is therefore mutated) — visible as the result sharing the identity of a later argument
        for tok in out.split(" "):
            if tok.startswith(w[0] + ":e#"):
                j = tok[len(w[0]) + 3:].split("[", 1)[0]
                if "v" + j != w[0] and "v" + j != args[0] and "v" + j in args[1:]:
                    tag += ":adopts-argument"
                break
        return tag
    return w[2]


def run(ctx):
    ctx.modelled += [
        "stack capture is modelled by one bit per node (stack != nil); stack text, fmt verbs, errors.Is/As, Recovery and the "
        "slog glue are checked on the implementation only (oracle area `fmt`)",
        "pointer identity of foreign errors is modelled by a creation counter",
    ]
    ctx.assumptions += [
        "the Append theorems assume a well-formed heap (WF: links point forward, stay inside the heap, never reach an "
        "empty node; proved for every heap New/NewWithCause/&Error{}/Wrap/WrapTyped/Append can build, with any "
        "aliasing — reachable_wf, append_wf_any) and, for the content/frame theorems, NoAlias: no appended argument's "
        "chain ends in the accumulator's last cell; the content of aliased calls (Append(a, b, a) contains a, b, a, b) "
        "is proved separately (append_items_alias); heaps built with CloneWithPrefixMessage (shared tails, links not "
        "forward) are covered by the correspondence run only",
        "the model driver evaluates the Boolean form of WF on every heap of every history without clone and prints an "
        "alarm (a mismatch) if it fails",
        "Appendix B: when err is nil the first non-nil *Error argument is adopted as the accumulator (and mutated)",
        "reading of 'the errors contained in its arguments': each argument is read as the value it has at the time "
        "Append consumes it — an argument that aliases the accumulator (Append(a, b, a)) is read after the accumulator "
        "has grown and contributes a, b; this is the content law append_items_alias (proved), not a violation",
    ]
    ctx.extra["observations"] = [
        "Appendix B: Append(nil, a, b) returns a itself (a is mutated; Count 2) — tag `adopts-argument` in tag_histogram "
        "counts the generated calls where this happened; not alarmed on",
        "aliased call: Append(a, b, a) contains a, b, a, b (Count 4): the second a is read after a has grown; model and "
        "implementation agree; outside append_items (hypothesis NoAlias); proved as append_items_alias",
        "fixed (f303e30): NewWithCause(msg, typed nil) kept the typed-nil cause and rendering panicked; the model drops "
        "it (newWithCause_cause), the stateful area renders such errors (`render` op, corpus + generated) and the fmt "
        "oracle renders them with every verb",
    ]
    ctx.lean(props=["Props.C11"], drivers=["drv_c11"])
    ctx.harness("./cmd/c11")
    ctx.diff(area="errs", driver="drv_c11", n={"quick": 100000, "thorough": 1500000}, stateful=True, timeout=240,
             trivial=lambda l, o: False, tagger=_tag,
             theorem="C11.append_items / append_nil_iff / append_args_unchanged / count_eq / wrapped_errors_eq / wrap_* "
                     "(model = spec); impl != model on this history (every variable is re-observed after every call)")
    ctx.impl_oracle("fmt", {"quick": 3000, "thorough": 60000},
                    label="fmt verbs, stack text names the creating function, errors.Is/As/Unwrap reach the cause, "
                          "ErrorOrNil, Recovery, slog record")
