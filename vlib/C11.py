"""C11 — error aggregation and wrapping: Lean heap model `Errs.append/wrap/…` (Model/Errs.lean), rendering with stack tokens
(Model/ErrsFmt.lean), the text of StackTrace over real frames (Model/ErrsTrace.lean), errors.Is/As, Recovery and the Log*
record (Model/ErrsWalk.lean); theorems Props/C11.lean."""


def _tag(line, out):
    w = line.split()
    if len(w) < 3:
        return None
    if w[2] == "append":
        args = w[3:]
        n = len(args) - 1
        alias = "alias" if len(set(args)) < len(args) else "distinct"
        tag = "append:%s:%s" % ("0" if n <= 0 else "1" if n == 1 else "2-3" if n <= 3 else "4+", alias)
        return tag
    return w[2]


def _tag_trace(line, out):
    w = line.split()
    if len(w) < 7:
        return None
    depth = max((int(x.split(":")[2]) for x in w[6:] if x.count(":") == 5), default=0)
    return "trace:%s:%s:%s" % ("trim" if w[1] == "1" else "full", "default-prefixes" if w[2].count(",") == 2 else "other-prefixes",
                              "deep" if w[4][1:].isdigit() and depth >= int(w[4][1:]) - 17 else "shallow")


def run(ctx):
    ctx.extra["level_note"] = (
        "proof: Append (content with and without aliasing, nil-iff, write log, frame, arguments unchanged, chains of Appends, "
        "heap invariant for every API-built heap incl. WrappedErrors elements; CONTRAST: without the cursor walk errors are "
        "lost, without the copy an argument grows), Count, WrappedErrors, Message/%s of single errors and aggregates; the "
        "recorded stack as an abstract token (captured by the creating function, never changed, kept by copies, listed along "
        "Append results); the TEXT of StackTrace/Detail over real frames: the frame loop = one line per shown frame joined by "
        "newlines (frames_text_spec), the trimmed trace starts with the creating function's frame (trace_names_creator; "
        "CONTRAST untrimmed_starts_in_library), every shown frame is listed, the shown file name is a suffix of the path and "
        "at least the base name (frame_file_shown), cause links point to older cells in every API-built heap incl. clones "
        "(built_causeWF) so the fuel never runs out (render_fuel_irrelevant) and a Detail ends with the WHOLE Detail of its "
        "*Error cause (detail_renders_cause, fmtV_renders_cause); errors.Is/As through Wrap/WrapTyped/NewWithCause reach the "
        "cause (wrap_is_reaches_cause, as_finds_error; walkFuel is proved sufficient - is_walk_fuel_enough - and "
        "wrap_is_transparent / is_through_constructors / errors_is_stable are fuel-free); histories: after ANY sequence of calls only links are written "
        "(history_only_links), one Append changes only what ends in the accumulator's last cell under any aliasing and the "
        "separation is an invariant (append_touches_only_accumulator, append_keeps_separation, "
        "append_chain_others_unchanged), WrappedErrors elements are independent (wrapped_elem_independent; CONTRAST "
        "cached_tail_copied_by_value_breaks_independence); Recovery hands the handler one new error caused by the panic value "
        "(recovery_hands_cause, recovery_string); the Log* record (log_record_spec). wrap_nil / wrapTyped_nil / "
        "wrap_idempotent / error_or_nil / newWithCause_cause / recovery_string / recoveryF_logF_are_plain / capture_records_creator / copy_keeps_stack / caused_by_structure / "
        "detail_foreign_or_no_cause / log_record_spec are unfoldings of the transcription (they carry the transcription, "
        "which the correspondence run ties to the code). Correspondence only: heaps after CloneWithPrefixMessage of an "
        "aggregate (outside WF); which frames runtime.Callers reports (input of the trace model, taken by the harness on the "
        "source line of the constructor; for an error made inside Recovery also runtime.gopanic, read from the recorded "
        "stack). Implementation-only (oracle `fmt`): fmt.Sprintf of Newf formats, errors.Is/As through Unwrap() []error "
        "and As methods, Recovery with non-error non-string panic values, slog levels/contexts/extra attributes, "
        "stackValue.LogValue.")
    ctx.modelled += [
        "a recorded stack is modelled twice: (errs) as a token (creating function + serial of the capture) beside the heap - "
        "on every `render` line the harness replaces the frame blocks of the real %v and %+v by the token it derives from the "
        "frames and compares %s, %q (printable ASCII messages) and %v/%+v with the model; (trace) as the list of real frames "
        "(function, file, line) that the harness takes itself with runtime.Callers on the source line of the constructor "
        "call - the model computes the WHOLE text of Detail(trim) from them (frame loop, filter incl. the main.main / "
        "_testmain.go rule, RuntimePrefixesToFilter sets, file shortening over 21 //line-directive file shapes, callStack's "
        "buffer, Caused-by recursion) and it must equal the library's %v / %+v / Error() byte for byte",
        "area trace also panics under errs.Recovery (ctor `recover`): the recorded stack is errs.Recovery, runtime.gopanic and "
        "the stack of the panicking function, and the whole text is compared; the default prefix set of the area is read from "
        "the variable errs.RuntimePrefixesToFilter at start-up",
        "measured, not copied: the size of callStack's buffer (an error created 20000 frames deep) and the message of "
        "Recovery's errors (one real panic) are read off the running code by the harness on every run and written into the "
        "lines; the model is parametric in both",
        "errors.Is / errors.As (ops `is`, `as`), errs.Recovery under a real panic with error / string / no panic / nil handler / "
        "panicking handler (op `recover`) and the ten errs.Log* entry points against a capturing slog handler (op `log`) are "
        "answered by the model (Model/ErrsWalk.lean); op `asf`: errors.As with a target of the dynamic type of any value "
        "(reflect.New), answered by errorsAs - the value found is compared by identity; errors.Is on a foreign wrapper around a nil *Error panics inside "
        "(*Error).Unwrap - the model predicts that outcome too",
        "pointer identity of foreign errors is modelled by a creation counter; comparability of their dynamic type by their kind",
    ]
    ctx.assumptions += [
        "the Append theorems assume a well-formed heap (WF: links point forward, stay inside the heap, never reach an "
        "empty node; proved for every heap New/NewWithCause/&Error{}/Wrap/WrapTyped/Append can build, with any "
        "aliasing — reachable_wf, append_wf_any) and, for the content/frame theorems, NoAlias: no appended argument's "
        "chain ends in the accumulator's last cell; the content of aliased calls (Append(a, b, a) contains a, b, a, b) "
        "is proved separately (append_items_alias); heaps built with CloneWithPrefixMessage (shared tails, links not "
        "forward) are covered by the correspondence run only",
        "the model driver evaluates the Boolean form of WF on every heap of every history without clone and prints an "
        "alarm (a mismatch) if it fails",
        "reading of 'the errors contained in its arguments': each argument is read as the value it has at the time "
        "Append consumes it — an argument that aliases the accumulator (Append(a, b, a)) is read after the accumulator "
        "has grown and contributes a, b; this is the content law append_items_alias (proved), not a violation",
    ]
    ctx.extra["observations"] = [
        "fixed (f2f6175): Append(nil, a, b) used to return a itself and grow it; now a nil err starts from nothing and every "
        "argument is copied (corpus errs.fixed-defects.ops, seeded/revert-c11-append-adopts)",
        "aliased call: Append(a, b, a) contains a, b, a, b (Count 4): the second a is read after a has grown; model and "
        "implementation agree; outside append_items (hypothesis NoAlias); proved as append_items_alias",
        "fixed (f303e30): NewWithCause(msg, typed nil) kept the typed-nil cause and rendering panicked; the model drops "
        "it (newWithCause_cause), the stateful area renders such errors (`render` op, corpus + generated) and the fmt "
        "oracle renders them with every verb",
    ]
    ctx.lean(props=["Props.C11"], drivers=["drv_c11"])
    ctx.harness("./cmd/c11")
    ctx.extra["hardening_audit"] = {
        "1 numeric magnitudes": "the API has no numeric inputs except format arguments and slog levels: Newf/NewWithCausef "
                                "with MaxInt64/MinInt64/MaxUint64/0/-1, floats (1e300, -Inf), width/index verbs, "
                                "missing/extra arguments; LogWithLevel/LogAttrsWithLevel with Warn, Debug-4, MaxInt32, Info "
                                "and levels one below the enabled one; counts with 1-4 digits in the Message header",
        "2 size thresholds": "aggregates of 12, 16/17, 32/33, 64/65, 100, 128/129, 256/257, 1000, 1024 elements in the "
                             "stateful stream (big histories, doubling through aliasing and +1) and in the oracle; call "
                             "stacks of depth 0..3000 around the 512-frame buffer; cause chains of depth 1..50",
        "3 entry points (model)": "answered by the Lean model in the stateful area: Append Count Message WrappedErrors ErrorOrNil "
                                  "Wrap WrapTyped New Newf NewWithCause NewWithCausef Unwrap CloneWithPrefixMessage "
                                  "Format(%s %q %v %+v) Error Detail StackTrace (token level), errors.Is, errors.As, Recovery, "
                                  "Log LogContext LogTo LogContextTo LogWithLevel LogAttrs LogAttrsContext LogAttrsTo "
                                  "LogAttrsContextTo LogAttrsWithLevel (record message + StackError); area trace: Detail / "
                                  "StackTrace / Error / %v / %+v / RuntimePrefixesToFilter / RawStackTrace over real frames",
        "3 entry points": "errors.go: CloneWithPrefixMessage Wrap WrapTyped New Newf NewWithCause NewWithCausef Append Count "
                          "Message Error Detail StackTrace RawStackTrace ErrorOrNil WrappedErrors Unwrap Format(%s %q %v %+v) "
                          "LogValue RuntimePrefixesToFilter; recovery.go: Recovery; log.go: Log LogContext LogTo LogContextTo "
                          "LogWithLevel LogAttrs LogAttrsContext LogAttrsTo LogAttrsContextTo LogAttrsWithLevel StackTraceKey "
                          "stackValue.StackError/LogValue — all called",
        "typed-nil kinds (ind4-c11-b)": "foreign error types of every kind the library's guard distinguishes: typed nils of "
                                        "pointer, slice (own type and go/scanner.ErrorList), map, func, chan; non-nil "
                                        "values of the same types (zero-length slice, empty map); struct/string/int error "
                                        "types with zero values — through Append (accumulator and every argument position), "
                                        "Wrap, WrapTyped, NewWithCause(f), Log*, Recovery; the expectation is the harness's "
                                        "own type switch and the model's single foreignNil notion; interface-in-interface "
                                        "and unsafe.Pointer cannot reach the guard through an error value",
        "4 callback outcomes": "Recovery with panic(string, empty string, error, sentinel, custom error, *Error, int, struct, "
                               "typed-nil *Error, typed-nil foreign pointer, nil, nil-map write, nil dereference, index out "
                               "of range), nil handler, panicking handler, no panic; slog handler that fails, disabled "
                               "levels, nil logger, nil context; foreign errors with Unwrap, Unwrap []error (Join), As method",
        "5 aliasing and reuse": "every variable is re-observed after every call; new op `elem` (element of WrappedErrors() "
                                "as accumulator/argument), clone as accumulator, the accumulator as its own argument; old "
                                "errors are rendered late and must name their own creating function (stack identity table)",
        "6 history shapes": "aggregates in first/middle/last position and two in a row; empty/nil-only calls; nil err with *Error arguments (every argument copied); "
                            "typed-nil causes; causes that wrap an *Error (fwrap, fmt.Errorf %w, errors.Join) rendered and "
                            "wrapped; messages empty, multi-line, with % verbs, with the library's own marker texts, UTF-8",
        "7 independent oracles": "Count/Message/WrappedErrors/identity come from the Lean model; %q from strconv.Quote; "
                                 "Newf messages from fmt.Sprintf; the whole trace (function sequence, trimmed and untrimmed) "
                                 "from runtime.Callers taken on the same source line as the creating call",
        "8 hangs": "per-line watchdog on burnt CPU time (1 s) and heap (1 GiB): answers `hang`, then skips the stream",
        "9 no false alarms": "file names, line numbers and path shortening are not compared (only `file:line` shape); "
                             "control-c11-1 stays silent",
    }
    ctx.diff(area="errs", driver="drv_c11", n={"quick": 100000, "thorough": 1000000}, stateful=True, timeout=240,
             trivial=lambda l, o: False, tagger=_tag,
             theorem="C11.append_items / append_items_alias / append_nil_iff / append_args_unchanged / count_eq / "
                     "wrapped_errors_eq / wrap_* (model = spec); impl != model on this history (every variable is "
                     "re-observed after every call)")
    # the WHOLE text of Detail(trim) = %v / %+v over real frames: frame loop, filter, file shortening, 512-entry buffer and
    # the Caused-by recursion (Model/ErrsTrace.lean) against the library; the frames are taken by the harness with
    # runtime.Callers on the source line of every constructor call
    ctx.diff(area="trace", driver="drv_c11", n={"quick": 4000, "thorough": 60000}, stateful=False, timeout=240,
             trivial=lambda l, o: not o.startswith("D:"), tagger=_tag_trace,
             theorem="C11.frames_text_spec / trace_names_creator / detail_shape (model = spec); the text of Detail(trim) "
                     "differs from the model's transcription of StackTrace on the frames runtime.Callers reports")
    ctx.impl_oracle("fmt", {"quick": 2500, "thorough": 40000},
                    label="fmt verbs, whole stack trace against runtime.Callers at the creation site, errors.Is/As/Unwrap "
                          "through every constructor, ErrorOrNil, Recovery with every panic value kind, every errs/log.go "
                          "entry point, LogValue, RuntimePrefixesToFilter")
