"""C11 — error aggregation and wrapping: Lean heap model `Errs.append/wrap/…` (Model/Errs.lean), theorems Props/C11.lean."""


def _tag(line, out):
    w = line.split()
    if len(w) < 3:
        return None
    if w[2] == "append":
        args = w[3:]
        n = len(args) - 1
        alias = "alias" if len(set(args)) < len(args) else "distinct"
        tag = "append:%s:%s" % ("0" if n <= 0 else "1" if n == 1 else "2-3" if n <= 3 else "4+", alias)
        return tag
    return w[2]


def run(ctx):
    ctx.extra["level_note"] = (
        "proof: Append (content with and without aliasing, nil-iff, write log, frame, arguments unchanged, chains of Appends, "
        "heap invariant for every API-built heap incl. WrappedErrors elements), Count, WrappedErrors, Message/%s of single "
        "errors and aggregates, the Caused-by structure of %v/%+v, and the recorded stack as an abstract token (captured by "
        "the creating function, never changed afterwards, kept by copies, listed along Append results); wrap_nil / "
        "wrapTyped_nil / wrap_idempotent / error_or_nil / capture_records_creator / copy_keeps_stack / caused_by_structure "
        "are unfoldings of the transcription (they carry the transcription, which the correspondence run ties to the code). "
        "append_args_unchanged covers EVERY argument (since fix f2f6175 a nil err copies its first argument too). "
        "Implementation-only: frames below the creating function, file:line text, errors.Is/As, "
        "Unwrap() []error, Recovery, slog. Not covered by the Append theorems: heaps after CloneWithPrefixMessage of an "
        "aggregate (shared tails; correspondence only).")
    ctx.modelled += [
        "a recorded stack is modelled as a token (creating function + serial of the capture) beside the heap; on every "
        "`render` line the harness replaces the frame blocks of the real %v and %+v by the token it derives from the frames "
        "and compares %s, %q (printable ASCII messages) and %v/%+v with the model; frames below the creator, errors.Is/As, "
        "Recovery and the slog glue are checked on the implementation only (oracle area `fmt`)",
        "pointer identity of foreign errors is modelled by a creation counter",
    ]
    ctx.assumptions += [
        "the Append theorems assume a well-formed heap (WF: links point forward, stay inside the heap, never reach an "
        "empty node; proved for every heap New/NewWithCause/&Error{}/Wrap/WrapTyped/Append can build, with any "
        "aliasing — reachable_wf, append_wf_any) and, for the content/frame theorems, NoAlias: no appended argument's "
        "chain ends in the accumulator's last cell; the content of aliased calls (Append(a, b, a) contains a, b, a, b) "
        "is proved separately (append_items_alias); heaps built with CloneWithPrefixMessage (shared tails, links not "
        "forward) are covered by the correspondence run only",
        "the model driver evaluates the Boolean form of WF on every heap of every history without clone and prints an "
        "alarm (a mismatch) if it fails",
        "reading of 'the errors contained in its arguments': each argument is read as the value it has at the time "
        "Append consumes it — an argument that aliases the accumulator (Append(a, b, a)) is read after the accumulator "
        "has grown and contributes a, b; this is the content law append_items_alias (proved), not a violation",
    ]
    ctx.extra["observations"] = [
        "fixed (f2f6175): Append(nil, a, b) used to return a itself and grow it; now a nil err starts from nothing and every "
        "argument is copied (corpus errs.fixed-defects.ops, seeded/revert-c11-append-adopts)",
        "aliased call: Append(a, b, a) contains a, b, a, b (Count 4): the second a is read after a has grown; model and "
        "implementation agree; outside append_items (hypothesis NoAlias); proved as append_items_alias",
        "fixed (f303e30): NewWithCause(msg, typed nil) kept the typed-nil cause and rendering panicked; the model drops "
        "it (newWithCause_cause), the stateful area renders such errors (`render` op, corpus + generated) and the fmt "
        "oracle renders them with every verb",
    ]
    ctx.lean(props=["Props.C11"], drivers=["drv_c11"])
    ctx.harness("./cmd/c11")
    ctx.extra["hardening_audit"] = {
        "1 numeric magnitudes": "the API has no numeric inputs except format arguments and slog levels: Newf/NewWithCausef "
                                "with MaxInt64/MinInt64/MaxUint64/0/-1, floats (1e300, -Inf), width/index verbs, "
                                "missing/extra arguments; LogWithLevel/LogAttrsWithLevel with Warn, Debug-4, MaxInt32, Info "
                                "and levels one below the enabled one; counts with 1-4 digits in the Message header",
        "2 size thresholds": "aggregates of 12, 16/17, 32/33, 64/65, 100, 128/129, 256/257, 1000, 1024 elements in the "
                             "stateful stream (big histories, doubling through aliasing and +1) and in the oracle; call "
                             "stacks of depth 0..3000 around the 512-frame buffer; cause chains of depth 1..50",
        "3 entry points": "errors.go: CloneWithPrefixMessage Wrap WrapTyped New Newf NewWithCause NewWithCausef Append Count "
                          "Message Error Detail StackTrace RawStackTrace ErrorOrNil WrappedErrors Unwrap Format(%s %q %v %+v) "
                          "LogValue RuntimePrefixesToFilter; recovery.go: Recovery; log.go: Log LogContext LogTo LogContextTo "
                          "LogWithLevel LogAttrs LogAttrsContext LogAttrsTo LogAttrsContextTo LogAttrsWithLevel StackTraceKey "
                          "stackValue.StackError/LogValue — all called",
        "typed-nil kinds (ind4-c11-b)": "foreign error types of every kind the library's guard distinguishes: typed nils of "
                                        "pointer, slice (own type and go/scanner.ErrorList), map, func, chan; non-nil "
                                        "values of the same types (zero-length slice, empty map); struct/string/int error "
                                        "types with zero values — through Append (accumulator and every argument position), "
                                        "Wrap, WrapTyped, NewWithCause(f), Log*, Recovery; the expectation is the harness's "
                                        "own type switch and the model's single foreignNil notion; interface-in-interface "
                                        "and unsafe.Pointer cannot reach the guard through an error value",
        "4 callback outcomes": "Recovery with panic(string, empty string, error, sentinel, custom error, *Error, int, struct, "
                               "typed-nil *Error, typed-nil foreign pointer, nil, nil-map write, nil dereference, index out "
                               "of range), nil handler, panicking handler, no panic; slog handler that fails, disabled "
                               "levels, nil logger, nil context; foreign errors with Unwrap, Unwrap []error (Join), As method",
        "5 aliasing and reuse": "every variable is re-observed after every call; new op `elem` (element of WrappedErrors() "
                                "as accumulator/argument), clone as accumulator, the accumulator as its own argument; old "
                                "errors are rendered late and must name their own creating function (stack identity table)",
        "6 history shapes": "aggregates in first/middle/last position and two in a row; empty/nil-only calls; nil err with *Error arguments (every argument copied); "
                            "typed-nil causes; causes that wrap an *Error (fwrap, fmt.Errorf %w, errors.Join) rendered and "
                            "wrapped; messages empty, multi-line, with % verbs, with the library's own marker texts, UTF-8",
        "7 independent oracles": "Count/Message/WrappedErrors/identity come from the Lean model; %q from strconv.Quote; "
                                 "Newf messages from fmt.Sprintf; the whole trace (function sequence, trimmed and untrimmed) "
                                 "from runtime.Callers taken on the same source line as the creating call",
        "8 hangs": "per-line watchdog on burnt CPU time (1 s) and heap (1 GiB): answers `hang`, then skips the stream",
        "9 no false alarms": "file names, line numbers and path shortening are not compared (only `file:line` shape); "
                             "control-c11-1 stays silent",
    }
    ctx.diff(area="errs", driver="drv_c11", n={"quick": 100000, "thorough": 1000000}, stateful=True, timeout=240,
             trivial=lambda l, o: False, tagger=_tag,
             theorem="C11.append_items / append_items_alias / append_nil_iff / append_args_unchanged / count_eq / "
                     "wrapped_errors_eq / wrap_* (model = spec); impl != model on this history (every variable is "
                     "re-observed after every call)")
    ctx.impl_oracle("fmt", {"quick": 2500, "thorough": 40000},
                    label="fmt verbs, whole stack trace against runtime.Callers at the creation site, errors.Is/As/Unwrap "
                          "through every constructor, ErrorOrNil, Recovery with every panic value kind, every errs/log.go "
                          "entry point, LogValue, RuntimePrefixesToFilter")
