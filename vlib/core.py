"""Shared machinery of the /verif checks.

A check (vlib/Cxx.py) calls, in order:
  ctx.lean(...)       build the Lean property module(s) + model driver, audit axioms, scan for forbidden tokens
  ctx.harness(...)    build the Go harness against the *current working tree* of the repository
  ctx.diff(...)       correspondence: generated + corpus operations -> implementation outputs vs Lean model outputs
  ctx.impl_oracle(..) implementation-side oracle lines for glue outside the model (reported separately)
and core.finish() writes evidence/<id>.json, replays, prints VIOLATION / KNOWN-FINDING lines and sets the exit status.
"""
import fcntl
import hashlib
import json
import os
import re
import shutil
import subprocess
import sys
import time
from concurrent.futures import ThreadPoolExecutor

VERIF = os.path.dirname(os.path.dirname(os.path.abspath(__file__)))
LEAN = os.path.join(VERIF, "lean")
GO = os.path.join(VERIF, "go")
ALLOWED_AXIOMS = {"propext", "Classical.choice", "Quot.sound"}
FORBIDDEN = re.compile(r"\bsorry\b|\badmit\b|^\s*axiom\s|native_decide|bv_decide|implemented_by|\bunsafe\s|maxHeartbeats\s+0\b")
TRUSTED_BASE = [
    "Lean 4.33.0 kernel (lake build; leanchecker re-check in the thorough tier)",
    "axioms accepted: propext, Classical.choice, Quot.sound (anything else makes the obligation count as not discharged)",
    "hand-written Lean model of the Go source; tied to the code by the differential correspondence run of this check",
    "Go compiler/runtime and standard library; the harness under /verif/go",
]


def env_go():
    e = dict(os.environ)
    e["GOFLAGS"] = "-mod=mod"
    e["GOPROXY"] = "off"
    e.pop("GOTOOLCHAIN", None)  # 'local' breaks the go1.24.2 switch required by /repo/go.mod
    e.pop("GOSUMDB", None)
    return e


def sh(cmd, cwd=None, env=None, timeout=None, inp=None):
    p = subprocess.run(cmd, cwd=cwd, env=env, input=inp, stdout=subprocess.PIPE, stderr=subprocess.STDOUT,
                       timeout=timeout, text=True, errors="replace")
    return p.returncode, p.stdout


class Ctx:
    def __init__(self, pid, tier, seed, repo, replay=None):
        self.id = pid
        self.tier = tier
        self.seed = seed
        self.repo = os.path.abspath(repo)
        self.replay = replay
        tag = pid if self.repo == "/repo" else pid + "-" + hashlib.sha1(self.repo.encode()).hexdigest()[:8]
        # one run at a time owns .work/<tag>; a second concurrent run of the same check on the same tree (quick and
        # thorough started together, a --replay while a run is going) gets a private directory instead of wiping it
        os.makedirs(os.path.join(VERIF, ".work"), exist_ok=True)
        self._own = open(os.path.join(VERIF, ".work", tag + ".owner"), "w")
        self.private_work = False
        try:
            fcntl.flock(self._own, fcntl.LOCK_EX | fcntl.LOCK_NB)
        except OSError:
            tag = "%s.%d" % (tag, os.getpid())
            self.private_work = True
        self.work = os.path.join(VERIF, ".work", tag)
        shutil.rmtree(self.work, ignore_errors=True)
        os.makedirs(self.work, exist_ok=True)
        self.t0 = time.time()
        self.level = "proof"
        self.theorems = []          # [{name, axioms, ok}]
        self.lean_problems = []     # textual reasons the proof side is broken
        self.violations = []        # [{kind, what, replay}]
        self.known_hits = []
        self.evals = 0
        self.distinct = set()
        self.kinds = {}
        self.tags = {}
        self.samples = []
        self.rules = []
        self.assumptions = []
        self.extra = {}
        self.harness_bin = {}
        self.driver_bin = {}
        self.checker_cmds = []
        self.known = load_known(pid)
        self.modelled = []
        self.reported_lines = set()
        self.reported_total = {}
        if not replay:
            rd = os.path.join(VERIF, "replays")
            if os.path.isdir(rd):
                for fn in os.listdir(rd):
                    if fn.startswith(tag + "-") and fn.endswith(".json"):
                        os.remove(os.path.join(rd, fn))

    # ------------------------------------------------------------------ Lean side
    def lean(self, props, drivers=(), facts=True):
        """Build property modules and drivers; audit every theorem of the property files."""
        os.makedirs(os.path.join(VERIF, ".work"), exist_ok=True)
        with open(os.path.join(VERIF, ".work", "lean.lock"), "w") as lk:
            fcntl.flock(lk, fcntl.LOCK_EX)
            if facts:
                self._factgen()
            targets = list(props) + list(drivers)
            cmd = ["lake", "build"] + targets
            self.checker_cmds.append("cd lean && " + " ".join(cmd))
            rc, out = sh(cmd, cwd=LEAN, timeout=3600)
            if rc != 0:
                errs = [l for l in out.splitlines() if "error" in l][:8]
                self.lean_problems.append("lake build failed: " + " | ".join(errs))
                # try to find out which property modules still build, one by one
            names = []
            for mod in props:
                path = os.path.join(LEAN, mod.replace(".", "/") + ".lean")
                names += theorem_names(path)
            self._scan_forbidden(list(props) + ["Driver." + d[4:].upper() for d in drivers])
            audit = os.path.join(LEAN, "Audit", self.id + ".lean")
            os.makedirs(os.path.dirname(audit), exist_ok=True)
            with open(audit, "w") as f:
                for m in props:
                    f.write("import %s\n" % m)
                for n in names:
                    f.write("#print axioms %s\n" % n)
            self.checker_cmds.append("cd lean && lake env lean Audit/%s.lean   (#print axioms on every theorem)" % self.id)
            rc2, out2 = sh(["lake", "env", "lean", "Audit/%s.lean" % self.id], cwd=LEAN, timeout=3600)
            ax = parse_axioms(out2)
            for n in names:
                if n in ax:
                    bad = [a for a in ax[n] if a not in ALLOWED_AXIOMS]
                    ok = not bad
                    self.theorems.append({"name": n, "axioms": ax[n], "ok": ok})
                    if not ok:
                        self.lean_problems.append("theorem %s depends on axioms %s" % (n, bad))
                else:
                    self.theorems.append({"name": n, "axioms": None, "ok": False})
                    self.lean_problems.append("theorem %s does not check (no axiom report)" % n)
            if self.tier == "thorough" and rc == 0:
                for m in props:
                    cmdc = ["lake", "env", "leanchecker", m]
                    self.checker_cmds.append("cd lean && " + " ".join(cmdc))
                    rc3, out3 = sh(cmdc, cwd=LEAN, timeout=3600)
                    if rc3 != 0:
                        self.lean_problems.append("leanchecker rejected %s: %s" % (m, out3[-300:]))
            # snapshot the drivers while the lock is held: a concurrent run against another working tree (VERIF_REPO) may
            # regenerate Generated/*.lean and rebuild the shared binaries as soon as the lock is released
            for d in drivers:
                p = os.path.join(LEAN, ".lake", "build", "bin", d)
                if not os.path.exists(p):
                    self.lean_problems.append("driver %s was not built" % d)
                    continue
                snap = os.path.join(self.work, "%s.%d" % (d, os.getpid()))
                try:
                    shutil.copy2(p, snap)
                    self.driver_bin[d] = snap
                except OSError:
                    pass  # fall back to the shared binary

    def _factgen(self):
        src = os.path.join(GO, "cmd", "factgen")
        if not os.path.isdir(src):
            return
        gm = self._gomod()
        outp = os.path.join(self.work, "Facts.lean")
        rc, out = sh(["go", "run", "-modfile=" + gm, "./cmd/factgen", self.repo, outp], cwd=GO, env=env_go(), timeout=600)
        dst = os.path.join(LEAN, "Generated", "Facts.lean")
        if rc != 0 or not os.path.exists(outp):
            self.lean_problems.append("factgen could not read the source tables: " + out[-400:])
            return
        new = open(outp).read()
        old = open(dst).read() if os.path.exists(dst) else None
        if new != old:
            tmp = dst + ".tmp"
            with open(tmp, "w") as f:
                f.write(new)
            os.replace(tmp, dst)
        self.extra["facts_sha1"] = hashlib.sha1(new.encode()).hexdigest()

    def _closure(self, modules):
        """local Lean files transitively imported by the given modules (the property's own proof and model text)"""
        seen, todo = {}, list(modules)
        while todo:
            m = todo.pop()
            if m in seen:
                continue
            path = os.path.join(LEAN, m.replace(".", "/") + ".lean")
            if not os.path.exists(path):
                continue
            seen[m] = path
            for line in open(path, errors="replace"):
                mm = re.match(r"^\s*(?:public\s+)?import\s+(\S+)", line)
                if mm:
                    todo.append(mm.group(1))
        return seen

    def _scan_forbidden(self, modules):
        hits = []
        files = self._closure(modules)
        self.extra["lean_files_scanned"] = sorted(os.path.relpath(p, LEAN) for p in files.values())
        for p in files.values():
                incomment = 0
                for i, line in enumerate(open(p, errors="replace"), 1):
                    code = line
                    # strip block comments (coarse but sufficient: our sources do not nest them on one line)
                    if incomment:
                        if "-/" in code:
                            code = code.split("-/", 1)[1]
                            incomment = 0
                        else:
                            continue
                    while "/-" in code:
                        pre, rest = code.split("/-", 1)
                        if "-/" in rest:
                            code = pre + rest.split("-/", 1)[1]
                        else:
                            code = pre
                            incomment = 1
                            break
                    code = code.split("--", 1)[0]
                    if FORBIDDEN.search(code):
                        hits.append("%s:%d: %s" % (os.path.relpath(p, LEAN), i, line.strip()[:80]))
        self.extra["forbidden_token_hits"] = hits
        if hits:
            self.lean_problems.append("forbidden tokens in Lean sources: " + "; ".join(hits[:5]))

    # ------------------------------------------------------------------ Go side
    def _gomod(self):
        gm = os.path.join(self.work, "go.mod")
        if not os.path.exists(gm):
            txt = open(os.path.join(GO, "go.mod")).read()
            txt = re.sub(r"(replace github.com/richardwilkes/toolbox => ).*", r"\g<1>" + self.repo, txt)
            with open(gm, "w") as f:
                f.write(txt)
            shutil.copy(os.path.join(self.repo, "go.sum"), os.path.join(self.work, "go.sum"))
        return gm

    def harness(self, pkg, name="harness", tags="verif", race=False, overlay=None):
        """Build a harness binary against the repository's current working tree."""
        gm = self._gomod()
        out = os.path.join(self.work, name)
        cmd = ["go", "build", "-modfile=" + gm, "-tags", tags, "-o", out]
        if race:
            cmd.append("-race")
        if overlay:
            cmd += ["-overlay", self._overlay(overlay)]
        cmd.append(pkg)
        rc, o = sh(cmd, cwd=GO, env=env_go(), timeout=1200)
        if rc != 0 and overlay:
            # The white-box accessor no longer compiles against the working tree (e.g. an unexported identifier was
            # renamed).  Fall back to a black-box build: tag `nooverlay`, no -overlay; harnesses that support it carry a
            # stub under that tag.  What the white-box view would have shown is then simply not observed.
            cmd2 = ["go", "build", "-modfile=" + gm, "-tags", tags + " nooverlay", "-o", out]
            if race:
                cmd2.append("-race")
            cmd2.append(pkg)
            rc2, o2 = sh(cmd2, cwd=GO, env=env_go(), timeout=1200)
            if rc2 == 0:
                self.extra["overlay_fallback"] = "overlay did not compile against the working tree (%s); built black-box" % (
                    o.strip().splitlines()[-1][:200] if o.strip() else "?")
                rc, o = rc2, o2
        if rc != 0:
            self.violations.append({"kind": "build", "what": "harness does not build against the working tree: " + o[-1500:],
                                    "concrete": False})
            return None
        self.harness_bin[name] = out
        return out

    def _overlay(self, mapping):
        """mapping: {repo-relative path: file under /verif/go/overlay}"""
        ov = {"Replace": {os.path.join(self.repo, k): os.path.join(GO, "overlay", v) for k, v in mapping.items()}}
        p = os.path.join(self.work, "overlay.json")
        json.dump(ov, open(p, "w"))
        return p

    # ------------------------------------------------------------------ correspondence
    def run_impl(self, area, lines, name="harness", timeout=900, extra_env=None):
        """Run op lines through the harness; survive a dying process by attributing the death to one line."""
        binp = self.harness_bin.get(name)
        if not binp:
            return None
        env = dict(os.environ)
        env.update(extra_env or {})
        inp = "\n".join(lines) + "\n" if lines else ""
        try:
            p = subprocess.run([binp, "run", area], input=inp, stdout=subprocess.PIPE, stderr=subprocess.PIPE,
                               timeout=timeout, text=True, errors="replace", env=env, cwd=self.work)
            outs = p.stdout.split("\n")
            if outs and outs[-1] == "":
                outs.pop()
            if p.returncode == 0 and len(outs) == len(lines):
                return outs
            crashed = "crash:exit%d" % p.returncode
        except subprocess.TimeoutExpired:
            crashed = "crash:timeout"
        # slow path: flush per line to find the line that kills the process, then continue after it
        env["HX_FLUSH"] = "1"
        outs = []
        rest = list(lines)
        guard = 0
        while rest and guard < 20:
            guard += 1
            try:
                p = subprocess.run([binp, "run", area], input="\n".join(rest) + "\n", stdout=subprocess.PIPE,
                                   stderr=subprocess.PIPE, timeout=timeout, text=True, errors="replace", env=env, cwd=self.work)
                got = p.stdout.split("\n")
                rc = p.returncode
            except subprocess.TimeoutExpired as te:
                got = (te.stdout or b"").decode(errors="replace").split("\n") if isinstance(te.stdout, bytes) else (te.stdout or "").split("\n")
                rc = -999
            if got and got[-1] == "":
                got.pop()
            if rc == 0 and len(got) == len(rest):
                outs += got
                rest = []
                break
            got = got[:len(rest)]
            outs += got
            if len(got) < len(rest):
                outs.append(crashed)
                # a crash ends the history: skip to the next reset
                k = len(got) + 1
                while k < len(rest) and not rest[k].startswith("reset"):
                    outs.append("skipped-after-crash")
                    k += 1
                rest = rest[k:]
            else:
                rest = []
        while len(outs) < len(lines):
            outs.append("skipped-after-crash")
        return outs[:len(lines)]

    def run_model(self, driver, lines, timeout=1800):
        binp = self.driver_bin.get(driver) or os.path.join(LEAN, ".lake", "build", "bin", driver)
        if not os.path.exists(binp):
            return None
        inp = "\n".join(lines) + "\n" if lines else ""
        try:
            p = subprocess.run([binp], input=inp, stdout=subprocess.PIPE, stderr=subprocess.PIPE, timeout=timeout,
                               text=True, errors="replace")
        except subprocess.TimeoutExpired:
            return None
        outs = p.stdout.split("\n")
        if outs and outs[-1] == "":
            outs.pop()
        if p.returncode != 0 or len(outs) != len(lines):
            return None
        return outs

    def gen(self, area, seed, n, name="harness"):
        binp = self.harness_bin.get(name)
        rc, out = sh([binp, "gen", area, str(seed), str(n), self.tier], timeout=900, cwd=self.work)
        lines = out.split("\n")
        if lines and lines[-1] == "":
            lines.pop()
        return lines

    def corpus(self, area):
        d = os.path.join(VERIF, "corpus", self.id)
        lines = []
        if os.path.isdir(d):
            for fn in sorted(os.listdir(d)):
                if fn.startswith(area + ".") or fn.startswith(area + "-"):
                    for l in open(os.path.join(d, fn)):
                        l = l.rstrip("\n")
                        if l and not l.startswith("#"):
                            lines.append(l)
        return lines

    def diff(self, area, driver, n, name="harness", shards=None, stateful=False, trivial=None, theorem=None,
             model_only=None, canon=None, timeout=900, tagger=None, extra_env=None, what=None):
        """Correspondence run for one area.
        n: {"quick": N, "thorough": M} operations; stateful: histories separated by `reset` lines.
        trivial(line,out)->bool marks cases that do not count as non-trivial.
        model_only(line)->bool marks observables that are model detail, not property content (a mismatch there is
        reported without a concrete failing input unless the search finds one).
        canon(out)->out canonicalises both sides before comparison."""
        if name not in self.harness_bin:
            return
        if self.replay:
            return self._replay(area, driver, name, stateful, canon)
        total = n[self.tier] if isinstance(n, dict) else n
        shards = shards or (14 if self.tier == "thorough" else 4)
        per = max(1, total // shards)
        corpus = self.corpus(area)
        jobs = []
        if corpus:
            jobs.append(("corpus", corpus))

        def one(i):
            lines = self.gen(area, self.seed * 1000003 + i, per, name)
            return ("seed%d" % (self.seed * 1000003 + i), lines)

        with ThreadPoolExecutor(max_workers=min(shards, 16)) as ex:
            jobs += list(ex.map(one, range(shards)))

        def runboth(job):
            tag, lines = job
            io = self.run_impl(area, lines, name, timeout=timeout, extra_env=extra_env)
            mo = self.run_model(driver, lines, timeout=timeout * 2)
            return (tag, lines, io, mo)

        with ThreadPoolExecutor(max_workers=min(len(jobs), 16)) as ex:
            results = list(ex.map(runboth, jobs))
        rule = ("area %s: corpus lines first, then %d shards of generated operations (seed-derived SplitMix64); "
                "a case is the op line (within its history for stateful areas); non-trivial = output is not "
                "bad-op/reset and %s; distinct = distinct (op line, output) pairs" % (
                    area, shards, "passes the area's non-triviality rule" if trivial else "any executed operation"))
        self.rules.append(rule)
        for tag, lines, io, mo in results:
            if mo is None:
                self.violations.append({"kind": "correspondence", "concrete": False,
                                        "what": "model driver %s failed on stream %s/%s" % (driver, area, tag)})
                continue
            if io is None:
                continue
            mism = []
            for k, (l, a, b) in enumerate(zip(lines, io, mo)):
                if canon:
                    a, b = canon(a), canon(b)
                self.evals += 1
                kind = l.split(" ", 1)[0]
                self.kinds[area + ":" + kind] = self.kinds.get(area + ":" + kind, 0) + 1
                if tagger:
                    t = tagger(l, b)
                    if t:
                        self.tags[t] = self.tags.get(t, 0) + 1
                nontriv = not (b in ("bad-op", "") or l.startswith("reset")) and not (trivial and trivial(l, b))
                if nontriv:
                    self.distinct.add(hashlib.md5((area + "|" + l + "|" + b).encode()).digest()[:8])
                    if len(self.samples) < 6 or (len(self.samples) < 14 and k % 997 == 0):
                        self.samples.append({"area": area, "op": l[:300], "impl": a[:300], "model": b[:300]})
                if a != b and a != "skipped-after-crash":
                    mism.append(k)
            if mism:
                self._report_mismatches(area, driver, name, tag, lines, io, mo, mism, stateful, canon, theorem,
                                        model_only, what, extra_env)

    def _history(self, lines, k, stateful):
        if not stateful:
            return [lines[k]]
        s = k
        while s > 0 and not lines[s].startswith("reset"):
            s -= 1
        return lines[s:k + 1]

    def _mismatch(self, area, driver, name, hist, canon, extra_env=None):
        io = self.run_impl(area, hist, name, timeout=120, extra_env=extra_env)
        mo = self.run_model(driver, hist, timeout=240)
        if io is None or mo is None:
            return None
        for k, (a, b) in enumerate(zip(io, mo)):
            if canon:
                a, b = canon(a), canon(b)
            if a != b and a != "skipped-after-crash":
                return (k, io, mo)
        return None

    def _minimise(self, area, driver, name, hist, canon, extra_env=None, budget=80):
        """ddmin over the lines of one history (the first line, if a reset, is kept)."""
        head = hist[:1] if hist and hist[0].startswith("reset") else []
        body = hist[len(head):]
        runs = 0
        n = 2
        while len(body) >= 2 and runs < budget:
            chunk = max(1, len(body) // n)
            reduced = False
            for i in range(0, len(body), chunk):
                cand = body[:i] + body[i + chunk:]
                if not cand:
                    continue
                runs += 1
                if self._mismatch(area, driver, name, head + cand, canon, extra_env):
                    body = cand
                    n = max(n - 1, 2)
                    reduced = True
                    break
                if runs >= budget:
                    break
            if not reduced:
                if chunk == 1:
                    break
                n = min(len(body), n * 2)
        return head + body

    def _report_mismatches(self, area, driver, name, tag, lines, io, mo, mism, stateful, canon, theorem, model_only,
                           what, extra_env):
        reported = 0
        seen_kinds = set()
        for k in mism:
            kind = lines[k].split(" ", 1)[0]
            if kind in seen_kinds or reported >= 2 or self.reported_total.get(area, 0) >= 3:
                continue
            if (area, lines[k]) in self.reported_lines:
                continue
            self.reported_lines.add((area, lines[k]))
            seen_kinds.add(kind)
            hist = self._history(lines, k, stateful)
            if stateful and len(hist) > 2:
                hist = self._minimise(area, driver, name, hist, canon, extra_env)
            r = self._mismatch(area, driver, name, hist, canon, extra_env)
            if r is None:
                # not reproducible in isolation (order/time dependent): keep the original window
                hist = self._history(lines, k, stateful)
                fk, fio, fmo = len(hist) - 1, io[k - len(hist) + 1:k + 1], mo[k - len(hist) + 1:k + 1]
            else:
                fk, fio, fmo = r
            failing = hist[fk] if fk < len(hist) else hist[-1]
            known = self._known_match(area, failing, hist)
            if known:
                self.known_hits.append(known)
                continue
            concrete = not (model_only and model_only(failing))
            rep = {
                "property": self.id, "kind": "correspondence", "area": area, "stream": tag, "driver": driver,
                "harness": name, "ops": hist, "failing_line": failing, "failing_index": fk,
                "impl_outputs": fio, "model_outputs": fmo,
                "contradicts": theorem or ("the theorems of Props/%s.lean are about the model; the implementation "
                                           "differs from the model on this input" % self.id),
                "concrete_failing_input": concrete,
                "note": what or "",
            }
            path = self._write_replay(rep)
            self.violations.append({"kind": "correspondence", "what": "%s: impl=%s model=%s on `%s`" % (
                area, fio[fk][:120] if fk < len(fio) else "?", fmo[fk][:120] if fk < len(fmo) else "?", failing[:160]),
                "replay": path, "concrete": concrete})
            reported += 1
            self.reported_total[area] = self.reported_total.get(area, 0) + 1

    def _write_replay(self, rep):
        d = os.path.join(VERIF, "replays")
        os.makedirs(d, exist_ok=True)
        h = hashlib.sha1(json.dumps(rep, sort_keys=True).encode()).hexdigest()[:10]
        path = os.path.join(d, "%s-%s.json" % (os.path.basename(self.work), h))
        with open(path, "w") as f:
            json.dump(rep, f, indent=1)
        return path

    def _known_match(self, area, failing, hist):
        for k in self.known:
            if k.get("status") != "known":
                continue
            m = k.get("match", {})
            if m.get("area") not in (None, area):
                continue
            rx = m.get("line_regex")
            if rx and re.search(rx, failing):
                return k
        return None

    def _replay(self, area, driver, name, stateful, canon):
        rep = json.load(open(self.replay))
        if rep.get("area") != area or rep.get("harness", "harness") != name:
            return
        r = self._mismatch(area, driver, name, rep["ops"], canon)
        self.evals += len(rep["ops"])
        for l in rep["ops"]:
            self.distinct.add(l)
        self.samples.append({"replayed": rep["ops"][:5]})
        if r:
            fk, fio, fmo = r
            print("replay: still failing at line %d `%s`: impl=%s model=%s" % (fk, rep["ops"][fk], fio[fk], fmo[fk]))
            self.violations.append({"kind": "correspondence", "what": "replay still fails", "replay": self.replay,
                                    "concrete": rep.get("concrete_failing_input", True)})
        else:
            print("replay: implementation and model agree on every line of the replay")

    # ------------------------------------------------------------------ implementation-side oracles
    def impl_oracle(self, area, n, name="harness", label="", timeout=900, extra_env=None, args=None):
        """Run `harness oracle-style` areas: the harness itself judges (for glue that has no Lean model: fmt/JSON/YAML
        plumbing, stack text, schedules).  Each output line is `ok ...` or `FAIL <description>`."""
        if name not in self.harness_bin or self.replay:
            return
        total = n[self.tier] if isinstance(n, dict) else n
        lines = self.gen(area, self.seed * 7919 + 17, total, name)
        outs = self.run_impl(area, lines, name, timeout=timeout, extra_env=extra_env)
        if outs is None:
            return
        self.rules.append("area %s (%s): implementation-side oracle, no Lean model; counted separately" % (area, label))
        bad = 0
        for l, o in zip(lines, outs):
            self.extra["oracle_" + area] = self.extra.get("oracle_" + area, 0) + 1
            if o.startswith("FAIL") or o.startswith("crash") or o == "panic":
                known = self._known_match(area, l, [l])
                if known:
                    self.known_hits.append(known)
                    continue
                bad += 1
                if bad <= 3:
                    rep = {"property": self.id, "kind": "impl-oracle", "area": area, "harness": name, "ops": [l],
                           "impl_outputs": [o], "concrete_failing_input": True, "note": label}
                    path = self._write_replay(rep)
                    self.violations.append({"kind": "impl-oracle", "what": "%s: %s on `%s`" % (area, o[:200], l[:160]),
                                            "replay": path, "concrete": True})
            elif len(self.samples) < 16 and self.extra["oracle_" + area] % 500 == 1:
                self.samples.append({"area": area, "op": l[:200], "oracle": o[:200]})

    # ------------------------------------------------------------------ verdict
    def finish(self):
        wall = time.time() - self.t0
        for snap in self.driver_bin.values():
            try:
                os.remove(snap)
            except OSError:
                pass
        obligations = len(self.theorems)
        discharged = sum(1 for t in self.theorems if t["ok"])
        concrete = [v for v in self.violations if v.get("concrete")]
        abstract = [v for v in self.violations if not v.get("concrete")]
        lines_out = []
        seen = set()
        for k in self.known_hits:
            key = k.get("what")
            if key in seen:
                continue
            seen.add(key)
            lines_out.append("KNOWN-FINDING: property=%s %s" % (self.id, k.get("what")))
        exit_code = 0
        if concrete:
            for v in concrete:
                lines_out.append("# " + v["what"])
                lines_out.append("VIOLATION property=%s replay=%s" % (self.id, v["replay"]))
            exit_code = 1
        elif abstract or self.lean_problems:
            # proof or correspondence broken, and the search found no concrete failing input
            rep = {"property": self.id, "kind": "proof-or-correspondence-broken",
                   "no_longer_checks": self.lean_problems + [v["what"] for v in abstract],
                   "searched": "corpus + %d generated operations this run; no input found on which the implementation "
                               "departs from the specification" % self.evals,
                   "concrete_failing_input": False}
            path = abstract[0].get("replay") if abstract and abstract[0].get("replay") else self._write_replay(rep)
            for p in self.lean_problems:
                lines_out.append("# " + p)
            for v in abstract:
                lines_out.append("# " + v["what"][:400])
            lines_out.append("VIOLATION property=%s replay=%s no-failing-input-found" % (self.id, path))
            exit_code = 1
        cov = {
            "obligations": obligations,
            "discharged": discharged,
            "checker_cmd": " ; ".join(self.checker_cmds) or "none",
            "trusted_base": TRUSTED_BASE + self.modelled,
            "theorems": [{"name": t["name"], "axioms": t["axioms"], "discharged": t["ok"]} for t in self.theorems],
            "lean_problems": self.lean_problems,
            "evaluations": self.evals,
            "distinct_nontrivial": len(self.distinct),
            "rule": " || ".join(self.rules) or "no correspondence stream in this run",
            "samples": self.samples[:16] or [{"note": "no samples"}],
            "op_histogram": dict(sorted(self.kinds.items())),
            "tag_histogram": dict(sorted(self.tags.items())),
            "known_findings_hit": [k.get("what") for k in self.known_hits],
            "repo": self.repo,
        }
        cov.update(self.extra)
        ev = {
            "property_id": self.id, "tier": self.tier, "seed": self.seed, "level": self.level, "coverage": cov,
            "assumptions": self.assumptions, "wall_s": round(wall, 2), "violations": len(concrete) + (1 if (abstract or self.lean_problems) and not concrete else 0),
        }
        if self.repo == "/repo" and not self.replay:
            os.makedirs(os.path.join(VERIF, "evidence"), exist_ok=True)
            evp = os.path.join(VERIF, "evidence", self.id + ".json")
            with open(evp + ".%d.tmp" % os.getpid(), "w") as f:
                json.dump(ev, f, indent=1)
            os.replace(evp + ".%d.tmp" % os.getpid(), evp)
        else:
            with open(os.path.join(self.work, "evidence.json"), "w") as f:
                json.dump(ev, f, indent=1)
        print("%s tier=%s seed=%d: %d/%d obligations discharged, %d evaluations (%d distinct non-trivial), %.1fs" % (
            self.id, self.tier, self.seed, discharged, obligations, self.evals, len(self.distinct), wall))
        for l in lines_out:
            print(l)
        sys.stdout.flush()
        if self.private_work:
            shutil.rmtree(self.work, ignore_errors=True)
        return exit_code


def theorem_names(path):
    """Fully qualified names of the theorems of a property file (namespace blocks tracked)."""
    names = []
    ns = []
    if not os.path.exists(path):
        return names
    for line in open(path):
        m = re.match(r"^namespace\s+(\S+)", line)
        if m:
            ns.append(m.group(1))
            continue
        m = re.match(r"^end\s+(\S+)", line)
        if m and ns and ns[-1] == m.group(1):
            ns.pop()
            continue
        m = re.match(r"^(?:@\[[^\]]*\]\s*)?(?:protected\s+|private\s+)?theorem\s+(\S+)", line)
        if m:
            n = m.group(1)
            if n.startswith("_root_."):
                names.append(n[len("_root_."):])
            else:
                names.append(".".join(ns + [n]))
    return names


def parse_axioms(out):
    res = {}
    cur = None
    buf = ""
    for line in out.splitlines():
        m = re.match(r"^'([^']+)' depends on axioms: \[(.*)$", line)
        m2 = re.match(r"^'([^']+)' does not depend on any axioms", line)
        if m2:
            res[m2.group(1)] = []
            cur = None
            continue
        if m:
            cur = m.group(1)
            buf = m.group(2)
        elif cur is not None:
            buf += " " + line.strip()
        if cur is not None and "]" in buf:
            res[cur] = [a.strip() for a in buf.split("]")[0].split(",") if a.strip()]
            cur = None
            buf = ""
    return res


def load_known(pid):
    p = os.path.join(VERIF, "known_findings.json")
    if not os.path.exists(p):
        return []
    try:
        data = json.load(open(p))
    except Exception:
        return []
    return [k for k in data.get("findings", []) if k.get("property") == pid]
