"""C08 — BitSet: Lean model `BS.*` (Model/BitSet.lean), theorems Props/C08.lean, driver drv_c08, harness go/cmd/c08.

Audit against tools/HARDENING.md (what the streams exercise; generator go/cmd/c08/gen.go, corpus/C08/*.ops):
 1 magnitudes   calls that never allocate (State, Clear, ClearRange, the six searches) up to 2^20, 2^31-1, 2^31, 2^32±1,
                MaxInt/2±1, 2^62, MaxInt-64..MaxInt; stored indexes: powers of two ±1 up to 2^16 generated, 2^20 in the corpus
                (memory bounded: 16385 words); EnsureCapacity 0, -1, MinInt, 16384; words 0, 2^63, MaxUint64 in Load/popcnt.
 2 sizes        storage of 1,2,3,4,8,12,16,17,32,33,64,65 words (first/last bit of the edge word), Load of 12..129, 256 and
                1000 words, ranges of length 0,1,63,64,65,128,4096(±1), growth exactly at / one over / twice the capacity.
 3 entry points every exported method incl. Load(nil), Equal(nil), Equal(self), Copy(self), Clone of itself, Load(own Data()).
 4 callbacks    none in this API (negative indexes exit the process by design: outside the domain).
 5 aliasing     Clone/Copy: in-place change of either side, observe the other, with and without spare words, after Trim,
                after the destination held more, then growth again; Data()/Load(): the slice is scribbled on (bit set must
                not notice) or kept and re-checked after every later line (suffix ALIAS:...), alternating.
 6 shapes       drain to empty and regrow, the only element, the same element twice, Reset (twice) then reuse, sparse sets
                probed inside empty words and at bit 63/0 of a word, dense sets probed for clear bits, shape + free mix.
 7 oracles      every observation is judged by the Lean model; the scan bound is fixed (not LastSet); popcnt compares the
                source's countSetBits with the specification popcount, not with itself.
 8 hangs        every line runs under a 1.5 s deadline in a worker goroutine (`hang`, rest of the history skipped, stream
                skipped after 3); panics become `panic`; a process exit is attributed to its line by core.
 9 false alarms capacities, growth policy and unexported helpers are not compared (popcnt area is dropped when the helper
                is gone); controls control-c08-1/2/3/own1 stay silent.
"""

def _trivial(line, out):
    # a line says something about the bit set only if it prints an observation of a non-empty set or a search result
    return out in ("0", "-", "c=0 m=- f=-1 l=-1 d=-") or out.startswith("0 h=")


def _tag(line, out):
    w = line.split(" ")
    op = w[0]
    # arguments at the limit of Go's int (the checked-int model Model/BitSetMachine.lean is exercised where it matters)
    if op in ("state", "clr", "clrr", "next", "prev", "nextclr", "prevclr"):
        args = [int(x) for x in w[2:] if x.lstrip("-").isdigit()]
        if any(a == (1 << 63) - 1 for a in args):
            return op + ":at-MaxInt"
        if any(a >= 1 << 62 for a in args):
            return op + ":int-limit(>=2^62)"
    if op in ("setr", "clrr", "flipr") and len(w) == 4:
        s, e = int(w[2]), int(w[3])
        t = []
        if s > e:
            t.append("reversed")
            s, e = e, s
        span = e // 64 - s // 64
        t.append("1word" if span == 0 else ("2words" if span == 1 else "3+words"))
        return op + ":" + "+".join(t)
    if op in ("next", "prev", "nextclr", "prevclr"):
        return op + (":sentinel" if out == "-1" else ":found")
    if op == "equal":
        return "equal:" + out.replace(" ", "/")
    if op in ("state", "clr") and len(w) == 3 and int(w[2]) >= 1 << 20:
        return op + ":huge-index"
    if op == "ensure" and len(w) == 3:
        n = int(w[2])
        return "ensure:" + ("negative" if n < 0 else "zero" if n == 0 else "positive")
    if op in ("copy", "clone", "loaddata") and len(w) == 3:
        return op + (":self" if w[1] == w[2] else ":other")
    if op == "load" and len(w) == 3:
        k = 0 if w[2] == "-" else w[2].count(",") + 1
        allzero = w[2] == "-" or all(x == "0" for x in w[2].split(","))
        return "load:" + ("empty-set" if allzero else "<=8 words" if k <= 8 else "<=65 words" if k <= 65 else ">65 words")
    return None


def run(ctx):
    ctx.modelled += [
        "BitSet storage is a List (BitVec 64), `set` an unbounded Int (C08.count_bounds: within [0, 64*len]), indexes "
        "unbounded Nat in the value model; the driver ALSO executes every line with Go's 64-bit int made explicit "
        "(Model/BitSetMachine.lean: every int expression of the source that can grow is checked against math.MaxInt and "
        "would print `overflow`; C08.no_int_overflow*: it never wraps on a storage below 2^57 words, for arguments up to "
        "math.MaxInt); negative indexes exit the process by design and are outside the domain",
        "the driver executes the HEAP model (Model/BitSetHeap.lean: slice headers into a heap of arrays, in-place writes "
        "vs make+copy exactly as the code, the caller's slices in the same heap, scribbled on / watched as the Go harness "
        "does); C08.heap_refines / no_aliasing prove it separated and equal to the value model after every session; "
        "every line also runs with checked word accesses (Model/BitSetChecked.lean; C08.all_accesses_in_bounds*)",
        "object identity of *BitSet values (Clone returning a new pointer) is not modelled: registers A/B are names",
    ]
    ctx.assumptions += ["index >= 0 (validateBitSetIndex exits the process otherwise)",
                        "len(b.data)*64 <= math.MaxInt (fewer than 2^57 words; kept by every history whose storing calls "
                        "stay below index 2^61, C08.no_int_overflow_run; beyond it LastSet's `len<<6` wraps, "
                        "C08.int_overflow_contrast)",
                        "indexes that are STORED stay below 2^20 + 64 (the storage is index/64 words; the list model is "
                        "quadratic in the number of words); calls that never allocate (State, Clear, ClearRange, the "
                        "searches) are driven up to math.MaxInt"]
    ctx.lean(props=["Props.C08"], drivers=["drv_c08"])
    # Loop-level translator tie (added in the extension session): countSetBits, wordMask, bitIndexForMask, validateBitSetIndex, Count, State regenerated from the typed SSA of the working tree and proved EQUAL to the model functions (Props/C08Gen.lean).
    # ADVISORY: it is run, audited and recorded on every run (coverage.bitset_advisory; on the unchanged tree it shows that
    # the model functions ARE the code), but a broken tie alone raises no alarm - a structural tie of a function with
    # loops also breaks under a behaviour-preserving restructuring of those loops (all four C20 controls and three of
    # the C08 controls do that); the correspondence streams below decide.
    from vlib import gentie
    gentie.run(ctx, target="bitset", generated="SSA_Bitset.lean", module="Props.C08Gen", key="bitset", namespace="C08Gen", advisory=True)
    # the popcnt area needs the unexported helper countSetBits (overlay file).  The helper is not part of the property: if
    # a rewrite has removed or renamed it, the harness is built without that area instead of reporting a build failure
    nv = len(ctx.violations)
    popcnt = ctx.harness("./cmd/c08", tags="verif c08popcnt", overlay={"xmath/verif_c08_export.go": "c08_export.go"}) is not None
    if not popcnt:
        del ctx.violations[nv:]
        ctx.extra["popcnt_area"] = "skipped: xmath.countSetBits is not in the working tree (overlay does not build)"
        ctx.harness("./cmd/c08")
    ctx.diff(area="bitset", driver="drv_c08", n={"quick": 240000, "thorough": 12000000}, stateful=True,
             trivial=_trivial, tagger=_tag, timeout=300, shards=8 if ctx.tier == "quick" else None,
             theorem="C08.* (Props/C08.lean): the model is a finite set of naturals with the documented search results "
                     "and `set` = cardinality; the implementation differs from the model on this history")
    # `C08.countSetBits_eq_popcount` (proved for every word, Lemmas/BitSetSwar.lean) is about the transcription; this
    # stream ties the transcription to the source: Go countSetBits (exported by an overlay file) = the transcribed SWAR
    # routine = the specification popcount (the driver prints a different text when the last two differ)
    if popcnt:
        ctx.diff(area="popcnt", driver="drv_c08", n={"quick": 120000, "thorough": 4000000}, stateful=False,
                 theorem="C08.countSetBits_eq_popcount (used by range_count / count_card / step_spec): countSetBits of "
                         "the source differs from the population count on this word")
