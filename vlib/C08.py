"""C08 — BitSet: Lean model `BS.*` (Model/BitSet.lean), theorems Props/C08.lean, driver drv_c08, harness go/cmd/c08."""


def _trivial(line, out):
    # a line says something about the bit set only if it prints an observation of a non-empty set or a search result
    return out in ("0", "-", "c=0 m=- f=-1 l=-1 d=-")


def _tag(line, out):
    w = line.split(" ")
    op = w[0]
    if op in ("setr", "clrr", "flipr") and len(w) == 4:
        s, e = int(w[2]), int(w[3])
        t = []
        if s > e:
            t.append("reversed")
            s, e = e, s
        span = e // 64 - s // 64
        t.append("1word" if span == 0 else ("2words" if span == 1 else "3+words"))
        return op + ":" + "+".join(t)
    if op in ("next", "prev", "nextclr", "prevclr"):
        return op + (":sentinel" if out == "-1" else ":found")
    if op == "equal":
        return "equal:" + out.replace(" ", "/")
    return None


def run(ctx):
    ctx.modelled += [
        "BitSet storage is a List (BitVec 64), `set` an unbounded Int, indexes unbounded Nat: Go int overflow "
        "(indexes >= 2^57) is not modelled; negative indexes exit the process by design and are outside the domain",
        "Clone/Copy/Data are modelled by value; that the copies do not alias the receiver is checked on the "
        "implementation by the harness (it mutates one side / scribbles on the returned slice and observes the other)",
    ]
    ctx.assumptions += ["index >= 0 (validateBitSetIndex exits the process otherwise)", "no Go int overflow in index arithmetic"]
    ctx.lean(props=["Props.C08"], drivers=["drv_c08"])
    ctx.harness("./cmd/c08", overlay={"xmath/verif_c08_export.go": "c08_export.go"})
    ctx.diff(area="bitset", driver="drv_c08", n={"quick": 240000, "thorough": 12000000}, stateful=True,
             trivial=_trivial, tagger=_tag,
             theorem="C08.* (Props/C08.lean): the model is a finite set of naturals with the documented search results "
                     "and `set` = cardinality; the implementation differs from the model on this history")
    # `C08.countSetBits_eq_popcount` (proved for every word, Lemmas/BitSetSwar.lean) is about the transcription; this
    # stream ties the transcription to the source: Go countSetBits (exported by an overlay file) = the transcribed SWAR
    # routine = the specification popcount (the driver prints a different text when the last two differ)
    ctx.diff(area="popcnt", driver="drv_c08", n={"quick": 120000, "thorough": 4000000}, stateful=False,
             theorem="C08.countSetBits_eq_popcount (used by range_count / count_card / step_spec): countSetBits of the "
                     "source differs from the population count on this word")
