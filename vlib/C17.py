"""C17 — notifier: Lean model `Nt` (Model/Notifier.lean), theorems Props/C17.lean.

Correspondence: stateful protocol over 3 notifiers (0 normal recovery handler, 1 a handler that itself panics, 2 nil
handler) and 128 shared targets (0 plain, 1 batch, 2 plain+panicking, 3 batch+panicking, 4 batch, 6 re-entrant: performs
an armed Register/Unregister/SetEnabled/Reset/RegisterFromNotifier from inside HandleNotification; ids >= 5: batch iff
id%3 == 1, panicking iff id%5 == 2; panic values cycle through string / error / runtime error / typed-nil pointer / nil /
struct / errs.Error).  After every operation both sides print the calls the targets received (canonical: the
harness checks non-increasing priority on the raw delivery sequence against its own name->target->priority table and
prints `order-ok|order-bad`, then the calls sorted by priority descending / target ascending), the number of reports
the recovery handler got, BatchLevel() and Enabled() (area `notifier`, black box).  Area `nwb` is the same protocol with
`dump` lines that compare the three internal maps (white-box accessor injected with -overlay) with the model's
association lists: that observable is model detail (`model_only`) and is kept in a separate stream so that it cannot
mask a behavioural difference.  The `race` area is an implementation-side oracle run under the -race build."""

OVERLAY = {"notifier/zz_verif_dump.go": "c17_notifier_dump.go"}


def run(ctx):
    ctx.modelled += [
        "Go maps are modelled as association lists; iteration order of a Go map is unobservable in the canonical output "
        "(delivery order is compared only up to permutations within equal priority, batch calls as a sorted list)",
        "sort.Slice is modelled by List.mergeSort on the priority; C17.notify_priority_order / notify_targets hold for "
        "every sorted permutation, which is what the harness' order-ok check plus the sorted multiset compares",
        "target identity = small integer; BatchTarget capability is a fixed table shared by harness and model "
        "(Nt.batchCapable); which targets panic is a parameter of the model (`pan`)",
        "name strings are byte lists; map keys are the lists of non-empty dot-separated segments "
        "(C17.normalize_join_roundtrip: joining with single dots and re-splitting gives the same segments)",
    ]
    ctx.assumptions += [
        "sequential semantics: every exported method is modelled as one atomic step (all accesses to the maps are under "
        "the notifier's RWMutex; the model does not prove this).  The clause `concurrent use is free of data races` is "
        "NOT proved: it is supported only by the multi-goroutine stress run of this check under `go build -race` "
        "(any race report, duplicate delivery, escaped panic or deadlock fails the check)",
        "re-entrancy is transcribed only for state-changing calls (Register, Unregister, SetEnabled, Reset, "
        "RegisterFromNotifier) made by a target from inside HandleNotification: NotifyWithData has computed the delivery "
        "list and released its lock before the first call, so the driver applies the call right after the notification "
        "(Nt.step composed twice); nested Notify/StartBatch/EndBatch from inside a callback are not exercised",
        "errs.Recovery calls the handler exactly once per panic (C13 territory); the harness counts the handler calls",
        "batchLevel does not overflow int",
    ]
    ctx.lean(props=["Props.C17"], drivers=["drv_c17"])
    ctx.harness("./cmd/c17", overlay=OVERLAY)
    th = ("C17.notify_targets / notify_priority_order / no_textual_prefix / "
          "disabled_or_unregistered_or_reset_silent / merge_spec / batch_nesting / maps_consistent / "
          "panic_does_not_stop_delivery are theorems about the model Nt.step; the implementation differs "
          "from that model on this history")
    # black-box protocol: only calls received by targets, recovery reports, BatchLevel(), Enabled()
    ctx.diff(area="notifier", driver="drv_c17", n={"quick": 100000, "thorough": 3000000}, stateful=True,
             trivial=lambda l, o: o.startswith("order-ok | rec=0"), tagger=tagger, theorem=th, timeout=240)
    # the same protocol with white-box dumps of productionMap / nameMap / batchTargets / currentBatch
    # (representation detail: a difference only there is reported without a concrete failing input)
    ctx.diff(area="nwb", driver="drv_c17", n={"quick": 40000, "thorough": 1000000}, stateful=True,
             trivial=lambda l, o: o.startswith("order-ok | rec=0"),
             model_only=lambda l: l.startswith("dump"), timeout=240,
             theorem="C17.maps_consistent is a theorem about the model's three association lists; the implementation's "
                     "maps differ from them on this history")
    if ctx.harness("./cmd/c17", name="race", race=True, overlay=OVERLAY):
        ctx.impl_oracle("race", {"quick": 24, "thorough": 400}, name="race",
                        label="goroutines registering/notifying/merging/batching concurrently under -race; "
                              "race report (halt_on_error), duplicate delivery, escaped panic, deadlock = FAIL",
                        extra_env={"GORACE": "halt_on_error=1"}, timeout=600)


def tagger(line, out):
    k = line.split(" ", 1)[0]
    if k in ("notify", "notifyd"):
        n = out.count(" h")
        return "notify:%s-targets" % ("0" if n == 0 else "1" if n == 1 else "2+")
    if k in ("start", "end"):
        return k + (":calls" if " b" in out else ":silent")
    return None
