"""C17 — notifier: Lean model `Nt` (Model/Notifier.lean), theorems Props/C17.lean.

Correspondence: stateful protocol over 3 notifiers (0 normal recovery handler, 1 a handler that itself panics, 2 nil
handler) and 128 shared targets (0 plain, 1 batch, 2 plain+panicking, 3 batch+panicking, 4 batch, 6 and 10 re-entrant:
they perform an armed operation -- any of Register/Unregister/SetEnabled/Reset/RegisterFromNotifier/Notify/
NotifyWithData/StartBatch/EndBatch -- from inside HandleNotification (6, 10) or BatchMode (10); ids >= 5: batch iff
id%3 == 1, panicking iff id%5 == 2; panic values cycle through string / error / runtime error / typed-nil pointer / nil /
struct / errs.Error).  After every operation both sides print the calls the targets received (canonical: the
harness checks non-increasing priority on the raw delivery sequence against its own name->target->priority table and
prints `order-ok|order-bad`, then the calls sorted by priority descending / target ascending), the number of reports
the recovery handler got, BatchLevel() and Enabled() (area `notifier`, black box).  Area `nwb` is the same protocol with
`dump` lines that compare the three internal maps (white-box accessor injected with -overlay) with the model's
association lists: that observable is model detail (`model_only`) and is kept in a separate stream so that it cannot
mask a behavioural difference.  The `race` area is the concurrent oracle under the -race build: its judge is the
conclusion of C17.concurrent_registry_linearizable / notify_delivers_snapshot / batch_delivers_snapshot (one order of
all concurrent calls must explain every Notify's delivered list, every BatchMode broadcast, every query result and the
final maps), plus BatchMode(true)/(false) balance per target, no duplicate delivery, one report per panic."""

OVERLAY = {"notifier/zz_verif_dump.go": "c17_notifier_dump.go"}


def run(ctx):
    ctx.modelled += [
        "Go maps are modelled as association lists; iteration order of a Go map is unobservable in the canonical output "
        "(delivery order is compared only up to permutations within equal priority, batch calls as a sorted list)",
        "sort.Slice is modelled by List.mergeSort on the priority; C17.notify_priority_order / notify_targets hold for "
        "every sorted permutation, which is what the harness' order-ok check plus the sorted multiset compares",
        "target identity = small integer; BatchTarget capability (Nt.batchCapable) and the recovery handler a notifier "
        "was created with (Nt.handlerKind: good / panicking / nil) are fixed tables shared by harness and model; which "
        "targets panic is a parameter of the model (`pan`); delivery loops are executed in a propagating-panic "
        "semantics (Nt.Run / frame / recovery / loopX), C17.panic_does_not_stop_delivery",
        "name strings are byte lists; map keys are the lists of non-empty dot-separated segments "
        "(C17.normalize_join_roundtrip: joining with single dots and re-splitting gives the same segments)",
    ]
    ctx.assumptions += [
        "concurrent use: the LOGICAL half of `free of data races` is proved on Model/NotifierConc.lean (one notifier, its "
        "lock, any number of goroutines, any scheduler; every method = lock brackets with one micro-step per loop "
        "iteration + an unlocked phase on goroutine-local data), on the exclusive machine and on the readers-writer "
        "machine (Enabled / BatchLevel / the ancestor walk overlap): the registry is linearizable, every concurrent Notify "
        "delivers the sequential model's list for the registry state at its linearization point, callback steps touch no "
        "shared state and commute with everything, and without the mutex (or with writes under the read half) there is a "
        "non-linearizable schedule; on Model/NotifierMerge.lean (several notifiers, one lock each) RegisterFromNotifier "
        "calls in any directions never dead-lock.  NOT proved: that the Go code touches the maps only inside the brackets "
        "(decided about SSA-derived tables: Props/C17Lock.lean) and never writes a snapshot's backing array after handing "
        "it out (memory-level race freedom) -- observed by the `-race` stress run of this check",
        "re-entrancy (a target calling back into a notifier from HandleNotification/BatchMode) is part of the model: "
        "Nt.stepQ (Model/NotifierReentryN.lean) threads the world and the QUEUE of armed operations through the delivery "
        "loops; every re-entrant callback pops the head and performs it as a complete exported call whose own callbacks "
        "may pop the next one, to any depth (C17.reentrant_deep_spec; depth one = Nt.stepRe, C17.reentrant_call_spec); "
        "a lock held during delivery shows as a runtime deadlock abort of that line",
        "Go's inner maps are references; the model holds them as values: justified by C17.heap_model_refines_value_model "
        "(heap-cell model with the code's copying merge refines the value model along every history) for productionMap; "
        "nameMap likewise (C17.heap_model_refines_value_model_names)",
        "errs.Recovery calls the handler exactly once per panic (C13 territory); the harness counts the handler calls",
        "batchLevel does not overflow int",
    ]
    ctx.lean(props=["Props.C17"], drivers=["drv_c17"])
    from vlib import lockfacts
    lockfacts.run(ctx, "notifier", "Props.C17Lock", "C17Lock")   # lock discipline decided about tables regenerated from the Go source
    ctx.harness("./cmd/c17", overlay=OVERLAY)
    th = ("C17.notify_targets / notify_priority_order / no_textual_prefix / "
          "disabled_or_unregistered_or_reset_silent / merge_spec / batch_nesting / maps_consistent / "
          "panic_does_not_stop_delivery / panic_does_not_stop_batch / panic_step / reentrant_call_spec / reentrant_deep_spec / batch_cycles_do_not_leak / "
          "merge_leaves_notifiers_independent are theorems about the model Nt.step / Nt.stepQ; "
          "the implementation differs from that model on this history")
    # black-box protocol: only calls received by targets, recovery reports, BatchLevel(), Enabled()
    ctx.diff(area="notifier", driver="drv_c17", n={"quick": 100000, "thorough": 3000000}, stateful=True,
             trivial=lambda l, o: o.startswith("order-ok | rec=0"), tagger=tagger, theorem=th, timeout=240)
    # the same protocol with white-box dumps of productionMap / nameMap / batchTargets / currentBatch
    # (representation detail: a difference only there is reported without a concrete failing input).  The accessor finds
    # the private fields by type; if it does not compile against the working tree (core builds the black-box fallback,
    # tag nooverlay) or does not recognise the representation, the white-box area is skipped: the property does not
    # constrain the representation.
    probe = ctx.run_impl("nwb", ["reset", "dump 0"]) or ["", ""]
    if "overlay_fallback" in ctx.extra or probe[-1] == "dump-unavailable":
        ctx.extra["skipped_areas"] = ["nwb (white-box dump of the three maps): no white-box view of this working tree"]
        ctx.extra.setdefault("overlay_fallback", "the white-box accessor does not recognise the representation")
    else:
        wb_diff(ctx)
    race_oracle(ctx)


def wb_diff(ctx):
    ctx.diff(area="nwb", driver="drv_c17", n={"quick": 40000, "thorough": 1000000}, stateful=True,
             trivial=lambda l, o: o.startswith("order-ok | rec=0"),
             model_only=lambda l: l.startswith("dump"), timeout=240,
             theorem="C17.maps_consistent is a theorem about the model's three association lists; the implementation's "
                     "maps differ from them on this history")


RACE_LABEL = ("goroutines calling every method concurrently under -race; judge = conclusion of "
              "C17.concurrent_registry_linearizable / notify_delivers_snapshot (a linearization must "
              "explain all observations and the final maps), BatchMode balance, no duplicate delivery, "
              "one report per panic; race report (halt_on_error), escaped panic, deadlock = FAIL")


def race_oracle(ctx):
    """The -race stress run, judged twice: by the harness (Go reference, as ctx.impl_oracle would) and -- every
    linearizability round it recorded -- by the Lean model itself: drv_c17 `lin` searches an acquisition order for which
    Mutex.seqExec NtC.rrun (the left-hand side of C17.concurrent_registry_linearizable) hands every call the results it
    observed and ends in the observed registry."""
    if not ctx.harness("./cmd/c17", name="race", race=True, overlay=OVERLAY) or ctx.replay:
        return
    area, name = "race", "race"
    total = {"quick": 24, "thorough": 300}[ctx.tier]
    lines = ctx.gen(area, ctx.seed * 7919 + 17, total, name)
    outs = ctx.run_impl(area, lines, name, timeout=600 if ctx.tier == "quick" else 2400,
                        extra_env={"GORACE": "halt_on_error=1"})
    if outs is None:
        return
    ctx.rules.append("area %s (%s): implementation-side oracle, no Lean model; counted separately" % (area, RACE_LABEL))
    ctx.rules.append("area race, second judge: every recorded linearizability round (calls stamped at call/return, what "
                     "each call observed, white-box dump afterwards) is judged by the Lean model: drv_c17 `lin` must find "
                     "an acquisition order acq (program order, real time, brackets of a call adjacent) with "
                     "Mutex.seqExec NtC.rrun s0 acq explaining every observation and the final registry")
    bad = 0
    model_lines, owner = [], []
    for l, o in zip(lines, outs):
        ctx.extra["oracle_" + area] = ctx.extra.get("oracle_" + area, 0) + 1
        if o.startswith("FAIL") or o.startswith("crash") or o == "panic":
            known = ctx._known_match(area, l, [l])
            if known:
                ctx.known_hits.append(known)
                continue
            bad += 1
            if bad <= 3:
                rep = {"property": ctx.id, "kind": "impl-oracle", "area": area, "harness": name, "ops": [l],
                       "impl_outputs": [o[:4000]], "concrete_failing_input": True, "note": RACE_LABEL}
                path = ctx._write_replay(rep)
                ctx.violations.append({"kind": "impl-oracle", "what": "%s: %s on `%s`" % (area, o[:200], l[:160]),
                                       "replay": path, "concrete": True})
            continue
        if " LIN " in o:
            model_lines.append("lin0")
            owner.append(l)
            for r in o.split(" LIN ", 1)[1].split(";"):
                model_lines.append("lin " + r)
                owner.append(l)
        if len(ctx.samples) < 16 and ctx.extra["oracle_" + area] % 8 == 1:
            ctx.samples.append({"area": area, "op": l[:200], "oracle": o[:160]})
    if not model_lines:
        return
    mo = ctx.run_model("drv_c17", model_lines, timeout=600)
    if mo is None:
        ctx.violations.append({"kind": "model", "what": "drv_c17 did not answer the `lin` lines of the race area",
                               "concrete": False})
        return
    judged, failed, blamed = 0, 0, set()
    for k, (ml, out) in enumerate(zip(model_lines, mo)):
        if ml == "lin0":
            continue
        judged += 1
        if out.startswith("lin-ok"):
            continue
        failed += 1
        if owner[k] in blamed:
            continue  # after the first unexplained round of a stress line the model has no start state any more
        blamed.add(owner[k])
        if len(blamed) <= 3:
            start = max(i for i in range(k + 1) if model_lines[i] == "lin0")
            rep = {"property": ctx.id, "kind": "correspondence", "area": area, "harness": name, "ops": [owner[k]],
                   "model_ops": model_lines[start:k + 1], "model_outputs": mo[start:k + 1],
                   "concrete_failing_input": True,
                   "note": "recorded concurrent history (last model_ops line) that no acquisition order of the Lean model "
                           "explains: C17.concurrent_registry_linearizable / notify_delivers_snapshot / "
                           "batch_delivers_snapshot fail for the implementation on this run"}
            path = ctx._write_replay(rep)
            ctx.violations.append({"kind": "correspondence",
                                   "what": "race: round not linearizable w.r.t. the Lean model (%s) on `%s`: %s"
                                           % (out, owner[k], model_lines[k][-300:]),
                                   "replay": path, "concrete": True})
    ctx.evals += judged
    ctx.extra["race_rounds_judged_by_lean_model"] = judged
    ctx.extra["race_rounds_unexplained"] = failed


def tagger(line, out):
    k = line.split(" ", 1)[0]
    if k in ("notify", "notifyd"):
        n = out.count(" h")
        return "notify:%s-targets" % ("0" if n == 0 else "1" if n == 1 else "2+")
    if k in ("start", "end"):
        return k + (":calls" if " b" in out else ":silent")
    f = line.split(" ")
    if k == "arm" and len(f) > 2:
        return "arm:" + f[2]          # which operation the re-entrant targets will perform inside their next callback
    if k == "merge" and len(f) > 2:
        return "merge:" + ("self" if f[1] == f[2] else "other")
    if k == "enable" and len(f) > 2:
        return "enable:" + f[2]
    if k == "reg":
        return "reg:%s-names" % min(len(f) - 4, 3)
    return None
