"""C17 — notifier: Lean model `Nt` (Model/Notifier.lean), theorems Props/C17.lean.

Correspondence: stateful protocol over 3 notifiers (0 normal recovery handler, 1 a handler that itself panics, 2 nil
handler) and 128 shared targets (0 plain, 1 batch, 2 plain+panicking, 3 batch+panicking, 4 batch, 6 and 10 re-entrant:
they perform an armed operation -- any of Register/Unregister/SetEnabled/Reset/RegisterFromNotifier/Notify/
NotifyWithData/StartBatch/EndBatch -- from inside HandleNotification (6, 10) or BatchMode (10); ids >= 5: batch iff
id%3 == 1, panicking iff id%5 == 2; panic values cycle through string / error / runtime error / typed-nil pointer / nil /
struct / errs.Error).  After every operation both sides print the calls the targets received (canonical: the
harness checks non-increasing priority on the raw delivery sequence against its own name->target->priority table and
prints `order-ok|order-bad`, then the calls sorted by priority descending / target ascending), the number of reports
the recovery handler got, BatchLevel() and Enabled() (area `notifier`, black box).  Area `nwb` is the same protocol with
`dump` lines that compare the three internal maps (white-box accessor injected with -overlay) with the model's
association lists: that observable is model detail (`model_only`) and is kept in a separate stream so that it cannot
mask a behavioural difference.  The `race` area is the concurrent oracle under the -race build: its judge is the
conclusion of C17.concurrent_registry_linearizable / notify_delivers_snapshot / batch_delivers_snapshot (one order of
all concurrent calls must explain every Notify's delivered list, every BatchMode broadcast, every query result and the
final maps), plus BatchMode(true)/(false) balance per target, no duplicate delivery, one report per panic."""

OVERLAY = {"notifier/zz_verif_dump.go": "c17_notifier_dump.go"}


def run(ctx):
    ctx.modelled += [
        "Go maps are modelled as association lists; iteration order of a Go map is unobservable in the canonical output "
        "(delivery order is compared only up to permutations within equal priority, batch calls as a sorted list)",
        "sort.Slice is modelled by List.mergeSort on the priority; C17.notify_priority_order / notify_targets hold for "
        "every sorted permutation, which is what the harness' order-ok check plus the sorted multiset compares",
        "target identity = small integer; BatchTarget capability (Nt.batchCapable) and the recovery handler a notifier "
        "was created with (Nt.handlerKind: good / panicking / nil) are fixed tables shared by harness and model; which "
        "targets panic is a parameter of the model (`pan`); delivery loops are executed in a propagating-panic "
        "semantics (Nt.Run / frame / recovery / loopX), C17.panic_does_not_stop_delivery",
        "name strings are byte lists; map keys are the lists of non-empty dot-separated segments "
        "(C17.normalize_join_roundtrip: joining with single dots and re-splitting gives the same segments)",
    ]
    ctx.assumptions += [
        "concurrent use: the LOGICAL half of `free of data races` is proved on Model/NotifierConc.lean (one notifier, its "
        "mutex, any number of goroutines, any scheduler; every method = lock brackets with one micro-step per loop "
        "iteration + an unlocked phase on goroutine-local data): the registry is linearizable, every concurrent Notify "
        "delivers the sequential model's list for the registry state at its linearization point, callback steps touch no "
        "shared state and commute with everything, and without the mutex there is a non-linearizable schedule.  NOT "
        "proved: that the Go code touches the maps only inside the brackets and never writes a snapshot's backing array "
        "after handing it out (memory-level race freedom) -- that half is observed by the `-race` stress run of this "
        "check; RLock brackets are modelled as exclusive (they do not write: NtC.rrun_read_pure); the model is per "
        "notifier (RegisterFromNotifier = copyOut on the source + mergeIn on the destination, two mutexes)",
        "re-entrancy (a target calling back into a notifier from HandleNotification/BatchMode) is transcribed by the "
        "driver, not by a theorem: every method finishes its registry work and unlocks before the first callback and "
        "iterates over a local snapshot, so the nested call is Nt.step applied to the state the outer call left, its "
        "callbacks are made in between; a lock held during delivery shows as a runtime deadlock abort of that line",
        "errs.Recovery calls the handler exactly once per panic (C13 territory); the harness counts the handler calls",
        "batchLevel does not overflow int",
    ]
    ctx.lean(props=["Props.C17"], drivers=["drv_c17"])
    from vlib import lockfacts
    lockfacts.run(ctx, "notifier", "Props.C17Lock", "C17Lock")   # lock discipline decided about tables regenerated from the Go source
    ctx.harness("./cmd/c17", overlay=OVERLAY)
    th = ("C17.notify_targets / notify_priority_order / no_textual_prefix / "
          "disabled_or_unregistered_or_reset_silent / merge_spec / batch_nesting / maps_consistent / "
          "panic_does_not_stop_delivery / panic_does_not_stop_batch / panic_step are theorems about the model Nt.step; "
          "the implementation differs from that model on this history")
    # black-box protocol: only calls received by targets, recovery reports, BatchLevel(), Enabled()
    ctx.diff(area="notifier", driver="drv_c17", n={"quick": 100000, "thorough": 3000000}, stateful=True,
             trivial=lambda l, o: o.startswith("order-ok | rec=0"), tagger=tagger, theorem=th, timeout=240)
    # the same protocol with white-box dumps of productionMap / nameMap / batchTargets / currentBatch
    # (representation detail: a difference only there is reported without a concrete failing input).  The accessor finds
    # the private fields by type; if it does not compile against the working tree (core builds the black-box fallback,
    # tag nooverlay) or does not recognise the representation, the white-box area is skipped: the property does not
    # constrain the representation.
    probe = ctx.run_impl("nwb", ["reset", "dump 0"]) or ["", ""]
    if "overlay_fallback" in ctx.extra or probe[-1] == "dump-unavailable":
        ctx.extra["skipped_areas"] = ["nwb (white-box dump of the three maps): no white-box view of this working tree"]
        ctx.extra.setdefault("overlay_fallback", "the white-box accessor does not recognise the representation")
    else:
        wb_diff(ctx)
    race_oracle(ctx)


def wb_diff(ctx):
    ctx.diff(area="nwb", driver="drv_c17", n={"quick": 40000, "thorough": 1000000}, stateful=True,
             trivial=lambda l, o: o.startswith("order-ok | rec=0"),
             model_only=lambda l: l.startswith("dump"), timeout=240,
             theorem="C17.maps_consistent is a theorem about the model's three association lists; the implementation's "
                     "maps differ from them on this history")


def race_oracle(ctx):
    if ctx.harness("./cmd/c17", name="race", race=True, overlay=OVERLAY):
        ctx.impl_oracle("race", {"quick": 24, "thorough": 300}, name="race",
                        label="goroutines calling every method concurrently under -race; judge = conclusion of "
                              "C17.concurrent_registry_linearizable / notify_delivers_snapshot (a linearization must "
                              "explain all observations and the final maps), BatchMode balance, no duplicate delivery, "
                              "one report per panic; race report (halt_on_error), escaped panic, deadlock = FAIL",
                        extra_env={"GORACE": "halt_on_error=1"}, timeout=600)


def tagger(line, out):
    k = line.split(" ", 1)[0]
    if k in ("notify", "notifyd"):
        n = out.count(" h")
        return "notify:%s-targets" % ("0" if n == 0 else "1" if n == 1 else "2+")
    if k in ("start", "end"):
        return k + (":calls" if " b" in out else ":silent")
    return None
