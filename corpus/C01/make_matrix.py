#!/usr/bin/env python3
"""Writes corpus/C01/int128.matrix.ops: the full cross product of boundary operands for EVERY op of the harness.
(Not read by the corpus loader itself: only files named `int128.*` are.)  Re-run after adding an op or a boundary value:
    python3 corpus/C01/make_matrix.py
The lines run first on every check, so every boundary pair is exercised on every run (hardening class 1: 0, +-1, type
limits, 2^63 / 2^64 neighbours in EVERY operand position of every operation, both operands zero for all twelve division
entry points, every Int128 op at Min, Min+1, -1, 0, 1, Max-1, Max)."""
import os

M128 = (1 << 128) - 1
M64 = (1 << 64) - 1


def u(v):
    v &= M128
    return "%x:%x" % (v >> 64, v & M64)


def w(v):
    return "x%x" % (v & M64)


# 128-bit boundary values (as unsigned patterns; negative numbers = two's complement)
K128 = [0, 1, 2, 3, 10,
        (1 << 31), (1 << 32) - 1, (1 << 32), (1 << 32) + 1,
        (1 << 63) - 1, (1 << 63), (1 << 63) + 1,            # MaxInt64, 2^63
        (1 << 64) - 2, (1 << 64) - 1, (1 << 64), (1 << 64) + 1,  # MaxUint64 neighbours
        (1 << 65), (1 << 96), (1 << 126),
        (1 << 127) - 2, (1 << 127) - 1,                      # MaxInt128-1, MaxInt128
        (1 << 127), (1 << 127) + 1, (1 << 127) + 2,          # MinInt128, +1, +2
        -1, -2, -3, -10,                                     # MaxUint128 ...
        -(1 << 63) + 1, -(1 << 63), -(1 << 63) - 1,          # MinInt64 neighbours
        -(1 << 64) + 1, -(1 << 64), -(1 << 64) - 1,
        0x0123456789abcdef_fedcba9876543210, 0x8000000000000000_ffffffffffffffff,
        0x7fffffffffffffff_0000000000000000, 0x00000000ffffffff_ffffffff00000000]
# 64-bit boundary values (uint64 patterns / int64 two's complement)
K64 = [0, 1, 2, 3, 10, (1 << 31), (1 << 32) - 1, (1 << 32), (1 << 32) + 1,
       (1 << 62), (1 << 63) - 2, (1 << 63) - 1, (1 << 63), (1 << 63) + 1, (1 << 63) + 2,  # MaxInt64, MinInt64
       -1, -2, -3, -10, -(1 << 32), -(1 << 62), 0x80000000ffffffff, 0xffffffff00000000]

U_UU = ["add", "sub", "mul", "div", "mod", "divmod", "and", "or", "xor", "andnot", "andnot64", "cmp", "gt", "ge", "eq", "lt",
        "le"]
U_UW = ["add64", "sub64", "mul64", "div64", "mod64", "divmod64", "and64", "or64", "xor64", "cmp64", "gt64", "ge64", "eq64",
        "lt64", "le64"]
U_U = ["inc", "dec", "not", "bitlen", "onescount", "lz", "tz", "iszero", "isint128", "isuint64", "asuint64"]
I_II = ["add", "sub", "mul", "div", "mod", "divmod", "cmp", "gt", "ge", "eq", "lt", "le"]
I_IW = ["add64", "sub64", "mul64", "div64", "mod64", "divmod64", "cmp64", "gt64", "ge64", "eq64", "lt64", "le64"]
I_I = ["inc", "dec", "neg", "abs", "absu", "sign", "iszero", "isuint128", "isint64", "asint64", "isuint64", "asuint64"]

COUNTS = [0, 1, 2, 31, 32, 33, 62, 63, 64, 65, 66, 95, 96, 97, 126, 127, 128, 129, 130, 191, 192, 193, 255, 256, 257, 320, 1000,
          1023, 1024, 4096, 65535, 65536, (1 << 20), (1 << 20) + 1, (1 << 31), (1 << 32), (1 << 32) + 1, (1 << 32) + 64,
          (1 << 63), (1 << 63) + 64, (1 << 64) - 64, (1 << 64) - 1]
INDEXES = [-(1 << 63), -(1 << 63) + 1, -(1 << 63) + 64, -(1 << 32), -129, -128, -127, -65, -64, -63, -2, -1, 0, 1, 2, 31, 32, 33,
           62, 63, 64, 65, 66, 95, 96, 126, 127, 128, 129, 130, 191, 192, 255, 256, 1000, (1 << 31), (1 << 32), (1 << 32) + 5,
           (1 << 62), (1 << 63) - 64, (1 << 63) - 2, (1 << 63) - 1]
SETB = [0, 1, 2, 3, 255, 256, (1 << 32), (1 << 63), (1 << 64) - 1]
SHIFTED = [0, 1, 3, (1 << 63), (1 << 64) - 1, (1 << 64), (1 << 64) + 1, (1 << 127), (1 << 127) + 1, (1 << 127) - 1, -1, -2,
           0x8000000000000001_8000000000000001, 0x0123456789abcdef_fedcba9876543210, 0x5555555555555555_aaaaaaaaaaaaaaaa]


def main():
    out = []
    for op in U_UU:
        for a in K128:
            for b in K128:
                out.append("u %s %s %s" % (op, u(a), u(b)))
    for op in U_UW:
        for a in K128:
            for b in K64:
                out.append("u %s %s %s" % (op, u(a), w(b)))
    for op in U_U:
        for a in K128:
            out.append("u %s %s" % (op, u(a)))
    for op in I_II:
        for a in K128:
            for b in K128:
                out.append("i %s %s %s" % (op, u(a), u(b)))
    for op in I_IW:
        for a in K128:
            for b in K64:
                out.append("i %s %s %s" % (op, u(a), w(b)))
    for op in I_I:
        for a in K128:
            out.append("i %s %s" % (op, u(a)))
    for op in ("shl", "shr"):
        for a in SHIFTED:
            for c in COUNTS:
                out.append("u %s %s %d" % (op, u(a), c))
    for a in SHIFTED:
        for i in INDEXES:
            out.append("u bit %s %d" % (u(a), i))
    for a in (0, -1, 0x8000000000000001_8000000000000001, 0x5555555555555555_aaaaaaaaaaaaaaaa):
        for i in INDEXES:
            for b in SETB:
                out.append("u setbit %s %d %d" % (u(a), i, b))
    for b in K64:
        out.append("u from64 %s" % w(b))
        out.append("i from64 %s" % w(b))
        out.append("i fromu64 %s" % w(b))
    # 64-bit multipliers / addends 0, 1 and every power of two (and neighbours) against a few receivers (ind3-c01-a)
    recv = [0, 1, 3, (1 << 64) - 1, (1 << 64) + 1, (1 << 127) - 1, (1 << 127), -1, 0x0123456789abcdef_fedcba9876543210,
            0x00000000ffffffff_ffffffff00000001]
    for k in range(64):
        for d in (-1, 0, 1):
            v = (1 << k) + d
            for a in recv:
                for op in ("mul64", "add64", "sub64", "div64", "mod64", "divmod64"):
                    out.append("u %s %s %s" % (op, u(a), w(v)))
                    out.append("i %s %s %s" % (op, u(a), w(v)))
                    out.append("i %s %s %s" % (op, u(a), w(-v)))
    # 128-bit multipliers / divisors 2^k, 2^k +- 1
    for k in range(128):
        for d in (-1, 0, 1):
            v = (1 << k) + d
            for a in recv:
                for op in ("mul", "div", "mod", "divmod"):
                    out.append("u %s %s %s" % (op, u(a), u(v)))
                    out.append("i %s %s %s" % (op, u(a), u(-v)))
    # exact multiples q*n (+ -1, 0, +1, + n-1) with n >= 2^64 and q around the binary/Knuth threshold (ind-c01-a)
    divisors = [(1 << 64), (1 << 64) + 1, (1 << 65) - 1, 0x1_0000000100000001, 0x8000_0000000000000001,
                0xffffffff_ffffffffffffffff, 0x1234_56789abcdef01234, (1 << 100) + 12345, (1 << 110) - 1, 0x7fff_ffffffffffffffff]
    for n in divisors:
        for qk in (1, 2, 7, 8, 9, 14, 15, 16, 17, 18, 19, 20, 24, 31, 32, 33, 40, 48, 56, 62, 63):
            for qd in (-1, 0, 1):
                q = (1 << qk) + qd
                if q <= 0 or q * n > M128:
                    continue
                for rem in (0, 1, 2, n - 2, n - 1, -1):
                    val = q * n + rem
                    if 0 <= val <= M128:
                        for op in ("div", "mod", "divmod"):
                            out.append("u %s %s %s" % (op, u(val), u(n)))
                        if val < (1 << 127):
                            out.append("i divmod %s %s" % (u(-val), u(n)))
                            out.append("i divmod %s %s" % (u(val), u(-n)))
    seen = set()
    uniq = []
    for l in out:
        if l not in seen:
            seen.add(l)
            uniq.append(l)
    path = os.path.join(os.path.dirname(os.path.abspath(__file__)), "int128.matrix.ops")
    with open(path, "w") as f:
        f.write("# GENERATED by corpus/C01/make_matrix.py - cross product of boundary operands for every op\n")
        f.write("\n".join(uniq) + "\n")
    print(len(uniq), "lines")


if __name__ == "__main__":
    main()
