#!/usr/bin/env python3
"""Writes the hand-made boundary histories of C13 (area `log`).  Tokens are written out literally here (they are
what strconv.Quote / Value.String produce for these simple values)."""
import os

def hx(s):
    b = s.encode() if isinstance(s, str) else s
    return b.hex() if b else "-"

TS = " | 2023-11-14 | 22:13:20.000 | "      # time.Unix(1700000000, 0).UTC()
def log(h, lvl, msg, *attrs):
    return " ".join(["log", h, str(lvl), hx(TS), "1700000000", "0", "0", hx(msg)] + list(attrs))
def s(k, v):   # string leaf (no characters that need escaping)
    return " ".join(["l", hx(k), hx('"' + v + '"'), "s", hx(v)])
def i(k, v):
    return " ".join(["l", hx(k), hx(str(v)), "i", str(v)])
def b(k, v):
    return " ".join(["l", hx(k), hx("true" if v else "false"), "b", "1" if v else "0"])
def d(k, ns, tok):
    return " ".join(["l", hx(k), hx(tok), "d", str(ns)])
def t(k):
    return " ".join(["l", hx(k), hx("2023-11-14T22:13:20Z"), "t", "1700000000:0:0"])
def g(k, *kids):
    return " ".join(["g", hx(k), str(len(kids))] + list(kids))
def v(a):
    return "v " + a
def k(key, trace, fb):
    return " ".join(["k", hx(key), hx(trace), fb])
E = "e"
def KM(kd):
    t = {"deadline": "context deadline exceeded", "canceled": "context canceled", "eof": "EOF", "notexist": "file does not exist",
         "patherr": "open /x: file does not exist"}
    if kd in t:
        return t[kd]
    base = kd
    for pre in ("nil", "nz", "z", "e"):
        if base.startswith(pre) and base[len(pre):] in ("struct", "int", "string", "array", "ptr", "slice", "map", "func", "chan"):
            base = base[len(pre):]
            break
    return "K:" + base

files = {
 "log.multilog-nil.ops": [
    "# fixed defect: multilog.Handle returned a non-nil error holding a nil *errs.Error when every child succeeded",
    "reset", "new h0 1 0 0", "new h1 2 0 0", "mnew h2 h0 h1", log("h2", 0, "both fine"),
    "mnew h3", log("h3", 0, "no children"), "en h3 0",
    "new h4 3 8 0", "mnew h5 h4", log("h5", 0, "nobody enabled"), "en h5 0", "en h5 8",
 ],
 "log.siblings.ops": [
    "# two derivations from one parent whose list would have spare capacity if it had been grown by append",
    "reset", "new h0 1 0 0",
    "wa h1 h0 " + s("a", "1"), "wg h2 h1 " + hx("g"), "wa h3 h2 " + s("c", "3"),
    "wa h4 h3 " + s("left", "L"), "wa h5 h3 " + s("right", "R"), "wg h6 h3 " + hx("deep"),
    log("h4", 0, "first sibling", i("n", 1)), log("h5", 0, "second sibling"), log("h6", 0, "third", i("n", 2)),
    log("h3", 0, "parent"), log("h0", 0, "root"),
    "wg h7 h0 -", "wa h8 h0", log("h7", 0, "same as root"), log("h8", 0, "same as root"),
 ],
 "log.groups.ops": [
    "# nested groups: the prefix is restored when a group closes; empty groups and empty attributes are elided",
    "reset", "new h0 1 0 0",
    log("h0", 0, "m", g("a", s("x", "1"), g("b", s("y", "2")), s("z", "3")), s("top", "4")),
    log("h0", 0, "m", g("a", E), s("after", "1")),
    log("h0", 0, "m", E, E),
    log("h0", 0, "m", v(g("a")), s("k", "v")),
    log("h0", 0, "m", v(E)),
    log("h0", 0, "m", g("", s("k", "v")), s("", "emptykey")),
    "wa h1 h0 " + g("a") + " " + E, log("h1", 0, "m", s("k", "v")),
    "wg h2 h1 " + hx("g1"), "wg h3 h2 " + hx("g2"), log("h3", 0, "m", g("n", i("k", 7)), b("ok", True)),
    log("h3", 0, "m", d("took", 1500, "1.5µs"), t("at"), v(v(i("n", -5)))),
 ],
 "log.stack.ops": [
    "# the stack carrier is picked up only under no group and the key stack_trace; its text follows the line in the same Write",
    "reset", "new h0 1 0 0",
    log("h0", 8, "boom", k("stack_trace", "    [main.f] f.go:12\n    [main.g] g.go:3", s("stack_trace", "fb")), s("k", "v")),
    log("h0", 8, "boom", k("other", "T", s("other", "fb"))),
    log("h0", 8, "boom", g("grp", k("stack_trace", "T", s("stack_trace", "fb")))),
    log("h0", 8, "boom", v(k("stack_trace", "T", s("stack_trace", "fb")))),
    log("h0", 8, "boom", k("stack_trace", "first", s("stack_trace", "fb")), k("stack_trace", "second", s("stack_trace", "fb"))),
    log("h0", 8, "boom", k("stack_trace", "", s("stack_trace", "fb"))),
    "wg h1 h0 " + hx("req"), log("h1", 8, "boom", k("stack_trace", "T", s("stack_trace", "fb"))),
    "wa h2 h0 " + k("stack_trace", "from-handler", s("stack_trace", "fb")), log("h2", 8, "boom", s("k", "v")),
    "logerr h0 8 " + hx("real error") + " " + s("k", "v"),
    "logerr h1 8 " + hx("real error under a group"),
    "logerr h0 -4 " + hx("below the level"),
 ],
 "log.levels.ops": [
    "# level tags and the Enabled threshold",
    "reset", "new h0 1 0 0 4:" + hx("WARNING") + " -1:" + hx(""),
    "en h0 -1", "en h0 0", "en h0 1",
 ] + [log("h0", l, "m") for l in (-8, -4, -1, 0, 1, 4, 8, 9, 100, -100, 1234)] + [
    "new h1 2 4 0", "en h1 3", "en h1 4", "en h1 5", log("h1", -4, "Handle does not filter"),
 ],
 "log.children.ops": [
    "# multilog: failing and panicking children do not stop delivery; level filtering per child",
    "reset", "new h0 1 0 0", "new h1 2 4 0", "new h2 3 0 0", "new h3 4 -4 0",
    "mnew m h0 h1 h2 h3",
    log("m", 0, "all ok but h1 filtered"),
    "mode 1 fail", log("m", 4, "first fails"),
    "mode 3 panic", log("m", 4, "first fails third panics"),
    "mode 1 ok", "mode 3 panice", log("m", 4, "third panics with an error value"),
    "mode 4 fail", "mode 3 fail", "mode 2 fail", "mode 1 fail", log("m", 8, "everybody fails"),
    log("h0", 0, "direct: sink error returned"), "mode 1 panic", log("h0", 0, "direct: panic propagates"),
    "mode 1 ok", "mode 2 ok", "mode 3 ok", "mode 4 ok",
    "wa m2 m " + s("shared", "x"), "wg m3 m2 " + hx("grp"), "wg m4 m3 -", "wa m5 m3",
    log("m3", 4, "derived multilog", i("n", 1)), log("m", 4, "parent multilog unchanged"), log("m5", 4, "empty WithAttrs"),
    "en m 3", "en m -4", "en m -5",
    "mnew mm h0 h0", log("mm", 0, "same child twice"),
 ],
 "log.entrypoints.ops": [
    "# all ten errs.Log* entry points, nil context, nil logger (default logger), plain / nil / typed-nil errors;",
    "# Config.Normalize; a LevelVar shared by a handler family and changed between records",
    "reset", "new h0 1 0 0", "wg h1 h0 " + hx("req"),
 ] + [" ".join(["logx", api, c, lg, ek, h, "8", hx("boom"), s("k", "v")])
      for api in ("Log", "LogContext", "LogTo", "LogContextTo", "LogWithLevel", "LogAttrs", "LogAttrsContext",
                  "LogAttrsTo", "LogAttrsContextTo", "LogAttrsWithLevel")
      for (c, lg, ek, h) in (("bg", "h", "e", "h0"), ("nil", "nil", "p", "h0"), ("bg", "h", "e", "h1"), ("bg", "nil", "n", "h0"),
                             ("nil", "h", "t", "h1"))] + [
    "logx LogWithLevel bg h e h0 -1 " + hx("below the level"), "logx LogAttrsWithLevel bg h p h0 0 " + hx("at the level"),
    "norm nil 0 0", "norm tnil -1 1", "norm 4 -9223372036854775808 0", "norm var:-4 64 1", "norm 9223372036854775807 9223372036854775807 0",
    "new h2 2 nil 0", "en h2 -1", "en h2 0", "new h3 3 tnil -5", "en h3 0", log("h3", 0, "negative depth is synchronous"),
    "new h4 4 var:4 0", "wa h5 h4 " + s("a", "1"), "mnew m h5 h0", "en h5 3", "en m 3", "setlevel 4 -4", "en h5 3", "en h4 -4", "en h5 -5",
    "logx LogAttrsWithLevel bg h e h5 -4 " + hx("enabled after setlevel"), "setlevel 4 9223372036854775807", "en h5 9223372036854775807",
    "en h5 9223372036854775806", "en h4 -9223372036854775808", "setlevel 4 -9223372036854775808", "en h5 -9223372036854775808",
    "new h6 5 -9223372036854775808 0", "en h6 9223372036854775807", "new h7 6 9223372036854775807 0", "en h7 -9223372036854775808", "en h7 9223372036854775807",
    log("h0", 9223372036854775807, "extreme level tag"), log("h0", -9223372036854775808, "extreme level tag"), log("h0", 2147483648, "m"),
 ],
 "log.outcomes.ops": [
    "# every kind of child outcome: fresh/sentinel/aggregate/typed-nil errors, panics with a string, an error, a runtime",
    "# error, a typed nil pointer, nil, the child's own sentinel; records logged after the sink failed",
    "reset", "new h0 1 0 0", "new h1 2 0 0", "new h2 3 0 0", "mnew m h0 h1 h2",
 ] + [x for md in ("fail", "faile", "fails", "failm", "failn", "failf", "panic", "panice", "panicr", "panicp", "panicn", "panics")
        for x in ("mode 2 " + md, log("m", 8, "middle child: " + md), log("h1", 8, "direct: " + md), "mode 2 ok",
                  log("m", 8, "after " + md), log("h1", 8, "direct after " + md))] + [
    "mode 1 failm", "mode 2 failm", "mode 3 fails", log("m", 8, "aggregates and a sentinel"), log("m", 8, "again"),
    "mode 1 failn", "mode 2 failf", "mode 3 failn", log("m", 8, "only typed nils: nil result"),
    "mode 1 panics", "mode 2 fails", "mode 3 panicn", log("m", 8, "panic with the sentinel, sentinel, panic(nil)"), log("m", 8, "again"),
    "mnew big " + " ".join(["h0", "h1", "h2"] * 6), "mode 1 fails", "mode 2 failm", "mode 3 panicr", log("big", 8, "eighteen children"),
    log("big", 8, "eighteen children again"), "mode 1 ok", "mode 2 ok", "mode 3 ok", log("big", 8, "all fine"),
 ],
 "log.emptygroups.ops": [
    "# empty groups that reach the handler (WithAttrs, LogValuers) must leave no trace, whatever follows them",
    "reset", "new h0 1 0 0",
    "wa h1 h0 " + g("opt") + " " + s("k", "v"), log("h1", 0, "m", s("r", "1")),
    "wa h2 h0 " + g("opt"), "wa h3 h2 " + s("k", "v"), "wg h4 h3 " + hx("ctx"), log("h4", 0, "m", s("x", "1")),
    "logx LogAttrsTo bg h e h2 8 " + hx("stack still recognised after an elided group"),
    log("h0", 0, "m", v(g("opt")), s("k", "v")),
    log("h0", 0, "m", g("outer", v(g("opt")), s("k", "v")), s("top", "1")),
    log("h0", 0, "m", g("outer", s("a", "1"), v(g("opt"))), s("top", "1")),
    log("h0", 8, "m", v(g("opt")), k("stack_trace", "T", s("stack_trace", "fb"))),
    "wa h5 h0 " + g("o1", g("o2")) + " " + v(g("o3")) + " " + E + " " + g("full", s("k", "v")) + " " + g("o4"), "wa h6 h5 " + g("o5"),
    log("h6", 0, "m", s("last", "1")), log("h5", 0, "m"), log("h0", 0, "m"),
 ],
 "log.deeptree.ops": [
    "# two siblings at every depth 1..9 of one chain, then every handler logs (backing-array capacity effects)",
    "reset", "new h0 1 0 0",
 ] + [x for dd in range(1, 10) for x in (
        "wa a%d %s %s" % (dd, ("h0" if dd == 1 else "a%d" % (dd - 1)), s("a%d" % dd, "A")),
        "wa b%d %s %s" % (dd, ("h0" if dd == 1 else "a%d" % (dd - 1)), s("b%d" % dd, "B")),
        "wg c%d %s %s" % (dd, ("h0" if dd == 1 else "a%d" % (dd - 1)), hx("c%d" % dd)))] + [
    x for dd in range(1, 10) for x in (log("a%d" % dd, 0, "a"), log("b%d" % dd, 0, "b"), log("c%d" % dd, 0, "c", i("n", dd)))] + [
    log("h0", 0, "root"),
 ],
 "log.bufdepth1.ops": [
    "# BufferDepth 1 and 2: fill to the limit and one beyond with records of different lengths, drain, regrow",
    "reset", "new h0 1 0 1", "wa h1 h0 " + s("derived", "a long attribute value to make this record longer than the others"),
    "hold 1", log("h0", 0, "short"), log("h1", 0, "a much longer record than the one before it"), "release 1",
    "hold 1", log("h1", 0, "long first this time, and it is the one that must survive unchanged"), log("h0", 0, "s"), log("h0", 0, "t"), "release 1",
    log("h0", 0, "free"), log("h1", 0, "free again"),
    "new h2 2 0 2", "wg h3 h2 " + hx("g"),
    "hold 2", log("h2", 0, "one"), log("h3", 0, "two, longer than one", s("k", "v")), log("h2", 0, "3"), "release 2",
    "hold 2", "release 2", "hold 2", log("h3", 0, "after an empty round"), "release 2",
    "mode 2 fail", log("h2", 0, "after the sink began to fail"), "mode 2 ok", log("h2", 0, "and recovered"),
 ],
 "log.newlines.ops": [
    "# what 'one line' means: string VALUES are quoted (a line feed becomes \\n), but the message, keys, group names and",
    "# the text of non-string values (errors, Stringers) are written as they are: a line feed in them starts a new line",
    "reset", "new h0 1 0 0",
    log("h0", 0, "two\nlines", s("k", "v")),
    log("h0", 0, "m", " ".join(["l", hx("s"), hx('"a\\nb"'), "s", hx("a\nb")])),
    log("h0", 0, "m", " ".join(["l", hx("err"), hx("first\nsecond"), "x", hx("first\nsecond")])),
    log("h0", 0, "m", " ".join(["l", hx("k\nl"), hx("1"), "i", "1"])),
    "wg h1 h0 " + hx("g\nh"), log("h1", 0, "m", i("n", 1)),
 ],
 "log.errkinds.ops": [
    "# errors of every dynamic kind from a child and through errs.Log*: zero values of non-nillable kinds (struct{}, int 0,",
    "# empty string, zero array, context.DeadlineExceeded) ARE errors; only nil values of nillable kinds are not",
    "reset", "new h0 1 0 0", "new h1 2 0 0", "mnew m h0 h1",
    "mode 2 failk:deadline", log("m", 8, "one child fine, one fails with context.DeadlineExceeded"),
    "mode 1 failk:zstruct", log("m", 8, "two failing children, zero-valued errors: two errors"),
    "mode 1 ok", "mode 2 ok",
 ] + [x for kd in ['zstruct', 'zint', 'zstring', 'zarray', 'nzstruct', 'nzint', 'nzstring', 'nzarray', 'ptr', 'zptr', 'slice', 'eslice', 'map', 'emap', 'func', 'chan', 'nilptr', 'nilslice', 'nilmap', 'nilfunc', 'nilchan', 'deadline', 'canceled', 'eof', 'notexist', 'patherr'] for x in ("mode 2 failk:" + kd, log("m", 8, "child returns " + kd), log("h1", 8, "direct " + kd),
        " ".join(["logx", "LogTo", "bg", "h", "k:" + kd, "h0", "8", hx({'deadline': 'context deadline exceeded', 'canceled': 'context canceled', 'eof': 'EOF', 'notexist': 'file does not exist', 'patherr': 'open /x: file does not exist'}.get(kd, "K:" + kd.lstrip("nz").replace("nil", "").replace("e", "", 1) if False else None) or KM(kd))]))] + [
    "mode 2 ok", log("m", 8, "all fine again"),
 ],
 "log.sentinel.ops": [
    "# a child that returns one long-lived *errs.Error: Handle's aggregate must be built beside it, never into it;",
    "# later records report only their own failures (defect shape: first failure kept as-is, later ones appended to it)",
    "reset", "new h0 1 0 0", "new h1 2 0 0", "new h2 3 0 0", "mnew m h0 h1 h2",
    "mode 1 fails", log("m", 8, "only the sentinel child fails"),
    "mode 2 fail", log("m", 8, "sentinel child first, a plain failure second"),
    "mode 2 ok", log("m", 8, "again only the sentinel child"),
    "mode 2 faile", "mode 3 panic", log("m", 8, "sentinel, fresh errs.Error, panic"),
    "mode 2 ok", "mode 3 ok", log("m", 8, "again only the sentinel child"),
    "mode 3 fails", log("m", 8, "two sentinel children"), log("m", 8, "two sentinel children once more"),
    "mode 1 ok", log("m", 8, "the other sentinel alone"),
    "mode 1 fails", "mode 3 ok", log("h0", 8, "direct: the sentinel itself is returned"),
    "mnew mm h0 h0", log("mm", 8, "the same sentinel twice in one record"), log("mm", 8, "and again"),
    "mode 1 faile", log("h0", 8, "direct: fresh errs.Error"), log("m", 8, "fresh errs.Error alone"),
 ],
 "log.buffered.ops": [
    "# buffered mode: FIFO, drops only when full, never blocks on a stalled sink, sink errors ignored",
    "reset", "new h0 1 0 1", "new h1 2 0 3",
    log("h0", 0, "free-1"), log("h0", 0, "free-2"),
    "hold 1", log("h0", 0, "kept"), log("h0", 0, "dropped-1"), log("h0", 0, "dropped-2"), "release 1",
    log("h0", 0, "after"),
    "wa h2 h1 " + s("d", "1"),
    "hold 2", log("h1", 0, "a"), log("h2", 0, "b"), log("h1", 0, "c"), log("h2", 0, "d-dropped"), "release 2",
    "mode 2 fail", log("h1", 0, "sink error is not reported in buffered mode"),
    "mnew m h0 h1", "hold 1", log("m", 0, "to both"), log("m", 0, "h0 full"), "release 1",
 ],
}
here = os.path.dirname(os.path.abspath(__file__))
for fn, lines in files.items():
    with open(os.path.join(here, fn), "w") as f:
        f.write("\n".join(lines) + "\n")
