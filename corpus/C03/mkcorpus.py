#!/usr/bin/env python3
"""Regenerates fx.limits.ops / fxwrap.limits.ops (hardening pass): every machine integer kind at its limits for From/As,
products and scaled dividends at the 2^63 / 2^64 / 2^127 word boundaries, comparisons across the extremes, Ceil/Round/
Inc/Dec within one unit of the ends of the range, Round strictly inside (-1, 0), Fraction text forms.
Each line is classified here (exact arithmetic): all intermediates representable -> fx, otherwise -> fxwrap."""
import os

KINDS = [("int8", 8, True), ("int16", 16, True), ("int32", 32, True), ("int64", 64, True), ("int", 64, True),
         ("uint8", 8, False), ("uint16", 16, False), ("uint32", 32, False), ("uint64", 64, False), ("uint", 64, False),
         ("uintptr", 64, False),
         ("myint8", 8, True), ("myint64", 64, True), ("myuint8", 8, False), ("myuint", 64, False), ("myuint64", 64, False),
         ("myuintptr", 64, False)]


def tq(a, b):
    q = abs(a) // abs(b)
    return q if (a < 0) == (b < 0) else -q


def fits(v, bits):
    return -(1 << (bits - 1)) <= v < (1 << (bits - 1))


def krange(bits, signed):
    return (-(1 << (bits - 1)), (1 << (bits - 1)) - 1) if signed else (0, (1 << bits) - 1)


fx, wrap = [], []


def put(ok, line):
    (fx if ok else wrap).append(line)


def both(k, op, args, ok64, ok128, only128=False):
    if not only128:
        put(ok64, "f64 %d %s %s" % (k, op, args))
    put(ok128, "f128 %d %s %s" % (k, op, args))


def divfit(bits, m, a, b):
    if b == 0 or not fits(a * m, bits):
        return None
    q = tq(a * m, b)
    return q if fits(q, bits) else None


def allfit(bits, m, op, a, b=0):
    if op == "add":
        return fits(a + b, bits)
    if op == "sub":
        return fits(a - b, bits)
    if op == "mul":
        return fits(a * b, bits)
    if op == "div":
        return divfit(bits, m, a, b) is not None
    if op == "mod":  # computed directly since the fix: only the zero divisor is outside the judged domain
        return b != 0
    if op in ("neg", "abs"):
        return fits(-a, bits)
    if op == "ceil":
        t = tq(a, m) * m
        if a > 0 and a != t:
            t += m
        return fits(t, bits)
    if op == "round":  # judged whenever the exact result is representable (no margin at the limits)
        t = tq(a, m) * m
        if a - t >= m // 2:
            t += m
        elif a - t <= -(m // 2):
            t -= m
        return fits(t, bits)
    if op == "inc":
        return fits(a + m, bits)
    if op == "dec":
        return fits(a - m, bits)
    return True


for k in (1, 2, 4, 9, 10, 16):
    m = 10 ** k
    # ---- From / As: every kind at its limits
    for name, bits, signed in KINDS:
        lo, hi = krange(bits, signed)
        vals = {lo, lo + 1, hi, hi - 1, hi // 2, hi // 2 + 1, 0, 1, ((1 << 63) - 1) // m, ((1 << 63) - 1) // m + 1}
        if signed:
            vals |= {-1, lo // 2, -(((1 << 63) - 1) // m), -(((1 << 63) - 1) // m) - 1}
        for v in sorted(x for x in vals if lo <= x <= hi):
            put(fits(v, 64) and fits(v * m, 64), "f64 %d from %s %d" % (k, name, v))
            put(True, "f128 %d from %s %d" % (k, name, v))
        for q in sorted({lo - 1, lo, lo + 1, hi - 1, hi, hi + 1, -1, 0, 1, hi // 2 + 1}):
            for off in (0, m - 1, m // 2):
                raw = q * m + (off if q >= 0 else -off)
                inkind = lo <= tq(raw, m) <= hi
                # judged whether or not the integer part fits the kind: Go's integer conversion wraps deterministically
                if fits(raw, 64):
                    put(True, "f64 %d as %s %d" % (k, name, raw))
                if fits(raw, 128):
                    put(True, "f128 %d as %s %d" % (k, name, raw))
    # ---- products / scaled dividends at the word boundaries
    for t in ((1 << 63) - 1, 1 << 63, (1 << 63) + 1, (1 << 64) - 1, 1 << 64, (1 << 64) + 1, (1 << 62), (1 << 65) + 3,
              (1 << 127) - 1, (1 << 126) + 5, 10 ** 19, 18 * 10 ** 18):
        for a in ((1 << 31) + 7, (1 << 32) - 1, 3037000499, 10 ** 9, 10 ** 10, 3, m, (1 << 62) + 1, 4294967296):
            b = t // a
            for sa, sb in ((1, 1), (-1, 1), (1, -1), (-1, -1)):
                x, y = sa * a, sb * b
                if fits(x, 64) and fits(y, 64):
                    put(fits(x * y, 64), "f64 %d mul %d %d" % (k, x, y))
                if fits(x, 128) and fits(y, 128):
                    put(fits(x * y, 128), "f128 %d mul %d %d" % (k, x, y))
        for da in (-1, 0, 1):
            a = t // m + da
            for b in (3, -7, m, -(1 << 40), 4 * m, (1 << 62) - 1, -(1 << 70), a * m, a * m + 1):
                for s in (1, -1):
                    x = s * a
                    for op in ("div", "mod"):
                        if fits(x, 64) and fits(b, 64):
                            put(allfit(64, m, op, x, b), "f64 %d %s %d %d" % (k, op, x, b))
                        if fits(x, 128) and fits(b, 128):
                            put(allfit(128, m, op, x, b), "f128 %d %s %d %d" % (k, op, x, b))
    # ---- comparisons / Min / Max / Sub / Add across the extremes (difference or sum leaves the range)
    for bits, ty in ((64, "f64"), (128, "f128")):
        mx, mn = (1 << (bits - 1)) - 1, -(1 << (bits - 1))
        big9 = 9 * 10 ** (18 if bits == 64 else 37)
        for a, b in ((mx, -1), (mn, 1), (mx, mn), (mn, mx), (big9, -big9), (-big9, big9), (mx, mx), (mn, mn), (mx - 1, mx),
                     (mn + 1, mn), (0, mn), (0, mx), (-1, mx), (1, mn), (mx // 2 + 1, -(mx // 2) - 2)):
            for op in ("min", "max", "eq", "lt", "le", "gt", "ge") + (("cmp",) if bits == 128 else ()):
                put(True, "%s %d %s %d %d" % (ty, k, op, a, b))
            for op in ("add", "sub"):
                put(allfit(bits, m, op, a, b), "%s %d %s %d %d" % (ty, k, op, a, b))
        # ---- within one whole unit of the ends of the range
        top = (mx // m) * m
        for v in sorted({top, top - 1, top + 1, top - m + 1, top - m, top - m - 1, top - m // 2, top - m // 2 - 1, mx, mx - 1,
                         mx - m, mx - m + 1, mx - m + 2}):
            for s in (1, -1):
                x = s * v
                if not fits(x, bits):
                    continue
                for op in ("trunc", "ceil", "round", "inc", "dec", "abs") + (("neg",) if bits == 128 else ()):
                    put(allfit(bits, m, op, x), "%s %d %s %d" % (ty, k, op, x))
        for x in (mn, mn + 1):
            for op in ("trunc", "ceil", "round", "inc", "dec", "abs") + (("neg",) if bits == 128 else ()):
                put(allfit(bits, m, op, x), "%s %d %s %d" % (ty, k, op, x))

# ---- Mod over the whole range (since the fix "Mod computes the remainder directly" every non-zero divisor is judged):
# the reviewer's inputs (a*10^D does not fit), operands at the limits, divisors +-1, Min % -1, |b| > |a|, b = +-a
for k in (1, 2, 6, 10, 16):
    m = 10 ** k
    put(True, "f64 2 mod 1000000000000000000 300")          # From(10^16).Mod(From(3)) = 1
    put(True, "f64 2 mod 100000000000000000 700")           # From(10^15).Mod(From(7)) = 6
    put(True, "f128 2 mod 100000000000000000000000000000000000000 700")   # 10^36 mod 7 = 1
    for bits, ty in ((64, "f64"), (128, "f128")):
        mx, mn = (1 << (bits - 1)) - 1, -(1 << (bits - 1))
        top = (mx // m) * m
        avals = {mx, mx - 1, mn, mn + 1, top, -top, top + 1, mx // m, mx // m + 1, -(mx // m) - 1, (mx // m) * 3, mx // 2 + 1,
                 10 ** (18 if bits == 64 else 38), -(10 ** (18 if bits == 64 else 38)), (1 << (bits - 2)) + 1, m, -m, 1, -1, 0,
                 7 * m + 3, -(7 * m + 3)}
        bvals = {1, -1, 2, -2, 3, -3, 7, m, -m, 3 * m, -3 * m, 7 * m, m // 2, m + 1, mx, mn, mn + 1, mx - 1, mx // 2,
                 -(mx // 2) - 1, (1 << (bits - 2)), -(1 << (bits - 2)), (1 << 62) + 1, 10 ** 9 + 7, -(10 ** 9 + 7)}
        if bits == 128:
            avals |= {(1 << 63), (1 << 64), (1 << 64) - 1, -(1 << 64), (1 << 126) + 12345}
            bvals |= {(1 << 63), (1 << 64), (1 << 64) + 1, -(1 << 63) - 1, (1 << 100) + 3, 10 ** 20 + 1}
        for a in sorted(avals):
            for b in sorted(bvals):
                if fits(a, bits) and fits(b, bits):
                    put(True, "%s %d mod %d %d" % (ty, k, a, b))
            if fits(a, bits):
                put(True, "%s %d mod %d %d" % (ty, k, a, a if a != 0 else 1))
                if fits(-a, bits) and a != 0:
                    put(True, "%s %d mod %d %d" % (ty, k, a, -a))
                wrap.append("%s %d mod %d 0" % (ty, k, a))

# ---- Round / Ceil / Trunc strictly inside (-1, 1), every configuration
for k in range(1, 17):
    m = 10 ** k
    for x in sorted({-(m // 2), -(m - 1), -(m // 2) - 1, -(m // 2) + 1, -1, 1, m // 2, m // 2 - 1, m - 1, -(7 * m // 10)}):
        for op in ("round", "ceil", "trunc"):
            both(k, op, str(x), True, True)

# ---- Fraction: text forms, zero / negative denominators
def fracfit(bits, m, n, d):
    """(Normalize exact, Value exact)"""
    if d == 0:
        return True, True
    if d < 0:
        if not (fits(n * -m, bits) and fits(d * -m, bits)):
            return False, False
        n, d = -n, -d
    return True, allfit(bits, m, "div", n, d)


def tokval(t, m):
    return 0 if t in ("bad", "empty") else (m if t == "none" else int(t))


for k in (1, 2, 6, 16):
    m = 10 ** k
    for n, d in ((m, 3 * m), (m, -3 * m), (-m, -3 * m), (m, 0), (0, 0), (-5, m), (-5, -m), (m // 2, 1), (m // 2, -1), (7, m),
                 (-7, m), (12345, -1), (0, -m)):
        n64, v64 = fracfit(64, m, n, d)
        n128, v128 = fracfit(128, m, n, d)
        for op in ("fnorm", "fstr"):
            both(k, op, "%d %d" % (n, d), n64, n128)
        both(k, "fval", "%d %d" % (n, d), v64, v128)
        for v in (0, 1, 7, 33, 124, 626, 1251, 2499):
            both(k, "fnew", "%d %d %d" % (v, n, d), v64, v128)
            both(k, "fjson", "%d %d %d" % (v, n, d), n64, n128)
    for v, nt, dt in ((0, "bad", "none"), (3, "empty", "none"), (9, str(m), "none"), (9, str(-m // 2), "none"),
                      (14, str(m), "empty"), (14, str(m), "bad"), (77, "bad", str(-2 * m)), (5, "empty", "empty")):
        n, d = tokval(nt, m), tokval(dt, m)
        n64, v64 = fracfit(64, m, n, d)
        n128, v128 = fracfit(128, m, n, d)
        both(k, "fnew", "%d %s %s" % (v, nt, dt), v64, v128)
        both(k, "fjson", "%d %s %s" % (v, nt, dt), n64, n128)
    both(k, "fjsonbad", "", True, True)

here = os.path.dirname(os.path.abspath(__file__))
for fn, lines in (("fx.limits.ops", fx), ("fxwrap.limits.ops", wrap)):
    seen, out = set(), []
    for l in lines:
        l = l.rstrip()
        if l not in seen:
            seen.add(l)
            out.append(l)
    with open(os.path.join(here, fn), "w") as f:
        f.write("# generated by corpus/C03/mkcorpus.py - do not edit by hand\n")
        f.write("\n".join(out) + "\n")
    print(fn, len(out))
