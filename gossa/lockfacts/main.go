// lockfacts — extract the LOCK DISCIPLINE of four packages of the working tree as Lean data.
//
//	lockfacts <repo dir> <out.lean> [-only t1,t2 [-ref <reference repo>]] [-bare] [-dump]
//
// For every target (rotation, notifier, tracelog, rate) the package is loaded from <repo dir> (go/packages, typed
// syntax), SSA is built (golang.org/x/tools/go/ssa, generics instantiated) and a flow-sensitive, context-sensitive
// analysis computes, for every instruction reachable from a function or method with an exported name, which of the
// package's mutexes are held there:
//
//   - MUST state: the weakest state over ALL paths to the instruction (free < shared < exclusive) — used for "this access
//     happens under the lock";
//   - MAY state: the strongest state over SOME path — used for "this callback / blocking send / acquisition happens with
//     the lock free".
//
// The guarded structs are found by SHAPE, not by name: a struct of the package that has a field of type sync.Mutex,
// sync.RWMutex or a pointer to one owns a mutex; a struct that has a field of type pointer-to-owner is guarded by the
// owner's mutex (rate: limiter -> controller.lock; such a target is analysed instance-insensitively, one lock for the
// whole tree).  Otherwise the analysis is instance-sensitive: `other.lock.Lock()` does not protect `n.nameMap`.
//
// Lock()/RLock()/Unlock()/RUnlock() on the mutex field change the state; `defer mu.Unlock()` acts at the function's
// RunDefers; a call of a function of the same package (generic instantiations included) is analysed in the caller's
// state at the call site, with the abstract values of its arguments (memoised per context), so a lock taken by a helper,
// an access made by a helper called with the lock held, and a closure handed to a helper that calls it under the lock
// are all understood; `go` statements and closures that escape (returned, stored, handed to another package) start with
// every lock free.
//
// Accesses.  A field of a guarded struct is MUTABLE-SHARED if the package writes it (the field cell itself, or — through
// the reference stored in it — a map entry, a slice element or the pointee) through an instance that was not allocated
// in the calling context (a constructor initialising its fresh object, and the option functions a constructor applies
// to it, do not count).  For mutable-shared fields every read / write / use (the reference handed to a function of
// another package) is emitted with the state at that instruction; immutable fields, the mutex fields and fields of
// sync and sync/atomic types are exempt.  Events: callback calls through an interface (configured method names),
// sends / receives on channel-typed fields of guarded structs, lock acquisitions and `go` statements, each with the
// state at that instruction and — for a struct with a channel-typed field — whether the instruction is dominated by
// the test `field == nil` or `field != nil`.
//
// Nothing in the output depends on line numbers; functions are named as go/ssa prints them relative to the package
// (`(*Rotator).Write`, `New$1`), fields by their (possibly nested) names.  The theorems of lean/Props/LockGen.lean
// quantify over all records and never name a function or a field.
package main

import (
	"encoding/json"
	"fmt"
	"go/token"
	"go/types"
	"os"
	"sort"
	"strings"

	"golang.org/x/tools/go/packages"
	"golang.org/x/tools/go/ssa"
	"golang.org/x/tools/go/ssa/ssautil"
)

// ---------------------------------------------------------------------------------------------------------- config

type targetCfg struct {
	name      string
	pkg       string
	check     string
	callbacks map[string]string // interface method name -> event kind
}

const root = "github.com/richardwilkes/toolbox/"

var targetList = []*targetCfg{
	{name: "rotation", pkg: root + "log/rotation", check: "C12"},
	{name: "notifier", pkg: root + "notifier", check: "C17",
		callbacks: map[string]string{"HandleNotification": "callback", "BatchMode": "callback"}},
	{name: "tracelog", pkg: root + "log/tracelog", check: "C13", callbacks: map[string]string{"Write": "sinkWrite"}},
	{name: "rate", pkg: root + "rate", check: "C16"},
}

// ---------------------------------------------------------------------------------------------------------- lattice

type State int

const (
	free State = iota
	shared
	exclusive
)

var stateName = []string{"free", "shared", "exclusive"}

type held struct{ must, may State }

type deferred struct {
	site *ssa.Defer
	sure bool
}

// lstate: lock state per instance key + the deferred calls registered so far on this path
type lstate struct {
	h      map[string]held
	defers []deferred
}

func newState() *lstate { return &lstate{h: map[string]held{}} }

func (s *lstate) clone() *lstate {
	n := &lstate{h: make(map[string]held, len(s.h)), defers: append([]deferred(nil), s.defers...)}
	for k, v := range s.h {
		n.h[k] = v
	}
	return n
}

func hkey(h map[string]held) string {
	var ks []string
	for k, v := range h {
		if v.must != free || v.may != free {
			ks = append(ks, fmt.Sprintf("%s=%d/%d", k, v.must, v.may))
		}
	}
	sort.Strings(ks)
	return strings.Join(ks, ",")
}

func (s *lstate) key() string {
	var b strings.Builder
	b.WriteString(hkey(s.h))
	b.WriteString("|")
	for _, d := range s.defers {
		fmt.Fprintf(&b, "%p:%v;", d.site, d.sure)
	}
	return b.String()
}

func minS(a, b State) State {
	if a < b {
		return a
	}
	return b
}
func maxS(a, b State) State {
	if a > b {
		return a
	}
	return b
}

// join at a control-flow merge
func joinState(a, b *lstate) *lstate {
	if a == nil {
		return b.clone()
	}
	n := newState()
	for k, v := range a.h {
		w := b.h[k]
		n.h[k] = held{minS(v.must, w.must), maxS(v.may, w.may)}
	}
	for k, w := range b.h {
		if _, ok := a.h[k]; !ok {
			n.h[k] = held{free, w.may}
		}
	}
	same := len(a.defers) == len(b.defers)
	if same {
		for i := range a.defers {
			if a.defers[i].site != b.defers[i].site {
				same = false
			}
		}
	}
	if same {
		for i := range a.defers {
			n.defers = append(n.defers, deferred{a.defers[i].site, a.defers[i].sure && b.defers[i].sure})
		}
		return n
	}
	inB := map[*ssa.Defer]bool{}
	for _, d := range b.defers {
		inB[d.site] = true
	}
	seen := map[*ssa.Defer]bool{}
	for _, d := range a.defers {
		n.defers = append(n.defers, deferred{d.site, d.sure && inB[d.site]})
		seen[d.site] = true
	}
	for _, d := range b.defers {
		if !seen[d.site] {
			n.defers = append(n.defers, deferred{d.site, false})
		}
	}
	return n
}

func (s *lstate) overall() held {
	var r held
	for _, v := range s.h {
		r.must = maxS(r.must, v.must)
		r.may = maxS(r.may, v.may)
	}
	return r
}

// ---------------------------------------------------------------------------------------------------------- abstract values

type akind int

const (
	aNone      akind = iota
	aInst            // pointer to (a nested struct `sub` of) an instance of a guarded struct
	aFieldAddr       // address of a leaf field of an instance
	aContent         // a reference obtained from a guarded field (the map / slice / pointer stored in it, or something reached through it)
	aMutex           // the mutex of an instance (address of the field, or the pointer stored in it)
	aClosure         // a function value of the package with the abstract values of its free variables
	aCell            // the address of a local variable
	aTuple
)

type taint struct {
	inst, tname, field string
	direct             bool // the value IS the content of the field cell (not something reached through it)
}

type cell struct{ content aval }

type aval struct {
	k      akind
	inst   string // aInst / aFieldAddr / aMutex: "a0", "a1" (parameter instances), "*" (instance-insensitive target), "new…" (allocated in this calling context), "s…" (fresh object handed to a goroutine), "?" (unknown)
	tname  string
	sub    string // aInst: path of the nested struct pointed to
	field  string // aFieldAddr
	ftype  types.Type
	ts     []taint // aContent
	isAddr bool    // aContent: the value is an ADDRESS inside the referenced data (element / field of pointee)
	via    string  // aContent with isAddr: how the address was reached
	fn     *ssa.Function
	binds  []aval
	cell   *cell
	elems  []aval
}

func isFresh(inst string) bool { return strings.HasPrefix(inst, "new") }

func (a aval) key() string { return a.keyD(0) }

func (a aval) keyD(d int) string {
	if d > 4 {
		return "…"
	}
	switch a.k {
	case aNone:
		return "-"
	case aInst:
		return "I(" + a.inst + ":" + a.tname + "." + a.sub + ")"
	case aFieldAddr:
		return "F(" + a.inst + ":" + a.tname + "." + a.field + ")"
	case aMutex:
		return "M(" + a.inst + ")"
	case aContent:
		var p []string
		for _, t := range a.ts {
			p = append(p, fmt.Sprintf("%s:%s.%s:%v", t.inst, t.tname, t.field, t.direct))
		}
		return fmt.Sprintf("C(%s|%v|%s)", strings.Join(p, ","), a.isAddr, a.via)
	case aClosure:
		var p []string
		for _, b := range a.binds {
			p = append(p, b.keyD(d+1))
		}
		return fmt.Sprintf("L(%p|%s)", a.fn, strings.Join(p, ","))
	case aCell:
		return "c(" + a.cell.content.keyD(d+1) + ")"
	case aTuple:
		var p []string
		for _, b := range a.elems {
			p = append(p, b.keyD(d+1))
		}
		return "T(" + strings.Join(p, ",") + ")"
	}
	return "?"
}

func (an *analysis) mergeInst(a, b string) string {
	if a == b {
		return a
	}
	if an.global {
		if isFresh(a) && isFresh(b) {
			return a
		}
		return "*"
	}
	if isFresh(a) && isFresh(b) {
		return a
	}
	return "?"
}

func (an *analysis) joinVal(a, b aval) aval {
	if a.k == aNone {
		return b
	}
	if b.k == aNone || a.key() == b.key() {
		return a
	}
	if a.k != b.k {
		return a
	}
	switch a.k {
	case aInst:
		if a.tname != b.tname || a.sub != b.sub {
			return a
		}
		a.inst = an.mergeInst(a.inst, b.inst)
		return a
	case aFieldAddr:
		if a.tname != b.tname || a.field != b.field {
			return a
		}
		a.inst = an.mergeInst(a.inst, b.inst)
		return a
	case aMutex:
		a.inst = an.mergeInst(a.inst, b.inst)
		return a
	case aContent:
		r := a
		r.ts = append([]taint(nil), a.ts...)
		for _, t := range b.ts {
			dup := false
			for _, u := range r.ts {
				if u == t {
					dup = true
				}
			}
			if !dup {
				r.ts = append(r.ts, t)
			}
		}
		sort.Slice(r.ts, func(i, j int) bool { return fmt.Sprint(r.ts[i]) < fmt.Sprint(r.ts[j]) })
		return r
	case aTuple:
		if len(a.elems) != len(b.elems) {
			return a
		}
		r := a
		r.elems = make([]aval, len(a.elems))
		for i := range a.elems {
			r.elems[i] = an.joinVal(a.elems[i], b.elems[i])
		}
		return r
	case aCell:
		if a.cell != b.cell {
			a.cell.content = an.joinVal(a.cell.content, b.cell.content)
		}
		return a
	}
	return a
}

// ---------------------------------------------------------------------------------------------------------- records

type Access struct {
	Fn    string `json:"fn"`
	Owner string `json:"owner"`
	Field string `json:"field"`
	Kind  string `json:"kind"` // read write use
	Via   string `json:"via"`  // cell mapEntry sliceElem pointee
	Must  string `json:"must"`
	May   string `json:"may"`
	Ctx   string `json:"ctx"` // api spawned escaped
	mut   bool   // counts towards "the package mutates this field" (false for `use`)
}

type Event struct {
	Fn    string `json:"fn"`
	What  string `json:"what"`
	Name  string `json:"name"`
	Must  string `json:"must"`
	May   string `json:"may"`
	Ctx   string `json:"ctx"`
	Guard string `json:"guard"` // none chanNil chanSet
}

type recset struct {
	acc map[Access]bool
	ev  map[Event]bool
}

func newRecs() *recset { return &recset{acc: map[Access]bool{}, ev: map[Event]bool{}} }
func (r *recset) addAll(o *recset) {
	if o == nil {
		return
	}
	for k := range o.acc {
		r.acc[k] = true
	}
	for k := range o.ev {
		r.ev[k] = true
	}
}

// ---------------------------------------------------------------------------------------------------------- analysis

type analysis struct {
	cfg     *targetCfg
	prog    *ssa.Program
	pkg     *ssa.Package
	guarded map[string]*types.Named // guarded struct types by name
	owners  map[string]bool
	global  bool
	hasChan bool
	memo    map[string]*summary
	optSigs map[string]int // signature of option functions applied by a constructor to its fresh object -> index of that argument
	escaped map[string]bool
	escRecs *recset
	nSpawn  int
	notes   []string
}

type summary struct {
	exit    map[string]held
	ret     []aval
	recs    *recset
	done    bool
	entryH  map[string]held
	nResult int
}

type frame struct {
	an     *analysis
	fn     *ssa.Function
	params []aval
	fvs    []aval
	vals   map[ssa.Value]aval
	cells  map[*ssa.Alloc]*cell
	in     map[*ssa.BasicBlock]*lstate
	ctx    string
	guard  string
	recs   *recset
	exit   map[string]held
	ret    []aval
	emit   bool
	name   string
	order  []*ssa.BasicBlock
	bguard map[*ssa.BasicBlock]string
	out    map[*ssa.BasicBlock]*lstate
	entry  bool // analysed as an entry point of the API (a function value it returns escapes)
}

func isMutexNamed(t types.Type) bool {
	n, ok := types.Unalias(t).(*types.Named)
	if !ok || n.Obj().Pkg() == nil || n.Obj().Pkg().Path() != "sync" {
		return false
	}
	return n.Obj().Name() == "Mutex" || n.Obj().Name() == "RWMutex"
}

func isMutexOrPtr(t types.Type) bool {
	if isMutexNamed(t) {
		return true
	}
	if p, ok := types.Unalias(t).Underlying().(*types.Pointer); ok {
		return isMutexNamed(p.Elem())
	}
	return false
}

// a field whose type comes from sync or sync/atomic synchronises itself
func isSyncType(t types.Type) bool {
	if p, ok := types.Unalias(t).Underlying().(*types.Pointer); ok {
		t = p.Elem()
	}
	n, ok := types.Unalias(t).(*types.Named)
	if !ok || n.Obj().Pkg() == nil {
		return false
	}
	p := n.Obj().Pkg().Path()
	return p == "sync" || p == "sync/atomic"
}

func (an *analysis) namedIn(t types.Type) *types.Named {
	n, ok := types.Unalias(t).(*types.Named)
	if !ok || n.Obj().Pkg() == nil || n.Obj().Pkg() != an.pkg.Pkg {
		return nil
	}
	return n
}

// flatten: a struct-typed field whose type is declared in the package (or anonymous) is a nested part of its parent
func (an *analysis) flatten(t types.Type) *types.Struct {
	if _, ok := types.Unalias(t).(*types.Named); ok && an.namedIn(t) == nil {
		return nil
	}
	if n := an.namedIn(t); n != nil && an.guarded[n.Obj().Name()] != nil {
		return nil
	}
	st, _ := types.Unalias(t).Underlying().(*types.Struct)
	return st
}

func (an *analysis) hasMutexField(st *types.Struct) bool {
	for i := 0; i < st.NumFields(); i++ {
		ft := st.Field(i).Type()
		if isMutexOrPtr(ft) {
			return true
		}
	}
	return false
}

func join(sub, name string) string {
	if sub == "" {
		return name
	}
	return sub + "." + name
}

type leaf struct {
	path string
	typ  types.Type
}

func (an *analysis) leaves(st *types.Struct, prefix string, acc []leaf) []leaf {
	for i := 0; i < st.NumFields(); i++ {
		f := st.Field(i)
		if isMutexOrPtr(f.Type()) {
			continue
		}
		if sub := an.flatten(f.Type()); sub != nil {
			acc = an.leaves(sub, join(prefix, f.Name()), acc)
			continue
		}
		acc = append(acc, leaf{join(prefix, f.Name()), f.Type()})
	}
	return acc
}

func (an *analysis) structAt(tname, sub string) *types.Struct {
	n := an.guarded[tname]
	if n == nil {
		return nil
	}
	st, _ := n.Underlying().(*types.Struct)
	if sub == "" {
		return st
	}
	for _, part := range strings.Split(sub, ".") {
		var next *types.Struct
		for i := 0; st != nil && i < st.NumFields(); i++ {
			if st.Field(i).Name() == part {
				next, _ = types.Unalias(st.Field(i).Type()).Underlying().(*types.Struct)
			}
		}
		st = next
	}
	return st
}

func (an *analysis) discover() {
	an.guarded = map[string]*types.Named{}
	an.owners = map[string]bool{}
	scope := an.pkg.Pkg.Scope()
	names := scope.Names()
	for _, nm := range names {
		tn, ok := scope.Lookup(nm).(*types.TypeName)
		if !ok || tn.IsAlias() {
			continue
		}
		n, ok := tn.Type().(*types.Named)
		if !ok {
			continue
		}
		st, ok := n.Underlying().(*types.Struct)
		if !ok {
			continue
		}
		if an.hasMutexField(st) {
			an.guarded[nm] = n
			an.owners[nm] = true
		}
	}
	// holders: a struct with a field of type pointer-to-owner is guarded by the owner's mutex
	for _, nm := range names {
		tn, ok := scope.Lookup(nm).(*types.TypeName)
		if !ok || tn.IsAlias() || an.guarded[nm] != nil {
			continue
		}
		n, ok := tn.Type().(*types.Named)
		if !ok {
			continue
		}
		st, ok := n.Underlying().(*types.Struct)
		if !ok {
			continue
		}
		for i := 0; i < st.NumFields(); i++ {
			if p, ok := types.Unalias(st.Field(i).Type()).Underlying().(*types.Pointer); ok {
				if o := an.namedIn(p.Elem()); o != nil && an.owners[o.Obj().Name()] {
					an.guarded[nm] = n
					an.global = true
				}
			}
		}
	}
	for nm := range an.guarded {
		for _, l := range an.leaves(an.structAt(nm, ""), "", nil) {
			if _, ok := types.Unalias(l.typ).Underlying().(*types.Chan); ok {
				an.hasChan = true
			}
		}
	}
}

// guardedPtr: t is *T (or T) with T a guarded struct
func (an *analysis) guardedOf(t types.Type) string {
	if p, ok := types.Unalias(t).Underlying().(*types.Pointer); ok {
		t = p.Elem()
	}
	if n := an.namedIn(t); n != nil {
		if g := an.guarded[n.Obj().Name()]; g != nil && (g == n || g.Origin() == n.Origin()) {
			return n.Obj().Name()
		}
	}
	return ""
}

func (an *analysis) sharedInst(i int) string {
	if an.global {
		return "*"
	}
	return fmt.Sprintf("a%d", i)
}

func (an *analysis) unknownInst() string {
	if an.global {
		return "*"
	}
	return "?"
}

func (an *analysis) inPkg(fn *ssa.Function) bool {
	for f := fn; f != nil; f = f.Parent() {
		if o := f.Origin(); o != nil {
			f = o
		}
		if f.Pkg != nil {
			return f.Pkg == an.pkg
		}
		if f.Object() != nil && f.Object().Pkg() != nil {
			return f.Object().Pkg() == an.pkg.Pkg
		}
	}
	return false
}

func (an *analysis) fnName(fn *ssa.Function) string {
	f := fn
	if o := f.Origin(); o != nil {
		f = o
	}
	return f.RelString(an.pkg.Pkg)
}

func extPkgName(fn *ssa.Function) (string, string) {
	f := fn
	if o := f.Origin(); o != nil {
		f = o
	}
	p := ""
	if f.Object() != nil && f.Object().Pkg() != nil {
		p = f.Object().Pkg().Path()
	} else if f.Pkg != nil {
		p = f.Pkg.Pkg.Path()
	}
	return p, f.Name()
}

func (an *analysis) ctxKey(fn *ssa.Function, params, binds []aval, h map[string]held, ctx, guard string, entry bool) string {
	var b strings.Builder
	fmt.Fprintf(&b, "%p|", fn)
	for _, p := range params {
		b.WriteString(p.key())
		b.WriteString(";")
	}
	b.WriteString("|")
	for _, p := range binds {
		b.WriteString(p.key())
		b.WriteString(";")
	}
	b.WriteString("|" + hkey(h) + "|" + ctx + "|" + guard)
	if entry {
		b.WriteString("|entry")
	}
	return b.String()
}

func cloneH(h map[string]held) map[string]held {
	n := make(map[string]held, len(h))
	for k, v := range h {
		n[k] = v
	}
	return n
}

// analyse fn in a context; memoised.  A call that is already being analysed in the same context (recursion) is assumed
// to leave the lock state as it found it.
func (an *analysis) analyse(fn *ssa.Function, params, binds []aval, h map[string]held, ctx, guard string, entry bool) *summary {
	key := an.ctxKey(fn, params, binds, h, ctx, guard, entry)
	if s, ok := an.memo[key]; ok {
		if !s.done {
			return &summary{exit: cloneH(h), recs: newRecs(), done: true}
		}
		return s
	}
	s := &summary{entryH: cloneH(h)}
	an.memo[key] = s
	f := &frame{an: an, fn: fn, params: params, fvs: binds, vals: map[ssa.Value]aval{}, cells: map[*ssa.Alloc]*cell{},
		in: map[*ssa.BasicBlock]*lstate{}, out: map[*ssa.BasicBlock]*lstate{}, ctx: ctx, guard: guard, recs: newRecs(),
		name: an.fnName(fn), entry: entry}
	f.run(h)
	s.exit = f.exit
	if s.exit == nil { // no return reachable (infinite loop, panic)
		s.exit = cloneH(h)
	}
	s.ret = f.ret
	s.recs = f.recs
	s.done = true
	return s
}

func rpo(fn *ssa.Function) []*ssa.BasicBlock {
	if len(fn.Blocks) == 0 {
		return nil
	}
	seen := map[*ssa.BasicBlock]bool{}
	var post []*ssa.BasicBlock
	var visit func(b *ssa.BasicBlock)
	visit = func(b *ssa.BasicBlock) {
		seen[b] = true
		for _, s := range b.Succs {
			if !seen[s] {
				visit(s)
			}
		}
		post = append(post, b)
	}
	visit(fn.Blocks[0])
	for i, j := 0, len(post)-1; i < j; i, j = i+1, j-1 {
		post[i], post[j] = post[j], post[i]
	}
	return post
}

func (f *frame) run(h map[string]held) {
	f.order = rpo(f.fn)
	if len(f.order) == 0 {
		f.exit = cloneH(h)
		return
	}
	entry := &lstate{h: cloneH(h)}
	for iter := 0; iter < 40; iter++ {
		changed := false
		f.exit, f.ret = nil, nil
		f.computeGuards()
		for _, b := range f.order {
			var st *lstate
			if b == f.order[0] {
				st = entry.clone()
			}
			for _, p := range b.Preds {
				if o := f.outOf(p); o != nil {
					st = joinState(st, o)
				}
			}
			if st == nil {
				continue
			}
			if old, ok := f.in[b]; !ok || old.key() != st.key() {
				changed = true
			}
			f.in[b] = st
			before := f.valsKey(b)
			out := f.transfer(b, st.clone())
			f.setOut(b, out)
			if f.valsKey(b) != before {
				changed = true
			}
		}
		if !changed {
			break
		}
	}
	// emit pass with the fixed point
	f.emit = true
	f.computeGuards()
	f.exit, f.ret = nil, nil
	for _, b := range f.order {
		if st, ok := f.in[b]; ok {
			f.transfer(b, st.clone())
		}
	}
}

func (f *frame) outOf(b *ssa.BasicBlock) *lstate     { return f.out[b] }
func (f *frame) setOut(b *ssa.BasicBlock, s *lstate) { f.out[b] = s }

func (f *frame) valsKey(b *ssa.BasicBlock) string {
	var sb strings.Builder
	for _, ins := range b.Instrs {
		if v, ok := ins.(ssa.Value); ok {
			if a, ok := f.vals[v]; ok {
				sb.WriteString(a.key())
			}
			sb.WriteString(";")
		}
		if al, ok := ins.(*ssa.Alloc); ok {
			if c := f.cells[al]; c != nil {
				sb.WriteString(c.content.key())
			}
		}
	}
	return sb.String()
}

func (f *frame) val(v ssa.Value) aval {
	switch x := v.(type) {
	case *ssa.Parameter:
		for i, p := range f.fn.Params {
			if p == x && i < len(f.params) {
				return f.params[i]
			}
		}
		return aval{}
	case *ssa.FreeVar:
		for i, p := range f.fn.FreeVars {
			if p == x && i < len(f.fvs) {
				return f.fvs[i]
			}
		}
		return aval{}
	case *ssa.Function:
		if f.an.inPkg(x) && len(x.Blocks) > 0 {
			return aval{k: aClosure, fn: x}
		}
		return aval{}
	case *ssa.Const, *ssa.Global, *ssa.Builtin:
		return aval{}
	}
	return f.vals[v]
}

func (f *frame) set(v ssa.Value, a aval) {
	if old, ok := f.vals[v]; ok {
		a = f.an.joinVal(old, a)
	}
	f.vals[v] = a
}

func refish(t types.Type) bool {
	switch u := types.Unalias(t).Underlying().(type) {
	case *types.Pointer, *types.Map, *types.Slice:
		return true
	case *types.Struct:
		for i := 0; i < u.NumFields(); i++ {
			if refish(u.Field(i).Type()) {
				return true
			}
		}
	case *types.Array:
		return refish(u.Elem())
	case *types.Tuple:
		return true
	}
	return false
}

// stateFor: the lock state that protects an access through instance `inst`
func (f *frame) stateFor(st *lstate, inst string) held {
	if inst == "?" {
		return held{free, st.overall().may}
	}
	return st.h[inst]
}

func (f *frame) access(st *lstate, inst, tname, field, kind, via string, mut bool) {
	if !f.emit || isFresh(inst) {
		return
	}
	h := f.stateFor(st, inst)
	f.recs.acc[Access{Fn: f.name, Owner: tname, Field: field, Kind: kind, Via: via, Must: stateName[h.must],
		May: stateName[h.may], Ctx: f.ctx, mut: mut}] = true
}

func (f *frame) deep(st *lstate, a aval, kind, via string, mut bool) {
	if a.k != aContent {
		return
	}
	if a.isAddr && a.via != "" {
		via = a.via
	}
	for _, t := range a.ts {
		f.access(st, t.inst, t.tname, t.field, kind, via, mut)
	}
}

func viaOfType(t types.Type) string {
	switch types.Unalias(t).Underlying().(type) {
	case *types.Map:
		return "mapEntry"
	case *types.Slice:
		return "sliceElem"
	}
	return "pointee"
}

func (f *frame) event(st *lstate, what, name string, h held, ins ssa.Instruction) {
	if !f.emit {
		return
	}
	g := f.guard
	if ins != nil && ins.Block() != nil {
		if bg := f.bguard[ins.Block()]; bg != "" {
			g = bg
		}
	}
	if g == "" {
		g = "none"
	}
	f.recs.ev[Event{Fn: f.name, What: what, Name: name, Must: stateName[h.must], May: stateName[h.may], Ctx: f.ctx, Guard: g}] = true
}

// chanField: the value is exactly the content of a channel-typed field of a guarded struct
func (f *frame) chanField(a aval) (string, bool) {
	if a.k != aContent || a.isAddr {
		return "", false
	}
	for _, t := range a.ts {
		if t.direct {
			return t.tname + "." + t.field, true
		}
	}
	return "", false
}

func (f *frame) computeGuards() {
	f.bguard = map[*ssa.BasicBlock]string{}
	if !f.an.hasChan {
		return
	}
	for _, b := range f.order {
		for d := b; d != nil; d = d.Idom() {
			p := d.Idom()
			if p == nil || len(d.Preds) != 1 || d.Preds[0] != p || len(p.Instrs) == 0 {
				continue
			}
			ifi, ok := p.Instrs[len(p.Instrs)-1].(*ssa.If)
			if !ok {
				continue
			}
			pol, ok := f.nilTest(ifi.Cond)
			if !ok {
				continue
			}
			if p.Succs[0] == p.Succs[1] {
				continue
			}
			if d == p.Succs[1] {
				pol = !pol
			}
			if pol {
				f.bguard[b] = "chanNil"
			} else {
				f.bguard[b] = "chanSet"
			}
			break
		}
	}
}

// nilTest: cond is `X == nil` (true) / `X != nil` (false) with X the content of a channel-typed guarded field
func (f *frame) nilTest(c ssa.Value) (bool, bool) {
	flip := false
	for {
		u, ok := c.(*ssa.UnOp)
		if !ok || u.Op != token.NOT {
			break
		}
		flip = !flip
		c = u.X
	}
	b, ok := c.(*ssa.BinOp)
	if !ok || (b.Op != token.EQL && b.Op != token.NEQ) {
		return false, false
	}
	x, y := b.X, b.Y
	if k, ok := x.(*ssa.Const); ok && k.IsNil() {
		x, y = y, x
	}
	k, ok := y.(*ssa.Const)
	if !ok || !k.IsNil() {
		return false, false
	}
	if _, ok := types.Unalias(x.Type()).Underlying().(*types.Chan); !ok {
		return false, false
	}
	if _, ok := f.chanField(f.val(x)); !ok {
		return false, false
	}
	return (b.Op == token.EQL) != flip, true
}

func (f *frame) transfer(b *ssa.BasicBlock, st *lstate) *lstate {
	an := f.an
	for _, ins := range b.Instrs {
		switch x := ins.(type) {
		case *ssa.Alloc:
			et := x.Type().(*types.Pointer).Elem()
			if tn := an.guardedOf(et); tn != "" && an.namedIn(et) != nil {
				if _, isPtr := types.Unalias(et).Underlying().(*types.Pointer); !isPtr {
					f.set(x, aval{k: aInst, inst: "new", tname: tn})
					break
				}
			}
			c := f.cells[x]
			if c == nil {
				c = &cell{}
				f.cells[x] = c
			}
			f.vals[x] = aval{k: aCell, cell: c}
		case *ssa.FieldAddr:
			f.set(x, f.fieldAddr(st, x.X, x.Field))
		case *ssa.Field:
			a := f.val(x.X)
			if a.k == aContent && refish(x.Type()) {
				r := a
				r.isAddr = false
				f.set(x, r)
			}
		case *ssa.UnOp:
			switch x.Op {
			case token.MUL:
				f.set(x, f.load(st, x))
			case token.ARROW:
				if nm, ok := f.chanField(f.val(x.X)); ok {
					f.event(st, "recv", nm, st.overall(), x)
				}
			}
		case *ssa.Store:
			f.store(st, x)
		case *ssa.Phi:
			var r aval
			for _, e := range x.Edges {
				r = an.joinVal(r, f.val(e))
			}
			f.set(x, r)
		case *ssa.Extract:
			t := f.val(x.Tuple)
			if t.k == aTuple && x.Index < len(t.elems) {
				f.set(x, t.elems[x.Index])
			}
		case *ssa.Lookup:
			m := f.val(x.X)
			if m.k == aContent {
				f.deep(st, m, "read", "mapEntry", false)
				var r aval
				vt := x.Type()
				if x.CommaOk {
					vt = vt.(*types.Tuple).At(0).Type()
				}
				if refish(vt) {
					r = f.derived(m, vt)
				}
				if x.CommaOk {
					f.set(x, aval{k: aTuple, elems: []aval{r, {}}})
				} else {
					f.set(x, r)
				}
			}
		case *ssa.MapUpdate:
			m := f.val(x.Map)
			f.deep(st, m, "write", "mapEntry", true)
			f.escape(st, f.val(x.Value))
		case *ssa.Range:
			m := f.val(x.X)
			if m.k == aContent {
				f.deep(st, m, "read", viaOfType(x.X.Type()), false)
				f.set(x, m)
			}
		case *ssa.Next:
			it := f.val(x.Iter)
			if it.k == aContent {
				f.deep(st, it, "read", "mapEntry", false)
				tup := x.Type().(*types.Tuple)
				el := make([]aval, tup.Len())
				for i := 1; i < tup.Len(); i++ {
					if refish(tup.At(i).Type()) {
						el[i] = f.derived(it, tup.At(i).Type())
					}
				}
				f.set(x, aval{k: aTuple, elems: el})
			}
		case *ssa.IndexAddr:
			s := f.val(x.X)
			if s.k == aContent {
				r := s
				r.ts = undirect(s.ts)
				if !s.isAddr {
					r.via = "sliceElem"
					if _, ok := types.Unalias(x.X.Type()).Underlying().(*types.Pointer); ok && !s.isAddr {
						r.via = "pointee"
					}
				}
				r.isAddr = true
				f.set(x, r)
			}
		case *ssa.Index:
			s := f.val(x.X)
			if s.k == aContent && refish(x.Type()) {
				f.set(x, f.derived(s, x.Type()))
			}
		case *ssa.Slice:
			s := f.val(x.X)
			if s.k == aContent {
				r := s
				r.ts = undirect(s.ts)
				if s.isAddr { // slicing an array reached through an address
					r.isAddr = false
				}
				f.set(x, r)
			}
		case *ssa.ChangeType:
			f.set(x, f.val(x.X))
		case *ssa.Convert:
			a := f.val(x.X)
			if a.k == aInst || a.k == aContent {
				f.set(x, a)
			}
		case *ssa.MakeInterface:
			a := f.val(x.X)
			if a.k == aInst || a.k == aClosure {
				f.set(x, a)
			}
		case *ssa.ChangeInterface:
			f.set(x, f.val(x.X))
		case *ssa.TypeAssert:
			a := f.val(x.X)
			if a.k == aInst || a.k == aClosure {
				if x.CommaOk {
					f.set(x, aval{k: aTuple, elems: []aval{a, {}}})
				} else {
					f.set(x, a)
				}
			}
		case *ssa.MakeClosure:
			fn := x.Fn.(*ssa.Function)
			bs := make([]aval, len(x.Bindings))
			for i, bv := range x.Bindings {
				bs[i] = f.val(bv)
			}
			f.vals[x] = aval{k: aClosure, fn: fn, binds: bs}
		case *ssa.Call:
			r := f.call(st, &x.Call, x, "call")
			f.set(x, r)
		case *ssa.Go:
			f.event(st, "spawn", "go", st.overall(), x)
			f.call(st, &x.Call, x, "go")
		case *ssa.Defer:
			st.defers = append(st.defers, deferred{x, true})
		case *ssa.RunDefers:
			for i := len(st.defers) - 1; i >= 0; i-- {
				d := st.defers[i]
				if d.sure {
					f.call(st, &d.site.Call, d.site, "call")
				} else {
					// registered on some paths only: whatever it releases is no longer known to be held, what it
					// may leave held stays possible
					c := st.clone()
					f.call(c, &d.site.Call, d.site, "call")
					for k, v := range st.h {
						w := c.h[k]
						st.h[k] = held{minS(v.must, w.must), maxS(v.may, w.may)}
					}
				}
			}
			st.defers = nil
		case *ssa.Send:
			if nm, ok := f.chanField(f.val(x.Chan)); ok {
				f.event(st, "send", nm, st.overall(), x)
			}
			f.escape(st, f.val(x.X))
		case *ssa.Select:
			for _, s := range x.States {
				if nm, ok := f.chanField(f.val(s.Chan)); ok {
					w := "recv"
					if s.Dir == types.SendOnly {
						w = "send"
					}
					if !x.Blocking {
						w += "NB"
					}
					f.event(st, w, nm, st.overall(), x)
				}
				if s.Send != nil {
					f.escape(st, f.val(s.Send))
				}
			}
		case *ssa.Return:
			if f.exit == nil {
				f.exit = cloneH(st.h)
			} else {
				j := joinState(&lstate{h: f.exit}, &lstate{h: st.h})
				f.exit = j.h
			}
			rs := make([]aval, len(x.Results))
			for i, r := range x.Results {
				rs[i] = f.val(r)
				if rs[i].k == aClosure && f.entry {
					f.escape(st, rs[i])
				}
			}
			if f.ret == nil {
				f.ret = rs
			} else {
				for i := range rs {
					if i < len(f.ret) {
						f.ret[i] = an.joinVal(f.ret[i], rs[i])
					}
				}
			}
		}
	}
	return st
}

func undirect(ts []taint) []taint {
	r := make([]taint, len(ts))
	for i, t := range ts {
		t.direct = false
		r[i] = t
	}
	return r
}

// derived: a value reached through the reference `src` (map value, slice element, pointee field)
func (f *frame) derived(src aval, t types.Type) aval {
	if tn := f.an.guardedOf(t); tn != "" {
		if _, ok := types.Unalias(t).Underlying().(*types.Pointer); ok {
			return aval{k: aInst, inst: f.an.unknownInst(), tname: tn}
		}
	}
	if _, ok := types.Unalias(t).Underlying().(*types.Interface); ok {
		return aval{}
	}
	if !refish(t) {
		return aval{}
	}
	return aval{k: aContent, ts: undirect(src.ts)}
}

func (f *frame) fieldAddr(st *lstate, xv ssa.Value, idx int) aval {
	an := f.an
	a := f.val(xv)
	switch a.k {
	case aInst:
		pst := an.structAt(a.tname, a.sub)
		if pst == nil || idx >= pst.NumFields() {
			return aval{}
		}
		fld := pst.Field(idx)
		ft := fld.Type()
		if isMutexNamed(ft) {
			return aval{k: aMutex, inst: a.inst}
		}
		if sub := an.flatten(ft); sub != nil {
			return aval{k: aInst, inst: a.inst, tname: a.tname, sub: join(a.sub, fld.Name())}
		}
		return aval{k: aFieldAddr, inst: a.inst, tname: a.tname, field: join(a.sub, fld.Name()), ftype: ft}
	case aContent:
		r := a
		r.ts = undirect(a.ts)
		if !a.isAddr {
			r.via = "pointee"
		}
		r.isAddr = true
		return r
	}
	return aval{}
}

func (f *frame) load(st *lstate, x *ssa.UnOp) aval {
	an := f.an
	a := f.val(x.X)
	switch a.k {
	case aFieldAddr:
		if isMutexOrPtr(a.ftype) {
			return aval{k: aMutex, inst: a.inst}
		}
		if !isSyncType(a.ftype) {
			f.access(st, a.inst, a.tname, a.field, "read", "cell", false)
		}
		if tn := an.guardedOf(x.Type()); tn != "" {
			if _, ok := types.Unalias(x.Type()).Underlying().(*types.Pointer); ok {
				return aval{k: aInst, inst: an.unknownInst(), tname: tn}
			}
		}
		switch types.Unalias(x.Type()).Underlying().(type) {
		case *types.Pointer, *types.Map, *types.Slice, *types.Chan:
			return aval{k: aContent, ts: []taint{{a.inst, a.tname, a.field, true}}}
		case *types.Struct, *types.Array:
			if refish(x.Type()) {
				return aval{k: aContent, ts: []taint{{a.inst, a.tname, a.field, false}}}
			}
		}
		return aval{}
	case aContent:
		via := "pointee"
		if a.isAddr {
			via = a.via
		}
		f.deep(st, a, "read", via, false)
		return f.derived(a, x.Type())
	case aInst:
		if pst := an.structAt(a.tname, a.sub); pst != nil {
			for _, l := range an.leaves(pst, a.sub, nil) {
				if !isSyncType(l.typ) {
					f.access(st, a.inst, a.tname, l.path, "read", "cell", false)
				}
			}
		}
		return aval{}
	case aCell:
		return a.cell.content
	}
	return aval{}
}

func (f *frame) store(st *lstate, x *ssa.Store) {
	an := f.an
	a := f.val(x.Addr)
	v := f.val(x.Val)
	switch a.k {
	case aFieldAddr:
		if !isMutexOrPtr(a.ftype) && !isSyncType(a.ftype) {
			f.access(st, a.inst, a.tname, a.field, "write", "cell", true)
		}
		if !isFresh(a.inst) {
			f.escape(st, v)
		}
	case aContent:
		via := "pointee"
		if a.isAddr {
			via = a.via
		}
		f.deep(st, a, "write", via, true)
		f.escape(st, v)
	case aInst:
		if pst := an.structAt(a.tname, a.sub); pst != nil {
			for _, l := range an.leaves(pst, a.sub, nil) {
				if !isSyncType(l.typ) {
					f.access(st, a.inst, a.tname, l.path, "write", "cell", true)
				}
			}
		}
	case aCell:
		a.cell.content = an.joinVal(a.cell.content, v)
	default:
		f.escape(st, v)
	}
}

// escape: a function value of the package leaves the analysed control flow (stored, returned from the API, handed to
// another package): it may be called at any time by anybody, so it is analysed with every lock free
func (f *frame) escape(st *lstate, v aval) {
	if v.k != aClosure || !f.emit {
		return
	}
	an := f.an
	fn := v.fn
	params := make([]aval, len(fn.Params))
	optIdx, isOpt := an.optSigs[sigKey(fn.Signature)]
	for i, p := range fn.Params {
		if tn := an.guardedOf(p.Type()); tn != "" {
			if _, ok := types.Unalias(p.Type()).Underlying().(*types.Pointer); ok {
				params[i] = aval{k: aInst, inst: an.unknownInst(), tname: tn}
				if isOpt && fn.Signature.Recv() == nil && i == optIdx {
					params[i].inst = "newopt"
				}
			}
		}
	}
	binds := make([]aval, len(v.binds))
	for i, b := range v.binds {
		binds[i] = an.publish(b, 0)
	}
	s := an.analyse(fn, params, binds, map[string]held{}, "escaped", "", true)
	f.recs.addAll(s.recs)
}

// publish: a fresh object that is handed to another goroutine (or escapes inside a closure) is shared from then on
func (an *analysis) publish(a aval, d int) aval {
	if d > 4 {
		return a
	}
	conv := func(inst string) string {
		if !isFresh(inst) {
			return inst
		}
		if an.global {
			return "*"
		}
		return "s" + strings.TrimPrefix(inst, "new")
	}
	switch a.k {
	case aInst, aFieldAddr, aMutex:
		a.inst = conv(a.inst)
	case aContent:
		ts := make([]taint, len(a.ts))
		for i, t := range a.ts {
			t.inst = conv(t.inst)
			ts[i] = t
		}
		a.ts = ts
	case aClosure:
		bs := make([]aval, len(a.binds))
		for i, b := range a.binds {
			bs[i] = an.publish(b, d+1)
		}
		a.binds = bs
	case aCell:
		a.cell = &cell{content: an.publish(a.cell.content, d+1)}
	case aTuple:
		es := make([]aval, len(a.elems))
		for i, b := range a.elems {
			es[i] = an.publish(b, d+1)
		}
		a.elems = es
	}
	return a
}

// sigKey: the parameter and result TYPES of a signature (names and receiver left out)
func sigKey(s *types.Signature) string {
	var b strings.Builder
	for i := 0; i < s.Params().Len(); i++ {
		b.WriteString(types.TypeString(s.Params().At(i).Type(), nil) + ",")
	}
	if s.Variadic() {
		b.WriteString("...")
	}
	b.WriteString("->")
	for i := 0; i < s.Results().Len(); i++ {
		b.WriteString(types.TypeString(s.Results().At(i).Type(), nil) + ",")
	}
	return b.String()
}

var mutexOps = map[string]string{
	"(*sync.Mutex).Lock": "lock", "(*sync.Mutex).Unlock": "unlock",
	"(*sync.RWMutex).Lock": "lock", "(*sync.RWMutex).Unlock": "unlock",
	"(*sync.RWMutex).RLock": "rlock", "(*sync.RWMutex).RUnlock": "runlock",
	"(*sync.Mutex).TryLock": "trylock", "(*sync.RWMutex).TryLock": "trylock", "(*sync.RWMutex).TryRLock": "trylock",
}

// functions of the standard library that take a map or slice: which arguments they write
var stdReadOnly = map[string]bool{
	"maps.Clone": true, "maps.Keys": true, "maps.Values": true, "maps.All": true, "maps.Equal": true, "maps.EqualFunc": true,
	"slices.Index": true, "slices.IndexFunc": true, "slices.Contains": true, "slices.ContainsFunc": true, "slices.Equal": true,
	"slices.EqualFunc": true, "slices.Compare": true, "slices.CompareFunc": true, "slices.BinarySearch": true,
	"slices.BinarySearchFunc": true, "slices.Max": true, "slices.MaxFunc": true, "slices.Min": true, "slices.MinFunc": true,
	"slices.Clone": true, "slices.IsSorted": true, "slices.IsSortedFunc": true, "slices.All": true, "slices.Values": true,
	"slices.Backward": true, "slices.Collect": true, "slices.Sorted": true, "slices.SortedFunc": true,
	"sort.SliceIsSorted": true, "sort.Search": true,
	"strings.Join": true,
}

// functions of the standard library whose result is a FRESH map or slice (a copy that shares nothing with the argument)
var stdFreshResult = map[string]bool{
	"maps.Clone": true, "maps.Collect": true, "slices.Clone": true, "slices.Collect": true, "slices.Sorted": true,
	"slices.SortedFunc": true, "slices.SortedStableFunc": true, "slices.Concat": true, "slices.Repeat": true,
	"slices.AppendSeq": false, "bytes.Clone": true, "strings.Clone": true,
}

// extKind: what a function of another package does with its i-th argument (a reference into guarded data)
func extKind(pkg, name string, i int) (string, bool) {
	q := pkg + "." + name
	if stdReadOnly[q] {
		return "read", false
	}
	switch pkg {
	case "maps", "slices", "sort":
		if i == 0 {
			return "write", true
		}
		return "read", false
	}
	return "use", false
}

func (f *frame) call(st *lstate, c *ssa.CallCommon, site ssa.Instruction, mode string) aval {
	an := f.an
	args := make([]aval, len(c.Args))
	for i, a := range c.Args {
		args[i] = f.val(a)
	}
	// ---- interface method call
	if c.IsInvoke() {
		if what, ok := an.cfg.callbacks[c.Method.Name()]; ok {
			f.event(st, what, c.Method.Name(), st.overall(), site)
		}
		for i, a := range args {
			f.escape(st, a)
			f.deep(st, a, "use", viaOfType(c.Args[i].Type()), false)
		}
		return aval{}
	}
	// ---- builtins
	if b, ok := c.Value.(*ssa.Builtin); ok {
		return f.builtin(st, b.Name(), c, args)
	}
	callee := c.StaticCallee()
	var binds []aval
	if callee == nil {
		if v := f.val(c.Value); v.k == aClosure {
			callee, binds = v.fn, v.binds
		}
	} else if mc, ok := c.Value.(*ssa.MakeClosure); ok {
		binds = f.val(mc).binds
	}
	if callee == nil {
		// a function value the analysis cannot resolve (a parameter of the API, an element of a slice)
		for i, a := range args {
			if a.k == aInst && isFresh(a.inst) {
				an.optSigs[sigKey(c.Value.Type().Underlying().(*types.Signature))] = i
			}
			f.escape(st, a)
			f.deep(st, a, "use", viaOfType(c.Args[i].Type()), false)
		}
		return aval{}
	}
	// ---- mutex operations
	full := ""
	if callee.Object() != nil {
		if fo, ok := callee.Object().(*types.Func); ok {
			full = fo.FullName()
		}
	}
	if op, ok := mutexOps[full]; ok && len(args) > 0 {
		m := args[0]
		if m.k != aMutex || isFresh(m.inst) {
			return aval{}
		}
		cur := st.h[m.inst]
		switch op {
		case "lock":
			f.event(st, "acquire", "Lock", cur, site)
			st.h[m.inst] = held{exclusive, exclusive}
		case "rlock":
			f.event(st, "acquireShared", "RLock", cur, site)
			st.h[m.inst] = held{maxS(cur.must, shared), maxS(cur.may, shared)}
		case "unlock", "runlock":
			st.h[m.inst] = held{free, free}
		case "trylock":
			st.h[m.inst] = held{cur.must, exclusive}
		}
		return aval{}
	}
	// ---- a function of the package: analyse it in this context
	if an.inPkg(callee) && len(callee.Blocks) > 0 {
		h := st.h
		ctx, guard := f.ctx, f.guard
		if site != nil && site.Block() != nil && f.bguard != nil {
			if bg := f.bguard[site.Block()]; bg != "" {
				guard = bg
			}
		}
		if mode == "go" {
			h = map[string]held{}
			ctx = "spawned"
			for i := range args {
				args[i] = an.publish(args[i], 0)
			}
			bs := make([]aval, len(binds))
			for i := range binds {
				bs[i] = an.publish(binds[i], 0)
			}
			binds = bs
		}
		s := an.analyse(callee, args, binds, h, ctx, guard, false)
		if f.emit {
			f.recs.addAll(s.recs)
		}
		if mode == "go" {
			return aval{}
		}
		st.h = cloneH(s.exit)
		switch len(s.ret) {
		case 0:
			return aval{}
		case 1:
			return s.ret[0]
		}
		return aval{k: aTuple, elems: s.ret}
	}
	// ---- a function of another package
	pkg, name := extPkgName(callee)
	var res aval
	for i, a := range args {
		switch a.k {
		case aClosure:
			f.escape(st, a)
		case aContent:
			kind, mut := extKind(pkg, name, i)
			f.deep(st, a, kind, viaOfType(c.Args[i].Type()), mut)
			if i == 0 && (pkg == "slices" || pkg == "maps") && !a.isAddr && !stdFreshResult[pkg+"."+name] {
				res = aval{k: aContent, ts: undirect(a.ts)}
			}
		case aFieldAddr:
			if !isSyncType(a.ftype) && !isMutexOrPtr(a.ftype) {
				f.access(st, a.inst, a.tname, a.field, "write", "cell", true)
			}
		}
	}
	if mode == "go" {
		return aval{}
	}
	if res.k == aContent && callee.Signature.Results().Len() == 1 && refish(callee.Signature.Results().At(0).Type()) {
		return res
	}
	return aval{}
}

func (f *frame) builtin(st *lstate, name string, c *ssa.CallCommon, args []aval) aval {
	get := func(i int) aval {
		if i < len(args) {
			return args[i]
		}
		return aval{}
	}
	typ := func(i int) types.Type { return c.Args[i].Type() }
	switch name {
	case "len", "cap":
		if a := get(0); a.k == aContent {
			f.deep(st, a, "read", viaOfType(typ(0)), false)
		}
	case "append":
		a := get(0)
		if a.k == aContent {
			f.deep(st, a, "write", "sliceElem", true)
		}
		if b := get(1); b.k == aContent {
			f.deep(st, b, "read", "sliceElem", false)
		}
		if a.k == aContent {
			r := a
			r.ts = undirect(a.ts)
			return r
		}
	case "copy":
		if a := get(0); a.k == aContent {
			f.deep(st, a, "write", "sliceElem", true)
		}
		if b := get(1); b.k == aContent {
			f.deep(st, b, "read", "sliceElem", false)
		}
	case "delete":
		if a := get(0); a.k == aContent {
			f.deep(st, a, "write", "mapEntry", true)
		}
	case "clear":
		if a := get(0); a.k == aContent {
			f.deep(st, a, "write", viaOfType(typ(0)), true)
		}
	}
	return aval{}
}

// ---------------------------------------------------------------------------------------------------------- driver

type targetOut struct {
	Name      string   `json:"name"`
	Pkg       string   `json:"pkg"`
	From      string   `json:"from"`
	Guarded   []string `json:"guarded"`
	Owners    []string `json:"mutex_owners"`
	Global    bool     `json:"instance_insensitive"`
	Mutable   []string `json:"mutable"`
	Immutable []string `json:"immutable"`
	Exempt    []string `json:"exempt"`
	Entries   []string `json:"entries"`
	Accesses  []Access `json:"accesses"`
	Events    []Event  `json:"events"`
	Contexts  int      `json:"contexts"`
}

func entryFuncs(p *ssa.Package) []*ssa.Function {
	var out []*ssa.Function
	seen := map[*ssa.Function]bool{}
	add := func(f *ssa.Function) {
		if f == nil || seen[f] || f.Synthetic != "" || len(f.Blocks) == 0 || !token.IsExported(f.Name()) {
			return
		}
		if f.TypeParams().Len() > 0 {
			return
		}
		seen[f] = true
		out = append(out, f)
	}
	var names []string
	for n := range p.Members {
		names = append(names, n)
	}
	sort.Strings(names)
	for _, n := range names {
		switch m := p.Members[n].(type) {
		case *ssa.Function:
			add(m)
		case *ssa.Type:
			if named, ok := m.Type().(*types.Named); ok && named.TypeParams().Len() == 0 {
				ms := p.Prog.MethodSets.MethodSet(types.NewPointer(named))
				for i := 0; i < ms.Len(); i++ {
					add(p.Prog.MethodValue(ms.At(i)))
				}
			}
		}
	}
	return out
}

// loadRepo: the SSA packages of the given import paths as they are in the working tree `repo`
func loadRepo(repo string, paths []string) (*ssa.Program, map[string]*ssa.Package, error) {
	lcfg := &packages.Config{Mode: packages.LoadAllSyntax, Dir: repo, Tests: false}
	pkgs, err := packages.Load(lcfg, paths...)
	if err != nil {
		return nil, nil, err
	}
	for _, p := range pkgs {
		if len(p.Errors) > 0 {
			return nil, nil, fmt.Errorf("%s: %v", p.PkgPath, p.Errors)
		}
	}
	prog, sps := ssautil.AllPackages(pkgs, ssa.InstantiateGenerics)
	res := map[string]*ssa.Package{}
	for i, p := range pkgs {
		if sps[i] == nil {
			return nil, nil, fmt.Errorf("no SSA package for %s", p.PkgPath)
		}
		sps[i].Build()
		res[p.PkgPath] = sps[i]
	}
	for _, q := range paths {
		if res[q] == nil {
			return nil, nil, fmt.Errorf("package %s not loaded from %s", q, repo)
		}
	}
	return prog, res, nil
}

func analyseTarget(cfg *targetCfg, repo string, prog *ssa.Program, sp *ssa.Package, dump bool) (*targetOut, error) {
	if dump {
		for _, fn := range allFuncs(sp) {
			fn.WriteTo(os.Stderr)
		}
	}
	var out *targetOut
	optSigs := map[string]int{}
	for pass := 0; pass < 2; pass++ { // pass 0 finds the option signatures, pass 1 is the analysis proper
		an := &analysis{cfg: cfg, prog: prog, pkg: sp, memo: map[string]*summary{}, optSigs: optSigs, escaped: map[string]bool{}}
		an.discover()
		all := newRecs()
		var entries []string
		for _, fn := range entryFuncs(sp) {
			params := make([]aval, len(fn.Params))
			for i, p := range fn.Params {
				if tn := an.guardedOf(p.Type()); tn != "" {
					if _, ok := types.Unalias(p.Type()).Underlying().(*types.Pointer); ok {
						params[i] = aval{k: aInst, inst: an.sharedInst(i), tname: tn}
					}
				}
			}
			s := an.analyse(fn, params, nil, map[string]held{}, "api", "", true)
			all.addAll(s.recs)
			entries = append(entries, an.fnName(fn))
		}
		if pass == 0 {
			continue
		}
		out = &targetOut{Name: cfg.name, Pkg: cfg.pkg, From: repo, Global: an.global, Entries: entries, Contexts: len(an.memo)}
		// ---- classification of the fields
		mutable := map[string]bool{}
		for a := range all.acc {
			if a.mut {
				mutable[a.Owner+"."+a.Field] = true
			}
		}
		var gnames []string
		for n := range an.guarded {
			gnames = append(gnames, n)
		}
		sort.Strings(gnames)
		for _, n := range gnames {
			out.Guarded = append(out.Guarded, n)
			if an.owners[n] {
				out.Owners = append(out.Owners, n)
			}
			for _, l := range an.leaves(an.structAt(n, ""), "", nil) {
				q := n + "." + l.path
				switch {
				case isSyncType(l.typ):
					out.Exempt = append(out.Exempt, q)
				case mutable[q]:
					out.Mutable = append(out.Mutable, q)
				default:
					out.Immutable = append(out.Immutable, q)
				}
			}
		}
		seenA := map[Access]bool{}
		for a := range all.acc {
			if !mutable[a.Owner+"."+a.Field] {
				continue
			}
			a.mut = false
			if !seenA[a] {
				seenA[a] = true
				out.Accesses = append(out.Accesses, a)
			}
		}
		sort.Slice(out.Accesses, func(i, j int) bool {
			return fmt.Sprint(out.Accesses[i]) < fmt.Sprint(out.Accesses[j])
		})
		for e := range all.ev {
			out.Events = append(out.Events, e)
		}
		sort.Slice(out.Events, func(i, j int) bool { return fmt.Sprint(out.Events[i]) < fmt.Sprint(out.Events[j]) })
	}
	return out, nil
}

func allFuncs(p *ssa.Package) []*ssa.Function {
	var out []*ssa.Function
	seen := map[*ssa.Function]bool{}
	var add func(f *ssa.Function)
	add = func(f *ssa.Function) {
		if f == nil || seen[f] {
			return
		}
		seen[f] = true
		out = append(out, f)
		for _, a := range f.AnonFuncs {
			add(a)
		}
	}
	var names []string
	for n := range p.Members {
		names = append(names, n)
	}
	sort.Strings(names)
	for _, n := range names {
		switch m := p.Members[n].(type) {
		case *ssa.Function:
			add(m)
		case *ssa.Type:
			if named, ok := m.Type().(*types.Named); ok {
				for i := 0; i < named.NumMethods(); i++ {
					add(p.Prog.FuncValue(named.Method(i)))
				}
			}
		}
	}
	return out
}

func leanStr(s string) string {
	return "\"" + strings.NewReplacer("\\", "\\\\", "\"", "\\\"").Replace(s) + "\""
}

func main() {
	if len(os.Args) < 3 {
		fmt.Fprintln(os.Stderr, "usage: lockfacts <repo dir> <out.lean> [-only t1,t2 [-ref <reference repo>]] [-bare] [-dump]")
		os.Exit(2)
	}
	repo, outPath := os.Args[1], os.Args[2]
	only := map[string]bool{}
	ref := ""
	dump := false
	bare := false // only the tables; the types come from the hand-written Model/LockDiscipline.lean
	for i := 3; i < len(os.Args); i++ {
		switch os.Args[i] {
		case "-only":
			i++
			for _, t := range strings.Split(os.Args[i], ",") {
				only[t] = true
			}
		case "-ref":
			i++
			ref = os.Args[i]
		case "-dump":
			dump = true
		case "-bare":
			bare = true
		}
	}
	var outsT []*targetOut
	fromOf := map[string]string{}
	byRepo := map[string][]string{}
	for _, cfg := range targetList {
		from := repo
		if len(only) > 0 && !only[cfg.name] {
			if ref == "" {
				continue
			}
			from = ref
		}
		fromOf[cfg.name] = from
		byRepo[from] = append(byRepo[from], cfg.pkg)
	}
	progs := map[string]*ssa.Program{}
	loaded := map[string]map[string]*ssa.Package{}
	for from, paths := range byRepo {
		prog, sps, err := loadRepo(from, paths)
		if err != nil {
			fmt.Fprintln(os.Stderr, "lockfacts:", err)
			os.Exit(1)
		}
		progs[from], loaded[from] = prog, sps
	}
	for _, cfg := range targetList {
		from, ok := fromOf[cfg.name]
		if !ok {
			continue
		}
		o, err := analyseTarget(cfg, from, progs[from], loaded[from][cfg.pkg], dump && (len(only) == 0 || only[cfg.name]))
		if err != nil {
			fmt.Fprintln(os.Stderr, "lockfacts:", err)
			os.Exit(1)
		}
		outsT = append(outsT, o)
	}
	var sb strings.Builder
	if bare {
		sb.WriteString("import Model.LockDiscipline\n\n")
	}
	sb.WriteString("/-! GENERATED by /verif/gossa/lockfacts from the typed SSA form of the working tree — do not edit.\n")
	sb.WriteString("    Regenerated on every run of `./check C12`, `C13`, `C16`, `C17` (vlib/lockfacts.py).\n\n")
	sb.WriteString("    One `Access` per (function, field of a guarded struct that the package mutates, kind, way of access, lock\n")
	sb.WriteString("    state); one `Event` per (function, callback call / channel operation on a guarded channel field / lock\n")
	sb.WriteString("    acquisition / go statement, lock state).  `must` is the weakest lock state over ALL paths to the instruction,\n")
	sb.WriteString("    `may` the strongest over SOME path (free < shared < exclusive).  See gossa/lockfacts/main.go.\n\n")
	for _, o := range outsT {
		fmt.Fprintf(&sb, "    %s (%s): guarded structs %s; mutex in %s%s\n", o.Name, strings.TrimPrefix(o.Pkg, root),
			strings.Join(o.Guarded, ", "), strings.Join(o.Owners, ", "),
			map[bool]string{true: " (one lock for all instances)", false: " (instance-sensitive)"}[o.Global])
		fmt.Fprintf(&sb, "      mutable-shared: %s\n", strings.Join(o.Mutable, ", "))
		fmt.Fprintf(&sb, "      immutable after construction: %s\n", strings.Join(o.Immutable, ", "))
		if len(o.Exempt) > 0 {
			fmt.Fprintf(&sb, "      self-synchronising (sync, sync/atomic): %s\n", strings.Join(o.Exempt, ", "))
		}
	}
	if bare {
		sb.WriteString("-/\n\nnamespace LockFacts\n\n")
	} else {
		sb.WriteString("-/\n\nnamespace LockFacts\n\n")
		sb.WriteString("inductive State where | free | shared | exclusive\nderiving DecidableEq, Repr\n\n")
		sb.WriteString("inductive Kind where | read | write | use\nderiving DecidableEq, Repr\n\n")
		sb.WriteString("inductive Via where | cell | mapEntry | sliceElem | pointee\nderiving DecidableEq, Repr\n\n")
		sb.WriteString("inductive Ctx where | api | spawned | escaped\nderiving DecidableEq, Repr\n\n")
		sb.WriteString("inductive What where | callback | sinkWrite | send | sendNB | recv | recvNB | acquire | acquireShared | spawn\nderiving DecidableEq, Repr\n\n")
		sb.WriteString("inductive Guard where | none | chanNil | chanSet\nderiving DecidableEq, Repr\n\n")
		sb.WriteString("structure Access where\n  fn : String\n  owner : String\n  field : String\n  kind : Kind\n  via : Via\n  must : State\n  may : State\n  ctx : Ctx\nderiving Repr\n\n")
		sb.WriteString("structure Event where\n  fn : String\n  what : What\n  name : String\n  must : State\n  may : State\n  ctx : Ctx\n  guard : Guard\nderiving Repr\n\n")
	}
	for _, o := range outsT {
		fmt.Fprintf(&sb, "/-- `%s`: accesses to mutable shared state -/\ndef %s : List Access := [", strings.TrimPrefix(o.Pkg, root), o.Name)
		for i, a := range o.Accesses {
			if i > 0 {
				sb.WriteString(",")
			}
			fmt.Fprintf(&sb, "\n  ⟨%s, %s, %s, .%s, .%s, .%s, .%s, .%s⟩", leanStr(a.Fn), leanStr(a.Owner), leanStr(a.Field), a.Kind, a.Via, a.Must, a.May, a.Ctx)
		}
		sb.WriteString("]\n\n")
		fmt.Fprintf(&sb, "/-- `%s`: callbacks, channel operations, acquisitions, go statements -/\ndef %sEvents : List Event := [", strings.TrimPrefix(o.Pkg, root), o.Name)
		for i, e := range o.Events {
			if i > 0 {
				sb.WriteString(",")
			}
			fmt.Fprintf(&sb, "\n  ⟨%s, .%s, %s, .%s, .%s, .%s, .%s⟩", leanStr(e.Fn), e.What, leanStr(e.Name), e.Must, e.May, e.Ctx, e.Guard)
		}
		sb.WriteString("]\n\n")
	}
	sb.WriteString("end LockFacts\n")
	if err := os.WriteFile(outPath, []byte(sb.String()), 0o644); err != nil {
		fmt.Fprintln(os.Stderr, err)
		os.Exit(1)
	}
	js, _ := json.Marshal(map[string]any{"targets": outsT})
	fmt.Println(string(js))
}
