// ssagen — translate the straight-line part of package xmath/num (as it is in the given working tree) into Lean 4.
//
//	ssagen <repo dir> <out.lean>
//
// The package is loaded from <repo dir> (go/packages, Dir = repo), SSA is built (golang.org/x/tools/go/ssa) and every
// function or method whose body lies in the fragment below is translated into a Lean definition in namespace `Gen`.
// A function is selected by its SHAPE, not by its name:
//
//   - the control-flow graph is loop free (a DAG of basic blocks ending in If / Jump / Return); Phi nodes are resolved
//     by following each path separately (join blocks are duplicated), so a branch becomes `if … then … else …`;
//   - values are Go integers of any width (`BitVec w`; int, uint, int64, uint64 are all `BitVec 64` and keep their
//     wrap-around arithmetic — signedness only selects the operation), `bool` (`Bool`) and the structs Uint128 / Int128
//     (the model's records `U128` / `I128`, fields hi lo);
//   - instructions: BinOp, UnOp, comparisons, integer conversions, field reads, composite literals and field updates of
//     a non-escaping local struct, struct conversion, reads of package-level variables that are initialised with a
//     constant literal and never written in the package, calls to math/bits (Add64 Sub64 Mul64 Len64 LeadingZeros64
//     TrailingZeros64 OnesCount64 — translated to the contract definitions of lean/Model/U128.lean, which are imported,
//     not redefined) and calls to other translated functions of the package.
//
// Everything else (loops, panics, division by a non-constant, strings, floats, big.Int, interfaces, pointers that
// escape …) puts the function outside the fragment; it is listed with the reason in the header of the generated file.
// The output depends only on the source text of the package: functions are emitted in dependency order, ties broken by
// name, and the only SSA register names that appear are `let`-bound locals.
package main

import (
	"encoding/json"
	"fmt"
	"go/ast"
	"go/constant"
	"go/token"
	"go/types"
	"math/big"
	"os"
	"path/filepath"
	"regexp"
	"sort"
	"strings"

	"golang.org/x/tools/go/packages"
	"golang.org/x/tools/go/ssa"
	"golang.org/x/tools/go/ssa/ssautil"
)

const pkgPath = "github.com/richardwilkes/toolbox/xmath/num"

// target: what one run translates.
//
//	num (default)  package xmath/num: the 128-bit integers of property C01
//	f64            packages xmath/fixed (the configurations D1..D16) and xmath/fixed/f64 (property C03); the functions
//	               of f64 are generic over `T fixed.Dx`: the generic body is translated once, and the type parameter
//	               becomes a dictionary — one Lean parameter per method of the constraint (`T_Multiplier`, `T_Places`),
//	               which stands for the value of that method on the zero value of T (the only way the package calls it)
type target struct {
	name     string
	pkgs     []string          // import paths, in the order their functions are emitted
	prefix   map[string]string // import path -> prefix of the Lean names
	display  map[string]string // import path -> prefix of the names in the listing
	bits     bool              // math/bits calls are available (contract definitions of Model/U128.lean)
	allowDiv bool              // integer division by a non-constant is translated (total: BitVec.sdiv / srem / udiv / umod)
	imports  []string
	what     string
	check    string   // the check that regenerates the file
	aux      []string // packages whose functions are only referenced: a function of such a package that is in
	// the fragment is the definition of ITS generated file (imported), one outside the fragment is taken by the
	// hand-written model (modelCalls)
	structs map[string]string // "importpath.Name" of a struct type without a model counterpart -> Lean structure to declare
	base    string            // another target of the same package whose generated file is imported: only the functions it
	// does not translate are emitted
	props string // the tie module (relative to lean/): a translated function without a `when_translated Gen.X in`
	// guard there, and that no guarded function calls, is written to <out>_untied.lean, which no property imports
	only string // translate only the functions of this source file
	ext  bool   // extended fragment: loops (loops.go), strings, word slices, run-time panics as `none`
}

// rules of the package a function belongs to (an auxiliary package keeps the rules of its own target)
func pkgBits(p *ssa.Package) bool { return p != nil && p.Pkg.Path() == pkgPath }
func pkgAllowDiv(p *ssa.Package) bool {
	return p != nil && p.Pkg.Path() != pkgPath
}

// functions of xmath/num outside the translated fragment that other targets may call: the total form of the
// hand-written model function (Lemmas/GenNumModel.lean), whose specification is proved under C01
var modelCalls = map[string]struct{ lean, partial string }{
	"Int128.Div":    {"GenNum.Int128_Div", "panics when the divisor is zero"},
	"Int128.Mod":    {"GenNum.Int128_Mod", "panics when the divisor is zero"},
	"Int128.DivMod": {"GenNum.Int128_DivMod", "panics when the divisor is zero"},
}

const fixedPath = "github.com/richardwilkes/toolbox/xmath/fixed"
const f64Path = "github.com/richardwilkes/toolbox/xmath/fixed/f64"
const f128Path = "github.com/richardwilkes/toolbox/xmath/fixed/f128"
const geomPath = "github.com/richardwilkes/toolbox/xmath/geom"
const txtPath = "github.com/richardwilkes/toolbox/txt"
const xmathPath = "github.com/richardwilkes/toolbox/xmath"

// need: the type-class instances on the abstract coordinate type α that the function being translated uses
var needHook = func(string) {}

var needOrder = []string{"Add", "Sub", "Mul", "Div", "Neg", "LE", "LT", "Max", "Min", "DecidableLE", "DecidableLT", "DecidableEq"}

// isNumTP: a type parameter whose constraint is a type set without methods (xmath.Numeric, constraints.Float …).  Its
// values are translated over an abstract Lean type α with the exact operations `+ - * /`, the order and `max` / `min`
// (machine overflow and float rounding are outside the theorems that use these definitions).
func isNumTP(t types.Type) bool {
	tp, ok := types.Unalias(t).(*types.TypeParam)
	if !ok || cur.name != "geom" {
		return false
	}
	iface, isI := tp.Constraint().Underlying().(*types.Interface)
	return isI && iface.NumMethods() == 0 && !iface.IsMethodSet()
}

var targets = map[string]*target{
	"num": {name: "num", pkgs: []string{pkgPath}, prefix: map[string]string{pkgPath: ""}, display: map[string]string{pkgPath: ""},
		bits: true, imports: []string{"Model.U128", "Model.I128", "Lemmas.GenAttr"}, what: "package xmath/num", check: "C01"},
	"f64": {name: "f64", pkgs: []string{fixedPath, f64Path}, prefix: map[string]string{fixedPath: "Fixed_", f64Path: "F64_"},
		display: map[string]string{fixedPath: "fixed.", f64Path: "f64."}, allowDiv: true,
		imports: []string{"Lemmas.GenAttr"}, what: "packages xmath/fixed and xmath/fixed/f64", check: "C03"},
	"f128": {name: "f128", pkgs: []string{f128Path}, prefix: map[string]string{f128Path: "F128_", pkgPath: ""},
		display: map[string]string{f128Path: "f128.", pkgPath: "num."}, allowDiv: true, aux: []string{pkgPath},
		structs: map[string]string{f128Path + ".Int": "F128_Int"},
		imports: []string{"Generated.SSA_Num", "Lemmas.GenNumModel"}, what: "package xmath/fixed/f128", check: "C03"},
	"geom": {name: "geom", pkgs: []string{geomPath}, prefix: map[string]string{geomPath: "Geom_"},
		display: map[string]string{geomPath: "geom."},
		structs: map[string]string{geomPath + ".Point": "Geom_Point", geomPath + ".Size": "Geom_Size", geomPath + ".Rect": "Geom_Rect",
			geomPath + ".Insets": "Geom_Insets", geomPath + ".Matrix": "Geom_Matrix"},
		imports: []string{"Lemmas.GenAttr"}, what: "package xmath/geom", check: "C18"},
	"txt": {name: "txt", pkgs: []string{txtPath}, prefix: map[string]string{txtPath: ""}, display: map[string]string{txtPath: ""},
		ext: true, imports: []string{"Lemmas.GenAttr", "Lemmas.GenLoop"}, what: "package txt", check: "C20", props: "Props/C20Gen.lean"},
	"bitset": {name: "bitset", pkgs: []string{xmathPath}, prefix: map[string]string{xmathPath: ""}, display: map[string]string{xmathPath: ""},
		ext: true, imports: []string{"Lemmas.GenAttr", "Lemmas.GenLoop"}, what: "package xmath (bitset.go)", check: "C08", props: "Props/C08Gen.lean",
		structs: map[string]string{xmathPath + ".BitSet": "BitSet_"}, only: "bitset.go"},
	"numloops": {name: "numloops", pkgs: []string{pkgPath}, prefix: map[string]string{pkgPath: ""}, display: map[string]string{pkgPath: ""},
		bits: true, ext: true, base: "num", imports: []string{"Generated.SSA_Num", "Lemmas.GenLoop"}, what: "package xmath/num (the functions with loops and divisions)", check: "C01", props: "Props/C01GenLoops.lean"},
}

var cur = targets["num"]

// Go struct type name -> Lean structure of the hand-written model (same fields, same order)
var structMap = map[string]string{"Uint128": "U128", "Int128": "I128"}

// math/bits function -> (Lean contract definition, result is a Go int that the contract states as a Nat)
var bitsMap = map[string]struct {
	lean  string
	isNat bool
}{
	"Add64":           {"U128.add64", false},
	"Sub64":           {"U128.sub64", false},
	"Mul64":           {"U128.mul64", false},
	"Len64":           {"U128.len64", true},
	"LeadingZeros64":  {"U128.clz", true},
	"TrailingZeros64": {"U128.ctz", true},
	"OnesCount64":     {"U128.popcount", true},
}

const maxPaths = 512

type unsupported struct{ why string }

func fail(format string, a ...any) { panic(unsupported{fmt.Sprintf(format, a...)}) }

// ---------------------------------------------------------------------------------------------------------- values

type kind int

const (
	kInt kind = iota
	kBool
	kStruct
	kTuple
	kPtr
	kTPZero // the zero value of a type parameter (only method calls through the dictionary are possible)
	kStr    // a Go string: `Gen.Str` = List (BitVec 8)
	kSlice  // a []uint64: `Gen.Words` = List (BitVec 64)
	kRefF   // the address of a field of a record that is only read (fields[0] the value)
	kElem   // the address of an element of a slice value (fields[0] the slice, fields[1] the index)
)

// val is the symbolic value of an SSA register on one path.
type val struct {
	k      kind
	e      string   // Lean term (kInt: BitVec; kBool: Bool; kStruct: the whole record, may be ""; kTuple: the product, may be "")
	atom   bool     // e needs no parentheses
	prop   string   // kBool: the same condition as a Prop (may be "")
	cst    *big.Int // kInt: the mathematical value of a constant
	fields []val    // kStruct: one value per field; kTuple: one value per component
	lean   string   // kStruct: Lean structure name
	// kPtr
	alloc *ssa.Alloc
	fidx  int   // -1: the whole object
	sub   []int // further field indexes below fidx (a field of an embedded struct)
	// kTPZero
	tp *types.TypeParam
	// kInt: a value of the abstract numeric type α (not a machine word)
	num bool
	// the term is an `Option` (a partial operation, a loop, a call of a function with loops): bound with `.bind`
	opt bool
	// kStruct: the value stands for a POINTER to the record (a receiver that is only read)
	ref bool
}

func par(v val) string {
	if v.atom {
		return v.e
	}
	return "(" + v.e + ")"
}

func intInfo(t types.Type) (width int, signed bool, ok bool) {
	b, isB := t.Underlying().(*types.Basic)
	if !isB {
		return 0, false, false
	}
	switch b.Kind() {
	case types.Int8:
		return 8, true, true
	case types.Int16:
		return 16, true, true
	case types.Int32:
		return 32, true, true
	case types.Int64, types.Int:
		return 64, true, true
	case types.Uint8:
		return 8, false, true
	case types.Uint16:
		return 16, false, true
	case types.Uint32:
		return 32, false, true
	case types.Uint64, types.Uint, types.Uintptr:
		return 64, false, true
	}
	return 0, false, false
}

func isBool(t types.Type) bool {
	b, ok := t.Underlying().(*types.Basic)
	return ok && b.Info()&types.IsBoolean != 0
}

// structInfo: a named struct type that has a Lean counterpart — Uint128 / Int128 of xmath/num (the records of the
// model), or a struct of the target for which the generated file declares a structure (cur.structs); a field is an
// integer or again such a struct
func structInfo(t types.Type) (lean string, st *types.Struct, ok bool) {
	n, isN := types.Unalias(t).(*types.Named)
	if !isN || n.Obj().Pkg() == nil {
		return "", nil, false
	}
	var l string
	if n.Obj().Pkg().Path() == pkgPath {
		l = structMap[n.Obj().Name()]
	} else if cur.structs != nil {
		l = cur.structs[n.Obj().Pkg().Path()+"."+n.Obj().Name()]
	}
	s, isS := n.Underlying().(*types.Struct)
	if l == "" || !isS {
		return "", nil, false
	}
	generic := false
	for i := 0; i < s.NumFields(); i++ {
		ft := s.Field(i).Type()
		if isNumTP(ft) {
			generic = true
			continue
		}
		if _, _, isI := intInfo(ft); isI {
			continue
		}
		if isWords(ft) || isStr(ft) {
			continue
		}
		if fl, _, isSt := structInfo(ft); isSt {
			if strings.HasSuffix(fl, " α") {
				generic = true
			}
			continue
		}
		return "", nil, false
	}
	if generic {
		l += " α"
	}
	return l, s, true
}

func isStr(t types.Type) bool {
	b, ok := t.Underlying().(*types.Basic)
	return ok && b.Info()&types.IsString != 0 && cur.ext
}

func isWords(t types.Type) bool {
	s, ok := t.Underlying().(*types.Slice)
	if !ok || !cur.ext {
		return false
	}
	b, isB := s.Elem().Underlying().(*types.Basic)
	return isB && b.Kind() == types.Uint64
}

// refStruct: a pointer to a struct of the fragment (a method receiver that is only read: passed as the record)
func refStruct(t types.Type) (types.Type, bool) {
	p, ok := types.Unalias(t).Underlying().(*types.Pointer)
	if !ok || !cur.ext {
		return nil, false
	}
	if _, _, isS := structInfo(p.Elem()); isS {
		return p.Elem(), true
	}
	return nil, false
}

func leanType(t types.Type) string {
	if w, _, ok := intInfo(t); ok {
		return fmt.Sprintf("BitVec %d", w)
	}
	if isStr(t) {
		return "Gen.Str"
	}
	if isWords(t) {
		return "Gen.Words"
	}
	if el, ok := refStruct(t); ok {
		return leanType(el)
	}
	if isBool(t) {
		return "Bool"
	}
	if l, _, ok := structInfo(t); ok {
		return l
	}
	if tup, ok := t.(*types.Tuple); ok && tup.Len() >= 2 {
		parts := make([]string, tup.Len())
		for i := range parts {
			parts[i] = leanType(tup.At(i).Type())
		}
		return strings.Join(parts, " × ")
	}
	if isNumTP(t) {
		return "α"
	}
	if tp, ok := types.Unalias(t).(*types.TypeParam); ok {
		fail("value of the type parameter %s (its operations depend on the instantiation)", tp.Obj().Name())
	}
	fail("type %s", types.TypeString(t, func(p *types.Package) string { return p.Name() }))
	return ""
}

func lit(x *big.Int, width int) val {
	m := new(big.Int).Lsh(big.NewInt(1), uint(width))
	r := new(big.Int).Mod(x, m)
	return val{k: kInt, e: fmt.Sprintf("%s#%d", r.String(), width), atom: true, cst: new(big.Int).Set(x)}
}

func numLit(x *big.Int) val {
	// the OfNat instances are collected from the literals that survive into the emitted body (run)
	if x.Sign() < 0 {
		needHook("Neg")
		return val{k: kInt, num: true, e: "-(" + new(big.Int).Neg(x).String() + " : α)"}
	}
	return val{k: kInt, num: true, e: "(" + x.String() + " : α)", atom: true}
}

func zeroOf(t types.Type) val {
	if isNumTP(t) {
		return numLit(big.NewInt(0))
	}
	if w, _, ok := intInfo(t); ok {
		return lit(big.NewInt(0), w)
	}
	if isBool(t) {
		return val{k: kBool, e: "false", atom: true}
	}
	if isStr(t) || isWords(t) {
		k := kStr
		if isWords(t) {
			k = kSlice
		}
		return val{k: k, e: "[]", atom: true}
	}
	if l, st, ok := structInfo(t); ok {
		v := val{k: kStruct, lean: l}
		for i := 0; i < st.NumFields(); i++ {
			v.fields = append(v.fields, zeroOf(st.Field(i).Type()))
		}
		return v
	}
	fail("type %s", t.String())
	return val{}
}

// whole returns the Lean term of a struct value as a record of type v.lean
func whole(v val) (string, bool) {
	if v.e != "" {
		return v.e, v.atom
	}
	parts := make([]string, len(v.fields))
	for i, f := range v.fields {
		parts[i] = valText(f)
	}
	return "(⟨" + strings.Join(parts, ", ") + "⟩ : " + v.lean + ")", true
}

// leanFields: the struct fields are addressed POSITIONALLY.  The i-th field of a Go struct is the i-th field of the Lean
// record, under the fixed name the tie is stated against: the names of the model's records for Uint128 / Int128, the
// names below for a private field of a generated structure, the Go name for an exported field (exported names are
// API).  Renaming a private field in the Go source changes nothing in the generated text.
var leanFields = map[string][]string{
	pkgPath + ".Uint128": {"hi", "lo"},
	pkgPath + ".Int128":  {"hi", "lo"},
	f128Path + ".Int":    {"data"},
}

func leanFieldName(t types.Type, i int) string {
	n, _ := types.Unalias(t).(*types.Named)
	st := t.Underlying().(*types.Struct)
	if n != nil && n.Obj().Pkg() != nil {
		if fs, ok := leanFields[n.Obj().Pkg().Path()+"."+n.Obj().Name()]; ok && i < len(fs) {
			return fs[i]
		}
	}
	if st.Field(i).Exported() {
		return ident(st.Field(i).Name())
	}
	return fmt.Sprintf("f%d", i)
}

// namedStruct makes the value of a Lean variable / let-bound name of a struct type
func namedStruct(name string, t types.Type) val {
	l, st, _ := structInfo(t)
	v := val{k: kStruct, e: name, atom: true, lean: l}
	for i := 0; i < st.NumFields(); i++ {
		fn := name + "." + leanFieldName(t, i)
		if _, _, isSt := structInfo(st.Field(i).Type()); isSt {
			v.fields = append(v.fields, namedStruct(fn, st.Field(i).Type()))
		} else if isWords(st.Field(i).Type()) || isStr(st.Field(i).Type()) {
			v.fields = append(v.fields, namedOfType(fn, st.Field(i).Type()))
		} else {
			v.fields = append(v.fields, val{k: kInt, e: fn, atom: true, num: isNumTP(st.Field(i).Type())})
		}
	}
	return v
}

func tupleProj(i, n int) string {
	// right-nested products: (a, b, c) = (a, (b, c))
	s := ""
	for j := 0; j < i; j++ {
		s += ".2"
	}
	if i < n-1 {
		s += ".1"
	}
	return s
}

func namedOfType(name string, t types.Type) val {
	switch {
	case isBool(t):
		return val{k: kBool, e: name, atom: true}
	case isStr(t):
		return val{k: kStr, e: name, atom: true}
	case isWords(t):
		return val{k: kSlice, e: name, atom: true}
	default:
		if el, ok := refStruct(t); ok {
			v := namedStruct(name, el)
			v.ref = true
			return v
		}
		if isNumTP(t) {
			return val{k: kInt, num: true, e: name, atom: true}
		}
		if _, _, ok := intInfo(t); ok {
			return val{k: kInt, e: name, atom: true}
		}
		if _, _, ok := structInfo(t); ok {
			return namedStruct(name, t)
		}
		if tup, ok := t.(*types.Tuple); ok {
			v := val{k: kTuple, e: name, atom: true}
			for i := 0; i < tup.Len(); i++ {
				v.fields = append(v.fields, namedOfType(name+tupleProj(i, tup.Len()), tup.At(i).Type()))
			}
			return v
		}
	}
	fail("type %s", t.String())
	return val{}
}

// ---------------------------------------------------------------------------------------------------------- generator

type global struct {
	name string
	def  string
}

type gen struct {
	prog       *ssa.Program
	pkg        *ssa.Package // the package being collected / the package of the function being translated
	pkgs       map[*ssa.Package]*packages.Package
	partial    map[*ssa.Function]string // translated, but the Go function panics on some inputs (why)
	need       map[*ssa.Function]map[string]bool
	aux        map[*ssa.Package]bool // auxiliary packages (referenced, not emitted)
	modelTaken map[string]string     // functions of auxiliary packages taken by the hand-written model
	tpkg       *packages.Package
	fns        []*ssa.Function
	names      map[*ssa.Function]string // display name: Uint128.Add
	lname      map[*ssa.Function]string // Lean name: Uint128_Add
	state      map[*ssa.Function]int    // 0 unknown, 1 in progress, 2 translated, 3 skipped
	reason     map[*ssa.Function]string
	text       map[*ssa.Function]string
	order      []*ssa.Function
	globals    map[*ssa.Global]*global
	gorder     []*ssa.Global
	gbad       map[*ssa.Global]string
	callees    map[*ssa.Function][]*ssa.Function
	tables     map[*ssa.Global]*table
	fueledFn   map[*ssa.Function]bool
	monadicFn  map[*ssa.Function]bool
}

var leanReserved = map[string]bool{"from": true, "at": true, "end": true, "fun": true, "let": true, "in": true, "do": true,
	"if": true, "then": true, "else": true, "have": true, "show": true, "by": true, "with": true, "match": true, "open": true,
	"def": true, "theorem": true, "where": true, "instance": true, "structure": true, "class": true, "namespace": true,
	"section": true, "variable": true, "universe": true, "import": true, "Type": true, "Prop": true, "Sort": true,
	"return": true, "for": true, "unless": true, "mut": true, "try": true, "catch": true, "finally": true, "deriving": true,
	"extends": true, "private": true, "protected": true, "local": true, "global": true, "prefix": true, "infix": true,
	"notation": true, "macro": true, "syntax": true, "example": true, "abbrev": true, "inductive": true, "mutual": true,
	"nomatch": true, "nofun": true, "using": true, "calc": true, "suffices": true, "obtain": true, "exact": true, "this": true}

func ident(s string) string {
	if s == "" || s == "_" {
		return "x_"
	}
	if leanReserved[s] || (len(s) > 1 && s[0] == 't' && strings.Trim(s[1:], "0123456789") == "") {
		return s + "_"
	}
	return s
}

func (g *gen) collect(sp *ssa.Package) {
	pre := cur.prefix[sp.Pkg.Path()]
	dis := cur.display[sp.Pkg.Path()]
	var found []*ssa.Function
	add := func(f *ssa.Function, disp, lean string) {
		if f == nil || f.Synthetic != "" || f.Blocks == nil {
			return
		}
		if cur.only != "" && filepath.Base(g.prog.Fset.Position(f.Pos()).Filename) != cur.only && !g.aux[sp] {
			return
		}
		found = append(found, f)
		g.names[f] = dis + disp
		g.lname[f] = pre + lean
	}
	var mnames []string
	for n := range sp.Members {
		mnames = append(mnames, n)
	}
	sort.Strings(mnames)
	for _, n := range mnames {
		switch m := sp.Members[n].(type) {
		case *ssa.Function:
			if m.Name() == "init" {
				continue
			}
			add(m, m.Name(), m.Name())
		case *ssa.Type:
			named, ok := m.Type().(*types.Named)
			if !ok {
				continue
			}
			for i := 0; i < named.NumMethods(); i++ {
				meth := named.Method(i)
				f := g.prog.FuncValue(meth)
				add(f, named.Obj().Name()+"."+meth.Name(), named.Obj().Name()+"_"+meth.Name())
			}
		}
	}
	sort.Slice(found, func(i, j int) bool { return g.names[found[i]] < g.names[found[j]] })
	g.fns = append(g.fns, found...)
}

func (g *gen) translate(f *ssa.Function) (ok bool) {
	switch g.state[f] {
	case 1:
		return false // recursion: reported by the caller
	case 2:
		return true
	case 3:
		return false
	}
	g.state[f] = 1
	defer func() {
		if r := recover(); r != nil {
			u, isU := r.(unsupported)
			if !isU {
				panic(r)
			}
			g.state[f] = 3
			g.reason[f] = u.why
			ok = false
		}
	}()
	t := &fnTrans{g: g, f: f}
	g.text[f] = t.run()
	g.state[f] = 2
	g.order = append(g.order, f)
	if len(t.partial) > 0 {
		g.partial[f] = strings.Join(t.partial, "; ")
	}
	return true
}

// ---------------------------------------------------------------------------------------------------------- one function

type fnTrans struct {
	g        *gen
	f        *ssa.Function
	paths    int
	ipdom    map[*ssa.BasicBlock]*ssa.BasicBlock
	dict     map[*types.TypeParam]map[string]val // the methods of the constraint of each type parameter
	partial  []string
	abstract int             // number of abstract numeric type parameters (0 or 1)
	need     map[string]bool // instances on α
	// extended fragment (loops.go)
	loops   map[*ssa.BasicBlock]*loopInfo
	inner   map[*ssa.BasicBlock]*loopInfo
	rg      *region
	monadic bool // the result is an `Option`
	fueled  bool // the definition takes `fuel`
	selfRec bool
	guards  []string // conditions under which the instruction being translated does not panic
	defs    []string // the loop functions, in the order they are completed
	resT    string
}

// dictionary builds the Lean parameters that stand for the type parameters of f
func (t *fnTrans) dictionary() []string {
	t.dict = map[*types.TypeParam]map[string]val{}
	var params []string
	tps := t.f.TypeParams()
	for k := 0; k < tps.Len(); k++ {
		tp := tps.At(k)
		if isNumTP(tp) {
			t.abstract++
			if t.abstract > 1 {
				fail("two numeric type parameters (a conversion between coordinate types)")
			}
			continue
		}
		iface, ok := tp.Constraint().Underlying().(*types.Interface)
		if !ok {
			fail("type parameter %s without an interface constraint", tp.Obj().Name())
		}
		entries := map[string]val{}
		var names []string
		for m := 0; m < iface.NumMethods(); m++ {
			names = append(names, iface.Method(m).Name())
		}
		sort.Strings(names)
		for _, mn := range names {
			var meth *types.Func
			for m := 0; m < iface.NumMethods(); m++ {
				if iface.Method(m).Name() == mn {
					meth = iface.Method(m)
				}
			}
			sig := meth.Type().(*types.Signature)
			if sig.Params().Len() != 0 || sig.Results().Len() != 1 {
				fail("constraint method %s.%s is not a nullary function with one result", tp.Obj().Name(), mn)
			}
			pn := tp.Obj().Name() + "_" + mn
			params = append(params, fmt.Sprintf("(%s : %s)", pn, leanType(sig.Results().At(0).Type())))
			entries[mn] = namedOfType(pn, sig.Results().At(0).Type())
		}
		t.dict[tp] = entries
	}
	return params
}

// dictArgs: the dictionary a generic callee receives when it is instantiated at the type arguments targs
func (t *fnTrans) dictArgs(callee *ssa.Function, targs []types.Type) []string {
	tps := callee.TypeParams()
	if tps.Len() != len(targs) {
		fail("call of the generic %s with an unexpected number of type arguments", callee.Name())
	}
	var out []string
	for k := 0; k < tps.Len(); k++ {
		iface, ok := tps.At(k).Constraint().Underlying().(*types.Interface)
		if !ok {
			fail("type parameter without an interface constraint in %s", callee.Name())
		}
		var names []string
		for m := 0; m < iface.NumMethods(); m++ {
			names = append(names, iface.Method(m).Name())
		}
		if len(names) == 0 {
			continue
		}
		sort.Strings(names)
		atp, isTP := types.Unalias(targs[k]).(*types.TypeParam)
		if !isTP || t.dict[atp] == nil {
			fail("generic call of %s at a type that is not a type parameter of the caller", callee.Name())
		}
		for _, mn := range names {
			v, has := t.dict[atp][mn]
			if !has {
				fail("type parameter %s has no method %s", atp.Obj().Name(), mn)
			}
			out = append(out, v.e)
		}
	}
	return out
}

type env struct {
	vals map[ssa.Value]val
	mem  map[*ssa.Alloc]val
}

func (e *env) clone() *env {
	n := &env{vals: make(map[ssa.Value]val, len(e.vals)), mem: make(map[*ssa.Alloc]val, len(e.mem))}
	for k, v := range e.vals {
		n.vals[k] = v
	}
	for k, v := range e.mem {
		// field slices are replaced, never mutated in place, so a shallow copy is enough
		n.mem[k] = v
	}
	return n
}

func (t *fnTrans) checkDAG() {
	color := map[*ssa.BasicBlock]int{}
	var dfs func(b *ssa.BasicBlock)
	dfs = func(b *ssa.BasicBlock) {
		color[b] = 1
		for _, s := range b.Succs {
			switch color[s] {
			case 1:
				fail("loop (the control-flow graph has a back edge)")
			case 0:
				dfs(s)
			}
		}
		color[b] = 2
	}
	dfs(t.f.Blocks[0])
}

func (t *fnTrans) run() string {
	f := t.f
	if f.Recover != nil {
		fail("defer/recover")
	}
	sig := f.Signature
	if sig.Variadic() {
		fail("variadic")
	}
	if sig.Results().Len() == 0 && !cur.ext {
		fail("no result (effect only)")
	}
	var resT string
	if sig.Results().Len() == 0 {
		resT = "Unit" // a check that may end the process (translated only when it turns out to be partial, see below)
	} else if sig.Results().Len() == 1 {
		resT = leanType(sig.Results().At(0).Type())
	} else {
		resT = leanType(sig.Results())
	}
	t.resT = resT
	e := &env{vals: map[ssa.Value]val{}, mem: map[*ssa.Alloc]val{}}
	t.need = map[string]bool{}
	saved := needHook
	needHook = func(k string) { t.need[k] = true }
	defer func() { needHook = saved }()
	params := t.dictionary()
	used := map[string]bool{}
	if cur.ext {
		used["fuel"] = true
	}
	for _, p := range params {
		used[strings.TrimPrefix(strings.Fields(p)[0], "(")] = true
	}
	for _, p := range f.Params {
		lt := leanType(p.Type())
		n := ident(p.Name())
		for used[n] {
			n += "'"
		}
		used[n] = true
		params = append(params, fmt.Sprintf("(%s : %s)", n, lt))
		e.vals[p] = namedOfType(n, p.Type())
	}
	if len(f.FreeVars) > 0 {
		fail("closure")
	}
	if cur.ext {
		t.analyzeLoops()
	} else {
		t.checkDAG()
	}
	if !cur.ext {
		for _, b := range f.Blocks {
			for _, ins := range b.Instrs {
				if _, isPanic := ins.(*ssa.Panic); isPanic {
					fail("panic")
				}
			}
		}
	}
	if len(t.loops) > 0 {
		t.rg = &region{}
		t.regionPostDominators(t.rg, f.Blocks[0])
	} else {
		t.postDominators()
		t.rg = &region{ipdom: t.ipdom}
	}
	root := t.walk(f.Blocks[0], -1, e, nil, false)
	if sig.Results().Len() == 0 && !t.monadic {
		fail("no result (effect only)")
	}
	if t.monadic {
		wrapRets(root)
		resT = "Option (" + resT + ")"
	}
	depth := 1
	if t.selfRec {
		depth = 2
	}
	body := tidy(render(root, depth))
	if t.selfRec {
		body = "  match fuel with\n  | 0 => none\n  | fuel + 1 =>\n" + body
	}
	if t.fueled {
		params = append(params, "(fuel : Nat)")
		t.g.fueledFn[f] = true
	}
	if t.monadic {
		t.g.monadicFn[f] = true
	}
	if t.abstract > 0 {
		// the abstract coordinate type and the instances the body (and its callees) use
		for _, m := range regexp.MustCompile(`\((\d+) : α\)`).FindAllStringSubmatch(body, -1) {
			t.need["OfNat "+m[1]] = true
		}
		binders := []string{"{α : Type}"}
		for _, k := range needOrder {
			if t.need[k] {
				binders = append(binders, "["+k+" α]")
			}
		}
		var lits []string
		for k := range t.need {
			if strings.HasPrefix(k, "OfNat ") {
				lits = append(lits, strings.TrimPrefix(k, "OfNat "))
			}
		}
		sort.Slice(lits, func(a, b int) bool {
			if len(lits[a]) != len(lits[b]) {
				return len(lits[a]) < len(lits[b])
			}
			return lits[a] < lits[b]
		})
		for _, l := range lits {
			binders = append(binders, "[OfNat α "+l+"]")
		}
		params = append(binders, params...)
		t.g.need[f] = t.need
	}
	attr := "gen_def"
	if len(cur.aux) > 0 {
		attr = "gen_def, gen_local" // see Lemmas/GenAttr.lean
	}
	if t.monadic {
		attr = "gen_part" // partial (fuel / panics): unfolded by hand in the tie proofs
	}
	return strings.Join(t.defs, "\n") + sep(t.defs) + fmt.Sprintf("/-- `%s` (%s) -/\n@[%s] def %s %s : %s :=\n%s\n", t.g.names[f],
		filepath.Base(t.g.prog.Fset.Position(f.Pos()).Filename), attr, t.g.lname[f], strings.Join(params, " "), resT, body)
}

func sep(defs []string) string {
	if len(defs) > 0 {
		return "\n"
	}
	return ""
}

// wrapRets: the function turned out to be partial, its returns are `some …`
func wrapRets(n *node) {
	if n.th != nil {
		wrapRets(n.th)
		wrapRets(n.el)
		return
	}
	if n.isRet {
		n.ret = "some " + parenIf(n.ret)
		n.isRet = false
	}
}

func ind(n int) string { return strings.Repeat("  ", n) }

func refs(v ssa.Value) int {
	r := v.Referrers()
	if r == nil {
		return 0
	}
	n := 0
	for _, i := range *r {
		if _, dbg := i.(*ssa.DebugRef); !dbg {
			n++
		}
	}
	return n
}

// bind gives an instruction's value a `let` name when it is compound and used more than once
func (t *fnTrans) bind(instr ssa.Value, v val, e *env, out *strings.Builder) {
	needs := false
	switch v.k {
	case kInt, kBool:
		needs = !v.atom && refs(instr) > 1
	case kStruct, kTuple:
		needs = v.e != "" && !v.atom // a call result: always name it, its components are projections
	}
	if needs {
		name := instr.Name()
		fmt.Fprintf(out, "let %s := %s\n", name, v.e)
		nv := namedOfType(name, instr.Type())
		if v.k == kBool {
			nv.prop = ""
		}
		v = nv
	}
	e.vals[instr] = v
}

func (t *fnTrans) get(x ssa.Value, e *env) val {
	if v, ok := e.vals[x]; ok {
		return v
	}
	switch c := x.(type) {
	case *ssa.Const:
		if tp, ok := types.Unalias(c.Type()).(*types.TypeParam); ok && c.Value == nil {
			return val{k: kTPZero, tp: tp}
		}
		if c.Value == nil {
			return zeroOf(c.Type())
		}
		if isNumTP(c.Type()) {
			iv := constant.ToInt(c.Value)
			if iv.Kind() != constant.Int {
				fail("non-integer constant (%s) of the abstract numeric type", c.Value.String())
			}
			bi, _ := new(big.Int).SetString(iv.ExactString(), 10)
			return numLit(bi)
		}
		if w, _, ok := intInfo(c.Type()); ok {
			bi, exact := constant.Val(constant.ToInt(c.Value)).(*big.Int)
			if !exact {
				i64, isI := constant.Int64Val(constant.ToInt(c.Value))
				if !isI {
					u64, _ := constant.Uint64Val(constant.ToInt(c.Value))
					bi = new(big.Int).SetUint64(u64)
				} else {
					bi = big.NewInt(i64)
				}
			}
			return lit(bi, w)
		}
		if isStr(c.Type()) && c.Value.Kind() == constant.String {
			bs := []byte(constant.StringVal(c.Value))
			if len(bs) > 64 {
				fail("long string constant")
			}
			parts := make([]string, len(bs))
			for k, b := range bs {
				parts[k] = fmt.Sprintf("%d#8", b)
			}
			return val{k: kStr, e: "([" + strings.Join(parts, ", ") + "] : Gen.Str)", atom: true}
		}
		if isBool(c.Type()) {
			if constant.BoolVal(c.Value) {
				return val{k: kBool, e: "true", atom: true, prop: "True"}
			}
			return val{k: kBool, e: "false", atom: true, prop: "False"}
		}
		fail("constant of type %s", c.Type().String())
	case *ssa.Global:
		fail("address of package variable %s", c.Name())
	case *ssa.Function:
		fail("function value")
	}
	fail("value %s of type %s", x.Name(), x.Type().String())
	return val{}
}

// node is a piece of the translated control flow: some `let` lines followed by a return, by the arrival at the
// join block the region is being translated towards, or by a two-way branch.
type node struct {
	lines  []string
	ret    string   // result expression (the function returns here)
	isRet  bool     // ret is the value of a `return` at the top level (wrapped in `some` when the function is partial)
	arrive *arrival // the region's join block is reached
	cond   string
	th, el *node
}

type arrival struct {
	e    *env
	pred int // predecessor slot of the join block
	over map[*ssa.Phi]val
}

// walk executes block b symbolically (entered through predecessor slot predIdx; phisBound: the phis are already in e)
// and everything after it up to `stop` (nil: up to the function's returns).
func (t *fnTrans) walk(b *ssa.BasicBlock, predIdx int, e *env, stop *ssa.BasicBlock, phisBound bool) *node {
	n := &node{}
	var out strings.Builder
	flush := func() {
		for _, l := range strings.Split(strings.TrimRight(out.String(), "\n"), "\n") {
			if l != "" {
				n.lines = append(n.lines, l)
			}
		}
		out.Reset()
	}
	finish := func(rest *node) *node {
		flush()
		n.lines = append(n.lines, rest.lines...)
		n.ret, n.isRet, n.arrive, n.cond, n.th, n.el = rest.ret, rest.isRet, rest.arrive, rest.cond, rest.th, rest.el
		return n
	}
	if cur.ext {
		for _, ins := range b.Instrs {
			if noReturn(ins) {
				// the Go function does not return from here (panic, exit): no result
				t.monadic = true
				n.ret = "none"
				return n
			}
		}
	}
	bindOpt := func(instr ssa.Value, expr string) {
		t.monadic = true
		name := instr.Name()
		if tup, isT := instr.Type().(*types.Tuple); isT && tup.Len() == 0 {
			fmt.Fprintf(&out, "(%s).bind fun _ =>\n", expr)
			return
		}
		fmt.Fprintf(&out, "(%s).bind fun %s =>\n", expr, name)
		e.vals[instr] = namedOfType(name, instr.Type())
	}
	for _, ins := range b.Instrs {
		switch i := ins.(type) {
		case *ssa.Phi:
			if phisBound {
				continue
			}
			if predIdx < 0 {
				fail("phi in the entry block")
			}
			e.vals[i] = t.get(i.Edges[predIdx], e)
		case *ssa.DebugRef:
		case *ssa.Alloc:
			if i.Heap {
				fail("a local variable escapes (%s)", i.Comment)
			}
			elem := i.Type().Underlying().(*types.Pointer).Elem()
			e.mem[i] = zeroOf(elem)
			e.vals[i] = val{k: kPtr, alloc: i, fidx: -1}
		case *ssa.Lookup:
			x, idx := t.get(i.X, e), t.get(i.Index, e)
			if x.k != kStr || i.CommaOk || idx.k != kInt {
				fail("lookup in %s", i.X.Type().String())
			}
			if w, _, _ := intInfo(i.Index.Type()); w != 64 {
				fail("string index of type %s", i.Index.Type().String())
			}
			bindOpt(i, "Gen.strIdx "+par(x)+" "+par(idx))
		case *ssa.Index:
			x, idx := t.get(i.X, e), t.get(i.Index, e)
			if x.k != kStr || idx.k != kInt {
				fail("index in %s", i.X.Type().String())
			}
			if w, _, _ := intInfo(i.Index.Type()); w != 64 {
				fail("string index of type %s", i.Index.Type().String())
			}
			bindOpt(i, "Gen.strIdx "+par(x)+" "+par(idx))
		case *ssa.Slice:
			x := t.get(i.X, e)
			if x.k != kStr && x.k != kSlice {
				fail("slice of %s", i.X.Type().String())
			}
			if i.Max != nil {
				fail("three-index slice")
			}
			fn, ln := "Gen.strSlice", "Gen.strLen"
			if x.k == kSlice {
				fn, ln = "Gen.wSlice", "Gen.wLen"
			}
			lo, hi := "0#64", "("+ln+" "+par(x)+")"
			if i.Low != nil {
				lo = par(t.get(i.Low, e))
			}
			if i.High != nil {
				hi = par(t.get(i.High, e))
			}
			bindOpt(i, fn+" "+par(x)+" "+lo+" "+hi)
		case *ssa.IndexAddr:
			if gl, isG := i.X.(*ssa.Global); isG {
				// a package-level array of constants that the package never writes, read at a constant index: the constant
				c, isC := i.Index.(*ssa.Const)
				if !isC || c.Value == nil {
					fail("index into the package variable %s with a non-constant index", gl.Name())
				}
				k, exact := constant.Int64Val(constant.ToInt(c.Value))
				vals, w := t.g.tableValue(gl)
				if !exact || k < 0 || int(k) >= len(vals) {
					fail("index into the package variable %s out of range", gl.Name())
				}
				e.vals[i] = val{k: kRefF, fields: []val{lit(vals[k], w)}}
				continue
			}
			x, idx := t.get(i.X, e), t.get(i.Index, e)
			if x.k != kSlice || idx.k != kInt {
				fail("element address in %s", i.X.Type().String())
			}
			if w, _, _ := intInfo(i.Index.Type()); w != 64 {
				fail("index of type %s", i.Index.Type().String())
			}
			e.vals[i] = val{k: kElem, fields: []val{x, idx}}
		case *ssa.FieldAddr:
			p := t.get(i.X, e)
			if p.k == kStruct && p.ref {
				e.vals[i] = val{k: kRefF, fields: []val{p.fields[i.Field]}}
				continue
			}
			if p.k != kPtr {
				fail("field address of a non-local object")
			}
			if p.fidx == -1 {
				e.vals[i] = val{k: kPtr, alloc: p.alloc, fidx: i.Field}
			} else {
				e.vals[i] = val{k: kPtr, alloc: p.alloc, fidx: p.fidx, sub: append(append([]int(nil), p.sub...), i.Field)}
			}
		case *ssa.Store:
			p := t.get(i.Addr, e)
			if p.k != kPtr {
				fail("store through a non-local pointer")
			}
			v := t.get(i.Val, e)
			if p.fidx < 0 {
				e.mem[p.alloc] = v
			} else {
				e.mem[p.alloc] = setPath(e.mem[p.alloc], append([]int{p.fidx}, p.sub...), v)
			}
		case *ssa.UnOp:
			if v := t.unop(i, e); v.opt {
				bindOpt(i, v.e)
			} else {
				t.bind(i, v, e, &out)
			}
		case *ssa.BinOp:
			v := t.binop(i, e)
			for _, gd := range t.guards {
				t.monadic = true
				fmt.Fprintf(&out, "(Gen.guard (%s)).bind fun _ =>\n", gd)
			}
			t.guards = nil
			t.bind(i, v, e, &out)
		case *ssa.Field:
			s := t.get(i.X, e)
			if s.k != kStruct {
				fail("field of a non-struct")
			}
			e.vals[i] = s.fields[i.Field]
		case *ssa.Extract:
			tu := t.get(i.Tuple, e)
			if tu.k != kTuple {
				fail("extract from a non-tuple")
			}
			e.vals[i] = tu.fields[i.Index]
		case *ssa.ChangeType:
			src := t.get(i.X, e)
			if l, _, ok := structInfo(i.Type()); ok && src.k == kStruct {
				nv := val{k: kStruct, lean: l, fields: src.fields}
				if l == src.lean {
					nv.e, nv.atom = src.e, src.atom
				}
				e.vals[i] = nv
			} else if _, _, ok := intInfo(i.Type()); ok && src.k == kInt {
				e.vals[i] = src
			} else {
				fail("type change to %s", i.Type().String())
			}
		case *ssa.Convert:
			t.bind(i, t.convert(i, e), e, &out)
		case *ssa.Call:
			if v := t.call(i, e); v.opt {
				bindOpt(i, v.e)
			} else {
				t.bind(i, v, e, &out)
			}
		case *ssa.If:
			c := t.get(i.Cond, e)
			if c.k != kBool {
				fail("condition is not a bool")
			}
			cond := c.prop
			if cond == "" {
				cond = c.e
			}
			if cond == "True" {
				return finish(t.edge(b, 0, e, stop))
			}
			if cond == "False" {
				return finish(t.edge(b, 1, e, stop))
			}
			t.paths++
			if t.paths > maxPaths {
				fail("too many paths (more than %d branches)", maxPaths)
			}
			join := t.rg.ipdom[b]
			if join == stop {
				e2 := e.clone()
				flush()
				n.cond, n.th, n.el = cond, t.edge(b, 0, e, stop), t.edge(b, 1, e2, stop)
				return n
			}
			// the two branches meet again at `join` before the region ends: translate them as one `if` expression
			// whose value is the tuple of everything that differs at the join (its phis, updated fields of locals)
			sub := &node{cond: cond, th: t.edge(b, 0, e.clone(), join), el: t.edge(b, 1, e.clone(), join)}
			e2, name := t.merge(sub, join, e)
			mon := name != "" && monadicNode(sub)
			rest := t.walk(join, -1, e2, stop, true)
			if name != "" && !mon && len(rest.lines) == 0 && rest.th == nil && rest.arrive == nil && rest.ret == name {
				// `let x := <branch>; x` is just the branch
				flush()
				if rest.isRet {
					setLeavesRet(sub)
				}
				n.cond, n.th, n.el = sub.cond, sub.th, sub.el
				return n
			}
			if mon {
				t.monadic = true
				fmt.Fprintf(&out, "(\n%s).bind fun %s =>\n", render(sub, 1), name)
			} else if name != "" {
				fmt.Fprintf(&out, "let %s :=\n%s\n", name, render(sub, 1))
			}
			return finish(rest)
		case *ssa.Jump:
			return finish(t.edge(b, 0, e, stop))
		case *ssa.Return:
			if stop != nil {
				fail("internal: return inside a joined region")
			}
			var parts []string
			for _, r := range i.Results {
				v := t.get(r, e)
				switch v.k {
				case kStruct:
					w, _ := whole(v)
					parts = append(parts, w)
				case kInt, kBool, kStr, kSlice:
					parts = append(parts, v.e)
				default:
					fail("result of an unsupported kind")
				}
			}
			flush()
			if len(parts) == 0 {
				n.ret = "()"
			} else if len(parts) == 1 {
				n.ret = parts[0]
			} else {
				n.ret = "(" + strings.Join(parts, ", ") + ")"
			}
			if t.rg.lp != nil {
				n.ret = t.retWrap(n.ret)
			} else {
				n.isRet = true
			}
			return n
		case *ssa.Panic:
			fail("panic")
		default:
			fail("instruction %T", ins)
		}
	}
	fail("block without terminator")
	return nil
}

// setPath returns the struct value v with the field at `path` replaced by nv
func setPath(v val, path []int, nv val) val {
	if len(path) == 0 {
		return nv
	}
	if v.k != kStruct {
		fail("field of a non-struct")
	}
	nf := append([]val(nil), v.fields...)
	nf[path[0]] = setPath(nf[path[0]], path[1:], nv)
	return val{k: kStruct, lean: v.lean, fields: nf}
}

// edge follows the k-th successor edge of b
func (t *fnTrans) edge(b *ssa.BasicBlock, k int, e *env, stop *ssa.BasicBlock) *node {
	s := b.Succs[k]
	// which predecessor slot of s does this edge occupy (b may occur twice)
	occ := 0
	for j := 0; j < k; j++ {
		if b.Succs[j] == s {
			occ++
		}
	}
	idx := -1
	for j, p := range s.Preds {
		if p == b {
			if occ == 0 {
				idx = j
				break
			}
			occ--
		}
	}
	if cur.ext {
		return t.enter(s, phiSrc{pred: idx}, e, stop)
	}
	if s == stop {
		return &node{arrive: &arrival{e: e, pred: idx}}
	}
	return t.walk(s, idx, e, stop, false)
}

func leaves(n *node, acc []*arrival) []*arrival {
	if n.arrive != nil {
		return append(acc, n.arrive)
	}
	if n.th != nil {
		acc = leaves(n.th, acc)
		acc = leaves(n.el, acc)
	}
	return acc
}

func letNames(n *node, acc map[string]bool) {
	for _, l := range n.lines {
		f := strings.Fields(l)
		if len(f) > 1 && f[0] == "let" {
			acc[f[1]] = true
		}
	}
	if n.th != nil {
		letNames(n.th, acc)
		letNames(n.el, acc)
	}
}

func mentions(expr string, names map[string]bool) bool {
	tok := strings.FieldsFunc(expr, func(r rune) bool {
		return !(r == '_' || r == '\'' || (r >= '0' && r <= '9') || (r >= 'a' && r <= 'z') || (r >= 'A' && r <= 'Z'))
	})
	for _, w := range tok {
		if names[w] {
			return true
		}
	}
	return false
}

func valText(v val) string {
	if v.k == kStruct {
		w, _ := whole(v)
		return w
	}
	return v.e
}

// merge binds, after the branch `sub` whose paths all arrive at `join`, everything that differs between the arrivals:
// the phis of `join` and the fields of local structs that a branch has updated.  It returns the environment in which
// `join` is executed (envB = the environment at the branch instruction).
func (t *fnTrans) merge(sub *node, join *ssa.BasicBlock, envB *env) (*env, string) {
	ls := leaves(sub, nil)
	inner := map[string]bool{}
	letNames(sub, inner)
	type comp struct {
		name  string
		typ   types.Type
		exprs []string
		phi   *ssa.Phi
		alloc *ssa.Alloc
		fidx  int
	}
	var comps []comp
	e2 := envB.clone()
	same := func(xs []string) bool {
		for _, x := range xs[1:] {
			if x != xs[0] {
				return false
			}
		}
		return true
	}
	for _, ins := range join.Instrs {
		phi, ok := ins.(*ssa.Phi)
		if !ok {
			break
		}
		var xs []string
		var first val
		for k, l := range ls {
			v := t.phiOf(phi, phiSrc{pred: l.pred, over: l.over}, l.e)
			if v.k == kPtr || v.k == kTuple || v.k == kElem {
				fail("a pointer or tuple flows through a join")
			}
			if k == 0 {
				first = v
			}
			xs = append(xs, valText(v))
		}
		if same(xs) && !mentions(xs[0], inner) {
			e2.vals[phi] = first
			continue
		}
		comps = append(comps, comp{name: phi.Name(), typ: phi.Type(), exprs: xs, phi: phi})
	}
	// local variables, in the order of their allocation
	var allocs []*ssa.Alloc
	for _, b := range t.f.Blocks {
		for _, ins := range b.Instrs {
			if a, ok := ins.(*ssa.Alloc); ok {
				if _, live := envB.mem[a]; live {
					allocs = append(allocs, a)
				}
			}
		}
	}
	for _, a := range allocs {
		base := envB.mem[a]
		elem := a.Type().Underlying().(*types.Pointer).Elem()
		if base.k == kStruct {
			_, st, _ := structInfo(elem)
			for fi := range base.fields {
				var xs []string
				for _, l := range ls {
					xs = append(xs, valText(l.e.mem[a].fields[fi]))
				}
				if same(xs) && xs[0] == valText(base.fields[fi]) {
					continue
				}
				comps = append(comps, comp{name: a.Name() + "_" + leanFieldName(elem, fi), typ: st.Field(fi).Type(), exprs: xs, alloc: a, fidx: fi})
			}
		} else {
			var xs []string
			for _, l := range ls {
				xs = append(xs, valText(l.e.mem[a]))
			}
			if same(xs) && xs[0] == valText(base) {
				continue
			}
			comps = append(comps, comp{name: a.Name() + "_v", typ: elem, exprs: xs, alloc: a, fidx: -1})
		}
	}
	mon := monadicNode(sub)
	if len(comps) == 0 && !mon {
		return e2, ""
	}
	// the leaves of `sub`, in order, yield the tuple of the components
	k := 0
	var fill func(n *node)
	fill = func(n *node) {
		if n.arrive != nil {
			var parts []string
			for _, c := range comps {
				parts = append(parts, c.exprs[k])
			}
			k++
			n.arrive = nil
			if len(parts) == 1 {
				n.ret = parts[0]
			} else {
				n.ret = "(" + strings.Join(parts, ", ") + ")"
			}
			if mon {
				n.ret = "some " + parenIf(n.ret)
			}
			return
		}
		if n.th == nil {
			if n.ret == "none" {
				return
			}
			fail("a branch that does not reach its join (a loop that only returns inside a joined region)")
		}
		fill(n.th)
		fill(n.el)
	}
	fill(sub)
	name := "_"
	if len(comps) == 1 {
		name = comps[0].name
	} else if len(comps) > 1 {
		name = fmt.Sprintf("j%d", join.Index)
	}
	for ci, c := range comps {
		ref := name
		if len(comps) > 1 {
			ref = name + tupleProj(ci, len(comps))
		}
		nv := namedOfType(ref, c.typ)
		switch {
		case c.phi != nil:
			e2.vals[c.phi] = nv
		case c.fidx < 0:
			e2.mem[c.alloc] = nv
		default:
			old := e2.mem[c.alloc]
			nf := append([]val(nil), old.fields...)
			nf[c.fidx] = nv
			e2.mem[c.alloc] = val{k: kStruct, lean: old.lean, fields: nf}
		}
	}
	return e2, name
}

// monadicNode: some line of the tree binds an `Option`
func monadicNode(n *node) bool {
	for _, l := range n.lines {
		for _, ll := range strings.Split(l, "\n") {
			if strings.HasSuffix(ll, "=>") {
				return true
			}
		}
	}
	if n.th != nil {
		return monadicNode(n.th) || monadicNode(n.el)
	}
	return n.ret == "none"
}

func setLeavesRet(n *node) {
	if n.th != nil {
		setLeavesRet(n.th)
		setLeavesRet(n.el)
		return
	}
	n.isRet = true
}

// noReturn: a panic, or a call of a function that ends the process
func noReturn(ins ssa.Instruction) bool {
	switch i := ins.(type) {
	case *ssa.Panic:
		return true
	case *ssa.Call:
		if c := i.Call.StaticCallee(); c != nil && c.Pkg != nil {
			switch c.Pkg.Pkg.Path() + "." + c.Name() {
			case "github.com/richardwilkes/toolbox/atexit.Exit", "os.Exit", "github.com/richardwilkes/toolbox/fatal.IfErr":
				return c.Name() != "IfErr"
			}
		}
	}
	return false
}

// render prints a node; multi-line `let` values are already indented relative to their own first line
func render(n *node, depth int) string {
	var sb strings.Builder
	pad := ind(depth)
	for _, l := range n.lines {
		for _, ll := range strings.Split(l, "\n") {
			sb.WriteString(pad + ll + "\n")
		}
	}
	switch {
	case n.th != nil:
		fmt.Fprintf(&sb, "%sif %s then\n%s\n%selse\n%s", pad, n.cond, render(n.th, depth+1), pad, render(n.el, depth+1))
	default:
		sb.WriteString(pad + n.ret)
	}
	return sb.String()
}

// tidy rewrites `let x := <multi-line value>` immediately followed by the tail expression `x` into the value itself
func tidy(text string) string {
	lines := strings.Split(text, "\n")
	indentOf := func(l string) int { return len(l) - len(strings.TrimLeft(l, " ")) }
	for changed := true; changed; {
		changed = false
		for i, l := range lines {
			tl := strings.TrimLeft(l, " ")
			if !strings.HasPrefix(tl, "let ") || !strings.HasSuffix(tl, " :=") {
				continue
			}
			name := strings.TrimSuffix(strings.TrimPrefix(tl, "let "), " :=")
			in := indentOf(l)
			j := i + 1
			for j < len(lines) && indentOf(lines[j]) > in {
				j++
			}
			if j >= len(lines) || lines[j] != strings.Repeat(" ", in)+name {
				continue
			}
			var out []string
			out = append(out, lines[:i]...)
			for _, b := range lines[i+1 : j] {
				out = append(out, b[2:])
			}
			out = append(out, lines[j+1:]...)
			lines = out
			changed = true
			break
		}
	}
	return strings.Join(lines, "\n")
}

// postDominators: ipdom[b] = the nearest block that lies on every path from b to a return (nil: there is none)
func (t *fnTrans) postDominators() {
	blocks := t.f.Blocks
	n := len(blocks)
	// reverse topological order of the DAG
	var order []*ssa.BasicBlock
	seen := map[*ssa.BasicBlock]bool{}
	var dfs func(b *ssa.BasicBlock)
	dfs = func(b *ssa.BasicBlock) {
		seen[b] = true
		for _, s := range b.Succs {
			if !seen[s] {
				dfs(s)
			}
		}
		order = append(order, b) // successors first
	}
	dfs(blocks[0])
	pdom := map[*ssa.BasicBlock]map[*ssa.BasicBlock]bool{}
	for _, b := range order {
		set := map[*ssa.BasicBlock]bool{}
		if len(b.Succs) > 0 {
			first := true
			for _, s := range b.Succs {
				if first {
					for k := range pdom[s] {
						set[k] = true
					}
					first = false
				} else {
					for k := range set {
						if !pdom[s][k] {
							delete(set, k)
						}
					}
				}
			}
		}
		set[b] = true
		pdom[b] = set
	}
	t.ipdom = map[*ssa.BasicBlock]*ssa.BasicBlock{}
	for _, b := range order {
		var best *ssa.BasicBlock
		for _, c := range blocks { // deterministic order
			if c == b || !pdom[b][c] {
				continue
			}
			if best == nil || len(pdom[c]) > len(pdom[best]) {
				best = c
			}
		}
		t.ipdom[b] = best
	}
	_ = n
}

func (t *fnTrans) unop(i *ssa.UnOp, e *env) val {
	switch i.Op {
	case token.MUL: // load
		if gl, ok := i.X.(*ssa.Global); ok {
			return t.g.globalValue(gl)
		}
		p := t.get(i.X, e)
		if p.k == kRefF {
			return p.fields[0]
		}
		if p.k == kElem {
			return val{k: kInt, e: "Gen.wIdx " + par(p.fields[0]) + " " + par(p.fields[1]), opt: true}
		}
		if p.k != kPtr {
			fail("load through a non-local pointer")
		}
		m := e.mem[p.alloc]
		if p.fidx < 0 {
			return m
		}
		m = m.fields[p.fidx]
		for _, k := range p.sub {
			if m.k != kStruct {
				fail("field of a non-struct")
			}
			m = m.fields[k]
		}
		return m
	case token.NOT:
		x := t.get(i.X, e)
		v := val{k: kBool, e: "!" + par(x)}
		if x.prop != "" {
			v.prop = "¬(" + x.prop + ")"
			v.e = "decide (" + v.prop + ")"
		}
		return v
	case token.SUB:
		x := t.get(i.X, e)
		if isNumTP(i.Type()) {
			needHook("Neg")
			return val{k: kInt, num: true, e: "-" + par(x)}
		}
		w, _, ok := intInfo(i.Type())
		if !ok {
			fail("negation of %s", i.Type().String())
		}
		if x.cst != nil {
			return lit(new(big.Int).Neg(x.cst), w)
		}
		return val{k: kInt, e: "-" + par(x)}
	case token.XOR:
		x := t.get(i.X, e)
		if _, _, ok := intInfo(i.Type()); !ok {
			fail("complement of %s", i.Type().String())
		}
		return val{k: kInt, e: "~~~" + par(x)}
	}
	fail("unary operator %s", i.Op)
	return val{}
}

func num(v val, signed bool) string {
	if v.cst != nil {
		if v.cst.Sign() < 0 {
			return "(" + v.cst.String() + ")"
		}
		return v.cst.String()
	}
	if signed {
		return par(v) + ".toInt"
	}
	return par(v) + ".toNat"
}

func (t *fnTrans) binop(i *ssa.BinOp, e *env) val {
	x, y := t.get(i.X, e), t.get(i.Y, e)
	xt := i.X.Type()
	if isNumTP(xt) && x.k == kInt && y.k == kInt {
		cmp := func(op, cls string) val {
			needHook(cls)
			needHook("Decidable" + cls)
			prop := par(x) + " " + op + " " + par(y)
			return val{k: kBool, e: "decide (" + prop + ")", prop: prop}
		}
		ar := func(op, cls string) val {
			needHook(cls)
			return val{k: kInt, num: true, e: par(x) + " " + op + " " + par(y)}
		}
		switch i.Op {
		case token.ADD:
			return ar("+", "Add")
		case token.SUB:
			return ar("-", "Sub")
		case token.MUL:
			return ar("*", "Mul")
		case token.QUO:
			return ar("/", "Div")
		case token.LSS:
			return cmp("<", "LT")
		case token.GTR:
			return cmp(">", "LT")
		case token.LEQ:
			return cmp("≤", "LE")
		case token.GEQ:
			return cmp("≥", "LE")
		case token.EQL, token.NEQ:
			needHook("DecidableEq")
			op := " = "
			if i.Op == token.NEQ {
				op = " ≠ "
			}
			prop := par(x) + op + par(y)
			return val{k: kBool, e: "decide (" + prop + ")", prop: prop}
		}
		fail("operator %s on the abstract numeric type", i.Op)
	}
	// comparisons
	switch i.Op {
	case token.EQL, token.NEQ, token.LSS, token.LEQ, token.GTR, token.GEQ:
		var prop string
		switch {
		case x.k == kInt && y.k == kInt:
			_, signed, _ := intInfo(xt)
			switch i.Op {
			case token.EQL:
				prop = par(x) + " = " + par(y)
			case token.NEQ:
				prop = par(x) + " ≠ " + par(y)
			case token.LSS:
				prop = num(x, signed) + " < " + num(y, signed)
			case token.LEQ:
				prop = num(x, signed) + " ≤ " + num(y, signed)
			case token.GTR:
				prop = num(x, signed) + " > " + num(y, signed)
			case token.GEQ:
				prop = num(x, signed) + " ≥ " + num(y, signed)
			}
		case x.k == kStr && y.k == kStr:
			switch i.Op {
			case token.EQL:
				prop = par(x) + " = " + par(y)
			case token.NEQ:
				prop = par(x) + " ≠ " + par(y)
			case token.LSS:
				prop = par(x) + " < " + par(y)
			case token.GTR:
				prop = par(y) + " < " + par(x)
			case token.LEQ:
				prop = "¬(" + par(y) + " < " + par(x) + ")"
			case token.GEQ:
				prop = "¬(" + par(x) + " < " + par(y) + ")"
			}
		case x.k == kBool && y.k == kBool && (i.Op == token.EQL || i.Op == token.NEQ):
			op := " = "
			if i.Op == token.NEQ {
				op = " ≠ "
			}
			prop = par(x) + op + par(y)
		case x.k == kStruct && y.k == kStruct && x.lean == y.lean && (i.Op == token.EQL || i.Op == token.NEQ):
			if strings.HasSuffix(x.lean, " α") {
				needHook("DecidableEq")
			}
			wx, _ := whole(x)
			wy, _ := whole(y)
			op := " = "
			if i.Op == token.NEQ {
				op = " ≠ "
			}
			prop = wx + op + wy
		default:
			fail("comparison of %s", xt.String())
		}
		return val{k: kBool, e: "decide (" + prop + ")", prop: prop}
	}
	if x.k == kBool && y.k == kBool {
		switch i.Op {
		case token.AND:
			return val{k: kBool, e: par(x) + " && " + par(y)}
		case token.OR:
			return val{k: kBool, e: par(x) + " || " + par(y)}
		case token.XOR:
			return val{k: kBool, e: "xor " + par(x) + " " + par(y)}
		}
	}
	w, signed, ok := intInfo(i.Type())
	if !ok || x.k != kInt || y.k != kInt {
		fail("operator %s on %s", i.Op, i.Type().String())
	}
	bin := func(op string) val { return val{k: kInt, e: par(x) + " " + op + " " + par(y)} }
	switch i.Op {
	case token.ADD:
		return bin("+")
	case token.SUB:
		return bin("-")
	case token.MUL:
		return bin("*")
	case token.AND:
		return bin("&&&")
	case token.OR:
		return bin("|||")
	case token.XOR:
		return bin("^^^")
	case token.AND_NOT:
		return val{k: kInt, e: par(x) + " &&& ~~~" + par(y)}
	case token.SHL, token.SHR:
		// Go: a count ≥ the width gives 0 (or the sign fill for a signed >>); a negative signed count panics
		var cnt string
		if y.cst != nil {
			if y.cst.Sign() < 0 {
				fail("negative shift count")
			}
			cnt = y.cst.String()
		} else {
			if _, ysigned, _ := intInfo(i.Y.Type()); ysigned {
				fail("shift by a signed count (panics when negative)")
			}
			cnt = par(y) + ".toNat"
		}
		if i.Op == token.SHL {
			return val{k: kInt, e: par(x) + " <<< " + cnt}
		}
		if signed {
			return val{k: kInt, e: "BitVec.sshiftRight " + par(x) + " " + cnt}
		}
		return val{k: kInt, e: par(x) + " >>> " + cnt}
	case token.QUO, token.REM:
		if y.cst != nil && y.cst.Sign() == 0 {
			fail("division by the constant zero")
		}
		if y.cst == nil {
			if cur.ext {
				// Go panics when the divisor is zero: explicit partiality
				t.guards = append(t.guards, par(y)+" ≠ "+lit(big.NewInt(0), w).e)
			} else {
				if !pkgAllowDiv(t.f.Pkg) {
					fail("division by a non-constant (panics when the divisor is zero)")
				}
				t.partial = append(t.partial, "panics when the divisor "+y.e+" is zero")
			}
		}
		_ = w
		if signed {
			if i.Op == token.QUO {
				return val{k: kInt, e: "BitVec.sdiv " + par(x) + " " + par(y)}
			}
			return val{k: kInt, e: "BitVec.srem " + par(x) + " " + par(y)}
		}
		if i.Op == token.QUO {
			return bin("/")
		}
		return bin("%")
	}
	fail("operator %s", i.Op)
	return val{}
}

func (t *fnTrans) convert(i *ssa.Convert, e *env) val {
	x := t.get(i.X, e)
	sw, ssigned, ok1 := intInfo(i.X.Type())
	dw, _, ok2 := intInfo(i.Type())
	if !ok1 || !ok2 || x.k != kInt {
		fail("conversion %s -> %s", i.X.Type().String(), i.Type().String())
	}
	if x.cst != nil {
		return lit(x.cst, dw)
	}
	switch {
	case sw == dw:
		return x // same bits; the signedness lives in the operations
	case dw < sw || !ssigned:
		return val{k: kInt, e: fmt.Sprintf("BitVec.setWidth %d %s", dw, par(x))}
	default:
		return val{k: kInt, e: fmt.Sprintf("BitVec.signExtend %d %s", dw, par(x))}
	}
}

func (t *fnTrans) call(i *ssa.Call, e *env) val {
	if i.Call.IsInvoke() {
		if recv := t.get(i.Call.Value, e); recv.k == kTPZero && len(i.Call.Args) == 0 {
			if v, ok := t.dict[recv.tp][i.Call.Method.Name()]; ok {
				return v
			}
		}
		fail("interface method call %s", i.Call.Method.Name())
	}
	callee := i.Call.StaticCallee()
	if callee == nil {
		if b, ok := i.Call.Value.(*ssa.Builtin); ok {
			if (b.Name() == "max" || b.Name() == "min") && len(i.Call.Args) >= 2 && isNumTP(i.Type()) {
				needHook(strings.ToUpper(b.Name()[:1]) + b.Name()[1:])
				acc := t.get(i.Call.Args[0], e)
				for _, a := range i.Call.Args[1:] {
					n := t.get(a, e)
					acc = val{k: kInt, num: true, e: b.Name() + " " + par(acc) + " " + par(n)}
				}
				return acc
			}
			if (b.Name() == "max" || b.Name() == "min") && len(i.Call.Args) >= 2 {
				// the go1.21 built-ins on integers: `min(x, y)` is `if x < y then x else y`, `max(x, y)` is
				// `if x > y then x else y` (for integers the two orders of the comparison give the same value)
				if _, signed, ok := intInfo(i.Type()); ok {
					acc := t.get(i.Call.Args[0], e)
					for _, a := range i.Call.Args[1:] {
						y := t.get(a, e)
						if acc.k != kInt || y.k != kInt {
							fail("builtin %s on %s", b.Name(), i.Type().String())
						}
						op := " < "
						if b.Name() == "max" {
							op = " > "
						}
						acc = val{k: kInt, e: "if " + num(acc, signed) + op + num(y, signed) + " then " + par(acc) + " else " + par(y)}
					}
					return acc
				}
			}
			if b.Name() == "len" && len(i.Call.Args) == 1 && cur.ext {
				switch v := t.get(i.Call.Args[0], e); v.k {
				case kStr:
					return val{k: kInt, e: "Gen.strLen " + par(v)}
				case kSlice:
					return val{k: kInt, e: "Gen.wLen " + par(v)}
				}
			}
			fail("builtin %s", b.Name())
		}
		fail("dynamic call")
	}
	var args []string
	for _, a := range i.Call.Args {
		v := t.get(a, e)
		switch v.k {
		case kInt, kBool, kStr, kSlice:
			args = append(args, par(v))
		case kStruct:
			w, atom := whole(v)
			if !atom {
				w = "(" + w + ")"
			}
			args = append(args, w)
		default:
			fail("argument of an unsupported kind in a call of %s", callee.Name())
		}
	}
	var fn string
	natResult := false
	optResult := false
	switch {
	case callee == t.f && cur.ext:
		if t.rg.lp != nil {
			fail("recursive call inside a loop")
		}
		t.selfRec, t.fueled, t.monadic = true, true, true
		fn = t.g.lname[callee]
		args = append(args, "fuel")
		optResult = true
	case callee.Pkg != nil && callee.Pkg.Pkg.Path() == "math/bits":
		b, ok := bitsMap[callee.Name()]
		if !pkgBits(t.f.Pkg) {
			ok = false
		}
		if !ok {
			fail("call of bits.%s (no contract in the model)", callee.Name())
		}
		fn, natResult = b.lean, b.isNat
	case t.g.lname[genericOrigin(callee)] != "":
		var dargs []string
		if o := callee.Origin(); o != nil {
			// an instance `F[T]` of a generic function, called from a generic body
			dargs = t.dictArgs(o, callee.TypeArgs())
			callee = o
		} else if callee.TypeParams().Len() > 0 {
			// a method of a generic type: the type arguments are those of the receiver
			if len(i.Call.Args) == 0 {
				fail("generic call of %s without a receiver", callee.Name())
			}
			rt := types.Unalias(i.Call.Args[0].Type())
			if p, isP := rt.(*types.Pointer); isP {
				rt = types.Unalias(p.Elem())
			}
			named, isN := rt.(*types.Named)
			if !isN {
				fail("generic call of %s on an unnamed receiver", callee.Name())
			}
			var targs []types.Type
			for k := 0; k < named.TypeArgs().Len(); k++ {
				targs = append(targs, named.TypeArgs().At(k))
			}
			dargs = t.dictArgs(callee, targs)
		}
		if t.g.state[callee] == 1 {
			fail("recursion through %s", t.g.names[callee])
		}
		if !t.g.translate(callee) {
			mc, has := modelCalls[strings.TrimPrefix(t.g.names[callee], "num.")]
			if !t.g.aux[callee.Pkg] || !has || t.g.aux[t.f.Pkg] {
				// (a function of an auxiliary package is translated exactly as in the run of its own target, where
				// nothing is taken by the model: otherwise this run would refer to definitions that file does not have)
				fail("calls %s, which is outside the fragment", t.g.names[callee])
			}
			// a function of an auxiliary package outside the fragment: taken by the hand-written model
			t.g.modelTaken[t.g.names[callee]] = mc.lean + " (" + t.g.reason[callee] + ")"
			t.partial = append(t.partial, "calls "+t.g.names[callee]+" ("+mc.partial+")")
			fn = mc.lean
		} else {
			if why, isPartial := t.g.partial[callee]; isPartial {
				t.partial = append(t.partial, "calls "+t.g.names[callee]+" ("+why+")")
			}
			for k := range t.g.need[callee] {
				needHook(k)
			}
			fn = t.g.lname[callee]
		}
		args = append(dargs, args...)
		t.g.callees[t.f] = append(t.g.callees[t.f], callee)
		if t.g.fueledFn[callee] {
			args = append(args, "fuel")
			t.fueled = true
		}
		if t.g.monadicFn[callee] {
			optResult = true
			t.monadic = true
		}
	default:
		name := callee.Name()
		if callee.Pkg != nil {
			name = callee.Pkg.Pkg.Name() + "." + name
		} else if r := callee.Signature.Recv(); r != nil {
			name = types.TypeString(r.Type(), func(p *types.Package) string { return p.Name() }) + "." + name
		}
		fail("call of %s", name)
	}
	expr := fn
	if len(args) > 0 {
		expr += " " + strings.Join(args, " ")
	}
	rt := i.Type()
	if natResult {
		w, _, _ := intInfo(rt)
		return val{k: kInt, e: fmt.Sprintf("BitVec.ofNat %d (%s)", w, expr)}
	}
	if optResult {
		if tup, isT := rt.(*types.Tuple); !isT || tup.Len() > 0 {
			leanType(rt)
		}
		return val{e: expr, opt: true}
	}
	switch {
	case isBool(rt):
		return val{k: kBool, e: expr}
	case isStr(rt):
		return val{k: kStr, e: expr}
	case isWords(rt):
		return val{k: kSlice, e: expr}
	default:
		if isNumTP(rt) {
			return val{k: kInt, num: true, e: expr}
		}
		if _, _, ok := intInfo(rt); ok {
			return val{k: kInt, e: expr}
		}
		if l, _, ok := structInfo(rt); ok {
			return val{k: kStruct, e: expr, lean: l} // named by bind
		}
		if tup, ok := rt.(*types.Tuple); ok && tup.Len() >= 2 {
			leanType(tup) // every component must be in the fragment
			return val{k: kTuple, e: expr}
		}
	}
	fail("call result of type %s", rt.String())
	return val{}
}

func genericOrigin(f *ssa.Function) *ssa.Function {
	if o := f.Origin(); o != nil {
		return o
	}
	return f
}

// ---------------------------------------------------------------------------------------------------------- globals

// globalValue: a package-level variable may be read as its initial value when it is initialised with a constant
// (possibly a composite literal of constants) and no function of the package writes it or takes its address.
func (g *gen) globalValue(gl *ssa.Global) val {
	if why, bad := g.gbad[gl]; bad {
		fail("%s", why)
	}
	elem := gl.Type().Underlying().(*types.Pointer).Elem()
	if _, known := g.globals[gl]; !known {
		bad := func(format string, a ...any) {
			g.gbad[gl] = fmt.Sprintf(format, a...)
			fail("%s", g.gbad[gl])
		}
		if g.pkgs[gl.Pkg] == nil {
			bad("reads the variable %s of another package", gl.Name())
		}
		// never written outside the initialiser
		for _, f := range allFuncs(gl.Pkg) {
			if f.Name() == "init" && f.Synthetic != "" {
				continue
			}
			for _, b := range f.Blocks {
				for _, ins := range b.Instrs {
					for _, op := range ins.Operands(nil) {
						if *op != ssa.Value(gl) {
							continue
						}
						if u, ok := ins.(*ssa.UnOp); ok && u.Op == token.MUL {
							continue
						}
						bad("reads the package variable %s, which is written or has its address taken in %s", gl.Name(), f.Name())
					}
				}
			}
		}
		init := g.initExpr(gl)
		if init == nil {
			bad("reads the package variable %s, which has no constant initialiser", gl.Name())
		}
		info := g.pkgs[gl.Pkg].TypesInfo
		var def string
		if tv, ok := info.Types[init]; ok && tv.Value != nil {
			w, _, isI := intInfo(elem)
			if !isI {
				bad("reads the package variable %s of type %s", gl.Name(), elem.String())
			}
			bi, _ := new(big.Int).SetString(constant.ToInt(tv.Value).ExactString(), 10)
			def = lit(bi, w).e
		} else if cl, ok := init.(*ast.CompositeLit); ok {
			_, st, isS := structInfo(elem)
			if !isS {
				bad("reads the package variable %s of type %s", gl.Name(), elem.String())
			}
			vals := make([]string, st.NumFields())
			for k := range vals {
				w, _, _ := intInfo(st.Field(k).Type())
				vals[k] = lit(big.NewInt(0), w).e
			}
			for k, el := range cl.Elts {
				idx, ex := k, el
				if kv, isKV := el.(*ast.KeyValueExpr); isKV {
					ex = kv.Value
					idx = -1
					for f := 0; f < st.NumFields(); f++ {
						if id, isId := kv.Key.(*ast.Ident); isId && id.Name == st.Field(f).Name() {
							idx = f
						}
					}
				}
				tv, has := info.Types[ex]
				if idx < 0 || idx >= len(vals) || !has || tv.Value == nil {
					bad("reads the package variable %s, whose initialiser is not constant", gl.Name())
				}
				w, _, _ := intInfo(st.Field(idx).Type())
				bi, _ := new(big.Int).SetString(constant.ToInt(tv.Value).ExactString(), 10)
				vals[idx] = lit(bi, w).e
			}
			def = "⟨" + strings.Join(vals, ", ") + "⟩"
		} else {
			bad("reads the package variable %s, whose initialiser is not constant", gl.Name())
		}
		gname := ident(gl.Name())
		if g.aux[gl.Pkg] {
			gname = "Num_" + gname
		}
		g.globals[gl] = &global{name: gname, def: fmt.Sprintf("@[gen_const] def %s : %s := %s\n", gname, leanType(elem), def)}
		g.gorder = append(g.gorder, gl)
	}
	return namedOfType(g.globals[gl].name, elem)
}

// tableValue: a package-level ARRAY of integers may be read as its initial contents when it is initialised with a
// composite literal of constants and every use of the variable in the package is `&v[i]` followed only by loads
// (no store, no slice of it, no address that escapes).
func (g *gen) tableValue(gl *ssa.Global) ([]*big.Int, int) {
	if why, bad := g.gbad[gl]; bad {
		fail("%s", why)
	}
	if t, ok := g.tables[gl]; ok {
		return t.vals, t.w
	}
	bad := func(format string, a ...any) {
		g.gbad[gl] = fmt.Sprintf(format, a...)
		fail("%s", g.gbad[gl])
	}
	if g.pkgs[gl.Pkg] == nil {
		bad("reads the variable %s of another package", gl.Name())
	}
	arr, isArr := gl.Type().Underlying().(*types.Pointer).Elem().Underlying().(*types.Array)
	if !isArr {
		bad("reads the package variable %s of type %s", gl.Name(), gl.Type().String())
	}
	w, _, isI := intInfo(arr.Elem())
	if !isI {
		bad("reads the package variable %s of type %s", gl.Name(), gl.Type().String())
	}
	for _, f := range allFuncs(gl.Pkg) {
		if f.Name() == "init" && f.Synthetic != "" {
			continue
		}
		for _, b := range f.Blocks {
			for _, ins := range b.Instrs {
				for _, op := range ins.Operands(nil) {
					if *op != ssa.Value(gl) {
						continue
					}
					ia, ok := ins.(*ssa.IndexAddr)
					if !ok || ia.X != ssa.Value(gl) || ia.Referrers() == nil {
						bad("reads the package variable %s, which is written or has its address taken in %s", gl.Name(), f.Name())
					}
					for _, r := range *ia.Referrers() {
						if _, dbg := r.(*ssa.DebugRef); dbg {
							continue
						}
						if u, isU := r.(*ssa.UnOp); !isU || u.Op != token.MUL {
							bad("reads the package variable %s, an element of which is written or has its address taken in %s", gl.Name(), f.Name())
						}
					}
				}
			}
		}
	}
	cl, ok := g.initExpr(gl).(*ast.CompositeLit)
	if !ok {
		bad("reads the package variable %s, whose initialiser is not a composite literal", gl.Name())
	}
	info := g.pkgs[gl.Pkg].TypesInfo
	vals := make([]*big.Int, arr.Len())
	for k := range vals {
		vals[k] = big.NewInt(0)
	}
	next := int64(0)
	for _, el := range cl.Elts {
		ex := el
		if kv, isKV := el.(*ast.KeyValueExpr); isKV {
			ktv, has := info.Types[kv.Key]
			if !has || ktv.Value == nil {
				bad("reads the package variable %s, whose initialiser has a non-constant key", gl.Name())
			}
			next, _ = constant.Int64Val(constant.ToInt(ktv.Value))
			ex = kv.Value
		}
		tv, has := info.Types[ex]
		if !has || tv.Value == nil || next < 0 || next >= int64(len(vals)) {
			bad("reads the package variable %s, whose initialiser is not constant", gl.Name())
		}
		bi, okB := new(big.Int).SetString(constant.ToInt(tv.Value).ExactString(), 10)
		if !okB {
			bad("reads the package variable %s, whose initialiser is not an integer", gl.Name())
		}
		vals[next] = bi
		next++
	}
	g.tables[gl] = &table{vals: vals, w: w}
	return vals, w
}

type table struct {
	vals []*big.Int
	w    int
}

func allFuncs(p *ssa.Package) []*ssa.Function {
	var out []*ssa.Function
	seen := map[*ssa.Function]bool{}
	var add func(f *ssa.Function)
	add = func(f *ssa.Function) {
		if f == nil || seen[f] {
			return
		}
		seen[f] = true
		out = append(out, f)
		for _, a := range f.AnonFuncs {
			add(a)
		}
	}
	var names []string
	for n := range p.Members {
		names = append(names, n)
	}
	sort.Strings(names)
	for _, n := range names {
		switch m := p.Members[n].(type) {
		case *ssa.Function:
			add(m)
		case *ssa.Type:
			if named, ok := m.Type().(*types.Named); ok {
				for i := 0; i < named.NumMethods(); i++ {
					add(p.Prog.FuncValue(named.Method(i)))
				}
			}
		}
	}
	return out
}

func (g *gen) initExpr(gl *ssa.Global) ast.Expr {
	obj := gl.Object()
	for _, file := range g.pkgs[gl.Pkg].Syntax {
		for _, d := range file.Decls {
			gd, ok := d.(*ast.GenDecl)
			if !ok || gd.Tok != token.VAR {
				continue
			}
			for _, s := range gd.Specs {
				vs := s.(*ast.ValueSpec)
				for k, n := range vs.Names {
					if g.pkgs[gl.Pkg].TypesInfo.Defs[n] == obj && len(vs.Values) == len(vs.Names) {
						return vs.Values[k]
					}
				}
			}
		}
	}
	return nil
}

// ---------------------------------------------------------------------------------------------------------- main

// wrap joins the words with ", " into lines of at most `width` columns
func wrap(words []string, indent string, width int) string {
	var lines []string
	cur := indent
	for i, w := range words {
		if i < len(words)-1 {
			w += ","
		}
		if len(cur)+len(w)+1 > width && cur != indent {
			lines = append(lines, strings.TrimRight(cur, " "))
			cur = indent
		}
		cur += w + " "
	}
	lines = append(lines, strings.TrimRight(cur, " "))
	return strings.Join(lines, "\n")
}

func main() {
	if len(os.Args) > 3 && os.Args[1] == "-dump" {
		dumpMain(os.Args[2:])
		return
	}
	if len(os.Args) < 3 {
		fmt.Fprintln(os.Stderr, "usage: ssagen <repo dir> <out.lean> [num|f64]")
		os.Exit(2)
	}
	repo, outPath := os.Args[1], os.Args[2]
	if len(os.Args) > 3 {
		if targets[os.Args[3]] == nil {
			fmt.Fprintln(os.Stderr, "unknown target", os.Args[3])
			os.Exit(2)
		}
		cur = targets[os.Args[3]]
	}
	cfg := &packages.Config{Mode: packages.LoadAllSyntax, Dir: repo, Tests: false}
	pkgs, err := packages.Load(cfg, append(append([]string{}, cur.pkgs...), cur.aux...)...)
	if err != nil {
		fmt.Fprintln(os.Stderr, "load:", err)
		os.Exit(1)
	}
	byPath := map[string]*packages.Package{}
	for _, p := range pkgs {
		if len(p.Errors) > 0 {
			fmt.Fprintln(os.Stderr, "load: package errors:", p.Errors)
			os.Exit(1)
		}
		byPath[p.PkgPath] = p
	}
	prog, _ := ssautil.AllPackages(pkgs, ssa.BuilderMode(0))
	build := func() *gen {
		g := &gen{prog: prog, names: map[*ssa.Function]string{}, lname: map[*ssa.Function]string{},
			state: map[*ssa.Function]int{}, reason: map[*ssa.Function]string{}, text: map[*ssa.Function]string{},
			globals: map[*ssa.Global]*global{}, gbad: map[*ssa.Global]string{}, pkgs: map[*ssa.Package]*packages.Package{},
			partial: map[*ssa.Function]string{}, aux: map[*ssa.Package]bool{}, modelTaken: map[string]string{},
			need: map[*ssa.Function]map[string]bool{}, callees: map[*ssa.Function][]*ssa.Function{}, tables: map[*ssa.Global]*table{}, fueledFn: map[*ssa.Function]bool{}, monadicFn: map[*ssa.Function]bool{}}
		nOwn := 0
		for k, path := range append(append([]string{}, cur.pkgs...), cur.aux...) {
			tp := byPath[path]
			if tp == nil {
				fmt.Fprintln(os.Stderr, "package not loaded:", path)
				os.Exit(1)
			}
			sp := prog.Package(tp.Types)
			if sp == nil {
				fmt.Fprintln(os.Stderr, "no SSA package for", path)
				os.Exit(1)
			}
			sp.Build()
			g.pkgs[sp] = tp
			g.collect(sp)
			if k < len(cur.pkgs) {
				nOwn = len(g.fns)
			} else {
				g.aux[sp] = true
			}
		}
		own := g.fns[:nOwn] // the functions of auxiliary packages are translated on demand only, and never emitted
		g.fns = own
		for _, f := range g.fns {
			g.translate(f)
		}
		return g
	}
	// base: the functions that the generated file of ANOTHER target of the same package already defines (it is imported)
	inBase := map[string]bool{}
	baseGlobals := map[string]bool{}
	if cur.base != "" {
		saved := cur
		cur = targets[cur.base]
		g0 := build()
		for _, f := range g0.fns {
			if g0.state[f] == 2 {
				inBase[g0.names[f]] = true
			}
		}
		for _, gl := range g0.gorder {
			baseGlobals[g0.globals[gl].name] = true
		}
		cur = saved
	}
	g := build()
	if len(inBase) > 0 {
		var keep []*ssa.Function
		for _, f := range g.fns {
			if !inBase[g.names[f]] {
				keep = append(keep, f)
			}
		}
		g.fns = keep
	}
	var translated []string
	type skip struct {
		Name   string `json:"name"`
		Reason string `json:"reason"`
	}
	var skipped, partial []skip
	for _, f := range g.fns {
		if g.state[f] == 2 {
			translated = append(translated, g.names[f])
			if why, ok := g.partial[f]; ok {
				partial = append(partial, skip{g.names[f], why})
			}
		} else {
			skipped = append(skipped, skip{g.names[f], g.reason[f]})
		}
	}
	var sb strings.Builder
	for _, im := range cur.imports {
		sb.WriteString("import " + im + "\n")
	}
	fmt.Fprintf(&sb, "/-! GENERATED by /verif/gossa (ssagen) from the typed SSA form of %s — do not edit.\n", cur.what)
	fmt.Fprintf(&sb, "    Regenerated from the working tree of the repository on every run of `./check %s`.\n\n", cur.check)
	sb.WriteString("    Encoding: every Go integer of width w is a `BitVec w` (int, uint, int64, uint64: `BitVec 64`; `+ - *` wrap;\n")
	sb.WriteString("    signed comparisons go through `toInt`, unsigned ones through `toNat`; `x << n`, `x >> n` take the count as a\n")
	sb.WriteString("    natural number, so a count ≥ 64 gives 0 as in Go; a signed `>>` is `BitVec.sshiftRight`); `bool` is `Bool`;\n")
	if cur.ext {
		sb.WriteString("    EXTENDED FRAGMENT (gossa/loops.go, Lemmas/GenLoop.lean): a Go `string` is `Gen.Str` (its bytes), a `[]uint64` is\n")
		sb.WriteString("    `Gen.Words`; indexing and slicing carry Go's bounds checks (`none` where Go panics); a method receiver that\n")
		sb.WriteString("    is only read is passed as the record; a block that panics or ends the process (`atexit.Exit`) is `none`; a\n")
		sb.WriteString("    natural loop is a function `<F>_loop<k>` by structural recursion on `fuel` (live-in values, fuel, the phi\n")
		sb.WriteString("    nodes of the header; `none` when the fuel runs out), a function with loops takes `fuel` as its last\n")
		sb.WriteString("    parameter and yields an `Option`; a recursive call consumes one unit of fuel.\n")
	}
	if cur.name == "num" || cur.name == "numloops" {
		sb.WriteString("    Uint128 / Int128 are the records `U128` / `I128` of the model; `math/bits` calls are the contract\n")
		sb.WriteString("    definitions of Model/U128.lean (`add64 sub64 mul64 len64 clz ctz popcount`, the `int` results embedded\n")
		sb.WriteString("    with `BitVec.ofNat 64`); package variables with a constant initialiser that the package never writes are\n")
		sb.WriteString("    read as that constant.  A branch is `if … then … else …`; where both arms of a branch meet again the\n")
	} else {
		sb.WriteString("    a signed `/` is `BitVec.sdiv`, a signed `%` is `BitVec.srem` (Go's truncated division, `MinInt64 / -1`\n")
		sb.WriteString("    wraps); a division by a non-constant is translated as that total operation and the function is listed\n")
		sb.WriteString("    below as PARTIAL: the Go function panics when the divisor is zero, the definition describes it elsewhere.\n")
		sb.WriteString("    A function that is generic over `T fixed.Dx` is translated once from its generic body; the type parameter\n")
		sb.WriteString("    becomes a dictionary: one parameter per method of the constraint (`T_Multiplier`, `T_Places`), the value\n")
		sb.WriteString("    of that method on the zero value of T, which is the only way the package calls it (`var t T;\n")
		if cur.name == "f64" {
			sb.WriteString("    t.Multiplier()`); the methods of the configurations D1..D16 are translated as they are (they ignore their\n")
			sb.WriteString("    receiver).  A branch is `if … then … else …`; where both arms of a branch meet again the\n")
		} else {
			sb.WriteString("    t.Multiplier()`).  `f128.Int[T]` is the record `F128_Int` declared below (field `data : I128`); a call of a\n")
			sb.WriteString("    function of xmath/num is a call of its regenerated definition in Generated/SSA_Num.lean.\n")
			sb.WriteString("    A branch is `if … then … else …`; where both arms of a branch meet again the\n")
		}
	}
	sb.WriteString("    values that differ at the join (phi nodes, updated fields of a local struct) are `let`-bound to the\n")
	sb.WriteString("    `if` expression; other join blocks are duplicated per path.  The attributes `gen_def` / `gen_const`\n")
	switch cur.name {
	case "num", "f64":
		fmt.Fprintf(&sb, "    (Lemmas/GenAttr.lean) collect the definitions for the proof script of Props/%sGen.lean.\n\n", cur.check)
	default:
		fmt.Fprintf(&sb, "    (Lemmas/GenAttr.lean) collect the definitions for the proof scripts of Props/%sGen*.lean.\n\n", cur.check)
	}
	fmt.Fprintf(&sb, "    translated (%d):\n%s\n\n", len(translated), wrap(translated, "      ", 116))
	if len(partial) > 0 {
		fmt.Fprintf(&sb, "    PARTIAL (%d):\n", len(partial))
		for _, s := range partial {
			fmt.Fprintf(&sb, "      %s — %s\n", s.Name, s.Reason)
		}
		sb.WriteString("\n")
	}
	fmt.Fprintf(&sb, "    outside the fragment (%d):\n", len(skipped))
	for _, s := range skipped {
		fmt.Fprintf(&sb, "      %s — %s\n", s.Name, s.Reason)
	}
	if len(g.modelTaken) > 0 {
		var ks []string
		for k := range g.modelTaken {
			ks = append(ks, k)
		}
		sort.Strings(ks)
		fmt.Fprintf(&sb, "\n    taken by the model (%d): a function of xmath/num that is outside the translated fragment is called as the\n", len(ks))
		sb.WriteString("    total form of the hand-written model function, whose specification is proved under C01:\n")
		for _, k := range ks {
			fmt.Fprintf(&sb, "      %s — %s\n", k, g.modelTaken[k])
		}
	}
	sb.WriteString("-/\n\nnamespace Gen\n\n")
	{
		var ks []string
		for k := range cur.structs {
			ks = append(ks, k)
		}
		sort.Strings(ks)
		// a struct after the structs of its fields
		{
			var ordered []string
			done := map[string]bool{}
			var visit func(k string)
			visit = func(k string) {
				if done[k] {
					return
				}
				done[k] = true
				tp := byPath[k[:strings.LastIndex(k, ".")]]
				if st, isS := tp.Types.Scope().Lookup(k[strings.LastIndex(k, ".")+1:]).Type().Underlying().(*types.Struct); isS {
					for i := 0; i < st.NumFields(); i++ {
						if n, isN := types.Unalias(st.Field(i).Type()).(*types.Named); isN && n.Obj().Pkg() != nil {
							dep := n.Obj().Pkg().Path() + "." + n.Obj().Name()
							if _, has := cur.structs[dep]; has {
								visit(dep)
							}
						}
					}
				}
				ordered = append(ordered, k)
			}
			for _, k := range ks {
				visit(k)
			}
			ks = ordered
		}
		for _, k := range ks {
			tp := byPath[k[:strings.LastIndex(k, ".")]]
			obj := tp.Types.Scope().Lookup(k[strings.LastIndex(k, ".")+1:])
			st, isS := obj.Type().Underlying().(*types.Struct)
			if !isS {
				continue
			}
			var fs []string
			for i := 0; i < st.NumFields(); i++ {
				fs = append(fs, fmt.Sprintf("  %s : %s", leanFieldName(obj.Type(), i), leanType(st.Field(i).Type())))
			}
			param := ""
			if l, _, okS := structInfo(obj.Type()); okS && strings.HasSuffix(l, " α") {
				param = " (α : Type)"
			}
			fmt.Fprintf(&sb, "/-- `%s` -/\nstructure %s%s where\n%s\nderiving DecidableEq\n\n", k[strings.LastIndex(k, "/")+1:], strings.TrimSuffix(cur.structs[k], " α"), param, strings.Join(fs, "\n"))
		}
	}
	for _, gl := range g.gorder {
		if baseGlobals[g.globals[gl].name] {
			continue
		}
		sb.WriteString(g.globals[gl].def)
		sb.WriteString("\n")
	}
	// tied / untied
	untiedPath := strings.TrimSuffix(outPath, ".lean") + "_untied.lean"
	inMain := map[*ssa.Function]bool{}
	split := false
	if cur.props != "" {
		txt, err := os.ReadFile(filepath.Join(filepath.Dir(filepath.Dir(outPath)), cur.props))
		if err != nil {
			// the output goes elsewhere (a scratch file): the tie module of this checkout (ssagen runs in /verif/gossa)
			txt, err = os.ReadFile(filepath.Join("..", "lean", cur.props))
		}
		if err == nil {
			split = true
			guarded := map[string]bool{}
			for _, m := range regexp.MustCompile(`(?m)^when_translated\s+Gen\.(\S+)\s+in\s*$`).FindAllStringSubmatch(string(txt), -1) {
				guarded[m[1]] = true
			}
			var mark func(f *ssa.Function)
			mark = func(f *ssa.Function) {
				if inMain[f] {
					return
				}
				inMain[f] = true
				for _, c := range g.callees[f] {
					mark(c)
				}
			}
			for _, f := range g.order {
				if guarded[g.lname[f]] {
					mark(f)
				}
			}
		}
	}
	var ub strings.Builder
	untied := []string{}
	for _, f := range g.order {
		if g.aux[f.Pkg] || inBase[g.names[f]] {
			continue // defined by the generated file of its own target, which is imported
		}
		if split && !inMain[f] {
			ub.WriteString(g.text[f])
			ub.WriteString("\n")
			untied = append(untied, g.names[f])
			continue
		}
		sb.WriteString(g.text[f])
		sb.WriteString("\n")
	}
	sb.WriteString("end Gen\n")
	if err := os.WriteFile(outPath, []byte(sb.String()), 0o644); err != nil {
		fmt.Fprintln(os.Stderr, err)
		os.Exit(1)
	}
	if cur.props != "" {
		os.Remove(untiedPath)
	}
	if len(untied) > 0 {
		mod := "Generated." + strings.TrimSuffix(filepath.Base(outPath), ".lean")
		text := "import " + mod + "\n/-! GENERATED by /verif/gossa (ssagen) — do not edit.  Functions of " + cur.what + " that are translated but have no tie\n" +
			"    theorem in " + cur.props + " yet (no property depends on this file; the definitions can be run):\n" +
			wrap(untied, "      ", 116) + " -/\n\nnamespace Gen\n\n" + ub.String() + "end Gen\n"
		if err := os.WriteFile(untiedPath, []byte(text), 0o644); err != nil {
			fmt.Fprintln(os.Stderr, err)
			os.Exit(1)
		}
	}
	var lean []string
	for _, f := range g.fns {
		if g.state[f] == 2 {
			lean = append(lean, g.lname[f])
		}
	}
	res := map[string]any{"translated": translated, "skipped": skipped, "partial": partial, "lean": lean}
	if cur.props != "" {
		res["untied"] = untied
	}
	js, _ := json.Marshal(res)
	fmt.Println(string(js))
}
