package main

import (
	"fmt"
	"os"
	"strings"

	"golang.org/x/tools/go/packages"
	"golang.org/x/tools/go/ssa"
	"golang.org/x/tools/go/ssa/ssautil"
)

// dumpMain: `ssagen -dump <repo> <import path> <name substring>...` prints the SSA form of the matching functions
// (a debugging aid for the translator; not used by any check).
func dumpMain(args []string) {
	cfg := &packages.Config{Mode: packages.LoadAllSyntax, Dir: args[0], Tests: false}
	pkgs, err := packages.Load(cfg, args[1])
	if err != nil {
		fmt.Fprintln(os.Stderr, err)
		os.Exit(1)
	}
	prog, spkgs := ssautil.AllPackages(pkgs, ssa.BuilderMode(0))
	_ = prog
	for _, sp := range spkgs {
		if sp == nil {
			continue
		}
		sp.Build()
		for _, f := range allFuncs(sp) {
			for _, want := range args[2:] {
				if strings.Contains(f.String(), want) {
					f.WriteTo(os.Stdout)
				}
			}
		}
	}
}
