// Loops (targets with `ext`): a natural loop of the control-flow graph becomes a Lean function of its own, defined by
// structural recursion on an explicit `fuel : Nat`.
//
//   - loop analysis: every retreating edge must be a back edge u→h with h dominating u (reducible graphs only); the
//     natural loop of h is everything that reaches such a u without passing h; loops nest;
//   - an edge that leaves the loop goes either to THE exit block X of the loop (the target of the header's own leaving
//     edge when it has one) or into a RETURN TAIL: a loop-free piece of the graph that is entered only from this loop
//     and ends in returns — it is translated inside the loop function, `return r` there is the outcome "the Go function
//     returns r from inside the loop"; a loop with two different proper exits is outside the fragment;
//   - the loop function takes the values defined outside that the loop uses (live-in, by their SSA / parameter names),
//     `fuel`, and the phi nodes of the header; a back edge is the recursive call with `fuel - 1`; the exit yields the
//     tuple of the phi values of X for the leaving edge and of the values defined in the loop that are used after it;
//   - result type: `Option σ` (only exits), `Option ρ` (only returns, ρ the result type of the Go function) or
//     `Option (ρ ⊕ σ)`; `none` = out of fuel, or a Go run-time panic (index out of range) — a tie theorem
//     `∀ fuel ≥ bound, Gen.f … fuel = some (model …)` therefore also says that the Go function does not panic.
package main

import (
	"fmt"
	"go/types"
	"sort"
	"strings"

	"golang.org/x/tools/go/ssa"
)

type loopInfo struct {
	header   *ssa.BasicBlock
	blocks   map[*ssa.BasicBlock]bool // the natural loop (with the blocks of the loops nested in it)
	tails    map[*ssa.BasicBlock]bool // its return tails (with those of the loops nested in it)
	parent   *loopInfo
	exit     *ssa.BasicBlock
	hasRet   bool
	liveIn   []ssa.Value
	liveOut  []ssa.Value
	name     string
	ord      int
	done     bool
	busy     bool
	comps    []ssa.Value // the exit tuple: phis of the exit block, then liveOut
	sigmaTyp string
}

const (
	lkExit = iota // Option σ
	lkRet         // Option ρ
	lkBoth        // Option (ρ ⊕ σ)
)

func (l *loopInfo) kind() int {
	switch {
	case l.exit != nil && l.hasRet:
		return lkBoth
	case l.exit != nil:
		return lkExit
	}
	return lkRet
}

type region struct {
	lp    *loopInfo
	ipdom map[*ssa.BasicBlock]*ssa.BasicBlock
}

// in: the block is translated inside the region (the loop function of lp; everything for the top level)
func (r *region) in(b *ssa.BasicBlock) bool {
	return r.lp == nil || r.lp.blocks[b] || r.lp.tails[b]
}

func reach(from *ssa.BasicBlock) map[*ssa.BasicBlock]bool {
	seen := map[*ssa.BasicBlock]bool{}
	var dfs func(b *ssa.BasicBlock)
	dfs = func(b *ssa.BasicBlock) {
		if seen[b] {
			return
		}
		seen[b] = true
		for _, s := range b.Succs {
			dfs(s)
		}
	}
	dfs(from)
	return seen
}

func (t *fnTrans) analyzeLoops() {
	f := t.f
	t.loops = map[*ssa.BasicBlock]*loopInfo{}
	color := map[*ssa.BasicBlock]int{}
	type edge struct{ u, h *ssa.BasicBlock }
	var back []edge
	var dfs func(b *ssa.BasicBlock)
	dfs = func(b *ssa.BasicBlock) {
		color[b] = 1
		for _, s := range b.Succs {
			switch color[s] {
			case 1:
				if !s.Dominates(b) {
					fail("irreducible control flow (a retreating edge that is not a back edge)")
				}
				back = append(back, edge{b, s})
			case 0:
				dfs(s)
			}
		}
		color[b] = 2
	}
	dfs(f.Blocks[0])
	if len(back) == 0 {
		return
	}
	for _, e := range back {
		l := t.loops[e.h]
		if l == nil {
			l = &loopInfo{header: e.h, blocks: map[*ssa.BasicBlock]bool{e.h: true}, tails: map[*ssa.BasicBlock]bool{}}
			t.loops[e.h] = l
		}
		work := []*ssa.BasicBlock{e.u}
		for len(work) > 0 {
			b := work[len(work)-1]
			work = work[:len(work)-1]
			if l.blocks[b] {
				continue
			}
			l.blocks[b] = true
			work = append(work, b.Preds...)
		}
	}
	var all []*loopInfo
	for _, l := range t.loops {
		all = append(all, l)
	}
	sort.Slice(all, func(i, j int) bool {
		if len(all[i].blocks) != len(all[j].blocks) {
			return len(all[i].blocks) < len(all[j].blocks)
		}
		return all[i].header.Index < all[j].header.Index
	})
	for i, l := range all {
		for _, m := range all[i+1:] {
			if m != l && m.blocks[l.header] {
				l.parent = m
				break
			}
		}
		if f.Blocks[0] == l.header {
			fail("the entry block is a loop header")
		}
	}
	isHeader := func(b *ssa.BasicBlock) bool { return t.loops[b] != nil }
	for _, l := range all { // inner loops first
		// numbered in the order of the header blocks (stable when a change adds a branch somewhere)
		l.ord = 1
		for _, m := range all {
			if m.header.Index < l.header.Index {
				l.ord++
			}
		}
		l.name = fmt.Sprintf("%s_loop%d", t.g.lname[f], l.ord)
		for _, m := range all {
			if m.parent == l {
				for b := range m.tails {
					l.tails[b] = true
				}
				l.hasRet = l.hasRet || m.hasRet
			}
		}
		var targets []*ssa.BasicBlock
		seenT := map[*ssa.BasicBlock]bool{}
		for _, b := range f.Blocks {
			if !l.blocks[b] {
				continue
			}
			for _, s := range b.Succs {
				if !l.blocks[s] && !l.tails[s] && !seenT[s] {
					seenT[s] = true
					targets = append(targets, s)
				}
			}
		}
		sort.Slice(targets, func(i, j int) bool { return targets[i].Index < targets[j].Index })
		isTail := func(v *ssa.BasicBlock) (map[*ssa.BasicBlock]bool, bool) {
			r := reach(v)
			for b := range r {
				if isHeader(b) || l.blocks[b] {
					return nil, false
				}
				for _, p := range b.Preds {
					if !r[p] && !l.blocks[p] {
						return nil, false
					}
				}
			}
			return r, true
		}
		var hx *ssa.BasicBlock
		for _, s := range l.header.Succs {
			if !l.blocks[s] {
				hx = s
			}
		}
		if hx != nil {
			l.exit = hx
		}
		for _, v := range targets {
			if v == l.exit {
				continue
			}
			r, ok := isTail(v)
			if ok && l.exit != nil && r[l.exit] {
				ok = false
			}
			if ok {
				for b := range r {
					l.tails[b] = true
				}
				l.hasRet = true
				continue
			}
			if l.exit != nil {
				fail("a loop with two different exits (blocks %d and %d)", l.exit.Index, v.Index)
			}
			l.exit = v
		}
		// live-in / live-out
		inside := func(b *ssa.BasicBlock) bool { return l.blocks[b] || l.tails[b] }
		var params, others []ssa.Value
		seenV := map[ssa.Value]bool{}
		note := func(v ssa.Value) {
			if v == nil || seenV[v] {
				return
			}
			switch x := v.(type) {
			case *ssa.Parameter:
				seenV[v] = true
				params = append(params, v)
			case *ssa.FreeVar:
				fail("closure")
			case ssa.Instruction:
				if !inside(x.Block()) {
					seenV[v] = true
					others = append(others, v)
				}
			}
		}
		for _, b := range f.Blocks {
			if !inside(b) {
				continue
			}
			for _, ins := range b.Instrs {
				if phi, ok := ins.(*ssa.Phi); ok && b == l.header {
					for k, p := range b.Preds {
						if l.blocks[p] {
							note(phi.Edges[k])
						}
					}
					continue
				}
				for _, op := range ins.Operands(nil) {
					note(*op)
				}
			}
		}
		if l.exit != nil {
			for _, ins := range l.exit.Instrs {
				phi, ok := ins.(*ssa.Phi)
				if !ok {
					break
				}
				for k, p := range l.exit.Preds {
					if l.blocks[p] {
						note(phi.Edges[k])
					}
				}
			}
		}
		pidx := map[ssa.Value]int{}
		for k, p := range f.Params {
			pidx[p] = k
		}
		sort.Slice(params, func(i, j int) bool { return pidx[params[i]] < pidx[params[j]] })
		pos := func(v ssa.Value) (int, int) {
			ins := v.(ssa.Instruction)
			for k, x := range ins.Block().Instrs {
				if x == ins {
					return ins.Block().Index, k
				}
			}
			return ins.Block().Index, 0
		}
		byPos := func(vs []ssa.Value) {
			sort.Slice(vs, func(i, j int) bool {
				bi, ki := pos(vs[i])
				bj, kj := pos(vs[j])
				if bi != bj {
					return bi < bj
				}
				return ki < kj
			})
		}
		byPos(others)
		l.liveIn = append(params, others...)
		seenO := map[ssa.Value]bool{}
		for _, b := range f.Blocks {
			if inside(b) {
				continue
			}
			for _, ins := range b.Instrs {
				phi, isPhi := ins.(*ssa.Phi)
				for k, op := range ins.Operands(nil) {
					v := *op
					if v == nil {
						continue
					}
					vi, isI := v.(ssa.Instruction)
					if !isI || !l.blocks[vi.Block()] || seenO[v] {
						continue
					}
					if isPhi && b == l.exit && l.blocks[b.Preds[k]] {
						_ = phi
						continue // evaluated at the leaving edge
					}
					seenO[v] = true
					l.liveOut = append(l.liveOut, v)
				}
			}
		}
		byPos(l.liveOut)
	}
	t.inner = map[*ssa.BasicBlock]*loopInfo{}
	for i := len(all) - 1; i >= 0; i-- { // outer first, inner loops overwrite
		for b := range all[i].blocks {
			t.inner[b] = all[i]
		}
	}
}

// regionSuccs: the successors of a block in the graph of the current region, the loops nested in it collapsed into their
// headers; the edges that end the region (back edge, exit, return) are left out
func (t *fnTrans) regionSuccs(rg *region, b *ssa.BasicBlock) []*ssa.BasicBlock {
	var raw []*ssa.BasicBlock
	if l := t.loops[b]; l != nil && l != rg.lp {
		if l.exit != nil {
			raw = []*ssa.BasicBlock{l.exit}
		}
	} else {
		raw = b.Succs
	}
	var out []*ssa.BasicBlock
	for _, s := range raw {
		if rg.lp != nil && (s == rg.lp.header || !rg.in(s)) {
			continue
		}
		out = append(out, s)
	}
	return out
}

// regionPostDominators: ipdom[b] = the nearest block of the region that lies on every path from b to an end of the region
func (t *fnTrans) regionPostDominators(rg *region, root *ssa.BasicBlock) {
	var order []*ssa.BasicBlock
	seen := map[*ssa.BasicBlock]bool{}
	var dfs func(b *ssa.BasicBlock)
	dfs = func(b *ssa.BasicBlock) {
		seen[b] = true
		for _, s := range t.regionSuccs(rg, b) {
			if !seen[s] {
				dfs(s)
			}
		}
		order = append(order, b)
	}
	dfs(root)
	pdom := map[*ssa.BasicBlock]map[*ssa.BasicBlock]bool{}
	ends := func(b *ssa.BasicBlock) bool {
		// some edge of b ends the region, or b returns: no block post-dominates b
		var raw []*ssa.BasicBlock
		if l := t.loops[b]; l != nil && l != rg.lp {
			if l.exit == nil || l.hasRet {
				return true
			}
			raw = []*ssa.BasicBlock{l.exit}
		} else {
			raw = b.Succs
		}
		return len(raw) != len(t.regionSuccs(rg, b)) || len(raw) == 0
	}
	for _, b := range order {
		set := map[*ssa.BasicBlock]bool{}
		if !ends(b) {
			first := true
			for _, s := range t.regionSuccs(rg, b) {
				if first {
					for k := range pdom[s] {
						set[k] = true
					}
					first = false
				} else {
					for k := range set {
						if !pdom[s][k] {
							delete(set, k)
						}
					}
				}
			}
		}
		set[b] = true
		pdom[b] = set
	}
	rg.ipdom = map[*ssa.BasicBlock]*ssa.BasicBlock{}
	for _, b := range order {
		var best *ssa.BasicBlock
		for _, c := range t.f.Blocks {
			if c == b || !pdom[b][c] {
				continue
			}
			if best == nil || len(pdom[c]) > len(pdom[best]) {
				best = c
			}
		}
		rg.ipdom[b] = best
	}
}

// phiSrc: where the phi nodes of a block that is being entered take their values from
type phiSrc struct {
	pred int
	over map[*ssa.Phi]val
}

func (t *fnTrans) phiOf(phi *ssa.Phi, src phiSrc, e *env) val {
	if src.over != nil {
		if v, ok := src.over[phi]; ok {
			return v
		}
		fail("internal: phi %s without a value", phi.Name())
	}
	if src.pred < 0 {
		fail("phi in the entry block")
	}
	return t.get(phi.Edges[src.pred], e)
}

func phisOf(b *ssa.BasicBlock) []*ssa.Phi {
	var out []*ssa.Phi
	for _, ins := range b.Instrs {
		phi, ok := ins.(*ssa.Phi)
		if !ok {
			break
		}
		out = append(out, phi)
	}
	return out
}

// liveArg: the argument for a live-in value of a loop (a local variable that lives in memory is passed by its contents)
func (t *fnTrans) liveArg(v ssa.Value, e *env) string {
	if a, ok := v.(*ssa.Alloc); ok {
		m, has := e.mem[a]
		if !has {
			fail("internal: no contents for the local variable %s", a.Name())
		}
		return argText(m)
	}
	return argText(t.get(v, e))
}

func allocElem(a *ssa.Alloc) types.Type { return a.Type().Underlying().(*types.Pointer).Elem() }

func argText(v val) string {
	switch v.k {
	case kStruct:
		w, atom := whole(v)
		if !atom {
			w = "(" + w + ")"
		}
		return w
	case kInt, kBool, kStr, kSlice:
		return par(v)
	}
	fail("a value of an unsupported kind is carried through a loop")
	return ""
}

func (t *fnTrans) retWrap(s string) string {
	rg := t.rg
	if rg.lp == nil {
		return s // wrapped at the end (the function may turn out to be total)
	}
	if rg.lp.kind() == lkBoth {
		return "some (.inl " + parenIf(s) + ")"
	}
	return "some " + parenIf(s)
}

func parenIf(s string) string {
	if strings.ContainsAny(s, " ") && !(strings.HasPrefix(s, "(") && balanced(s)) {
		return "(" + s + ")"
	}
	return s
}

// balanced: s starts with "(" and that parenthesis closes at the very end
func balanced(s string) bool {
	d := 0
	for i, c := range s {
		switch c {
		case '(', '⟨', '[':
			d++
		case ')', '⟩', ']':
			d--
			if d == 0 && i != len(s)-1 {
				return false
			}
		}
	}
	return d == 0
}

// enter: control arrives at block s
func (t *fnTrans) enter(s *ssa.BasicBlock, src phiSrc, e *env, stop *ssa.BasicBlock) *node {
	rg := t.rg
	if s == stop {
		return &node{arrive: &arrival{e: e, pred: src.pred, over: src.over}}
	}
	if rg.lp != nil && s == rg.lp.header {
		// back edge: the recursive call
		l := rg.lp
		parts := []string{l.name}
		for _, v := range l.liveIn {
			parts = append(parts, t.liveArg(v, e))
		}
		parts = append(parts, "fuel")
		for _, phi := range phisOf(s) {
			parts = append(parts, argText(t.phiOf(phi, src, e)))
		}
		return &node{ret: strings.Join(parts, " ")}
	}
	if rg.lp != nil && !rg.in(s) {
		l := rg.lp
		if s != l.exit {
			fail("internal: edge to block %d leaves the loop at block %d", s.Index, l.header.Index)
		}
		var parts []string
		for _, c := range l.comps {
			if phi, ok := c.(*ssa.Phi); ok && phi.Block() == s {
				parts = append(parts, valText(t.phiOf(phi, src, e)))
			} else if a, isA := c.(*ssa.Alloc); isA {
				parts = append(parts, valText(e.mem[a]))
			} else {
				parts = append(parts, valText(t.get(c, e)))
			}
		}
		var tup string
		switch len(parts) {
		case 0:
			tup = "()"
		case 1:
			tup = parts[0]
		default:
			tup = "(" + strings.Join(parts, ", ") + ")"
		}
		if l.kind() == lkBoth {
			return &node{ret: "some (.inr " + parenIf(tup) + ")"}
		}
		return &node{ret: "some " + parenIf(tup)}
	}
	if l := t.loops[s]; l != nil {
		return t.callLoop(l, src, e, stop)
	}
	if src.over != nil {
		for _, phi := range phisOf(s) {
			e.vals[phi] = t.phiOf(phi, src, e)
		}
		return t.walk(s, -1, e, stop, true)
	}
	return t.walk(s, src.pred, e, stop, false)
}

// callLoop: control arrives at the header of a loop nested in the current region
func (t *fnTrans) callLoop(l *loopInfo, src phiSrc, e *env, stop *ssa.BasicBlock) *node {
	t.genLoop(l)
	t.monadic, t.fueled = true, true
	parts := []string{l.name}
	for _, v := range l.liveIn {
		parts = append(parts, t.liveArg(v, e))
	}
	parts = append(parts, "fuel")
	for _, phi := range phisOf(l.header) {
		parts = append(parts, argText(t.phiOf(phi, src, e)))
	}
	call := strings.Join(parts, " ")
	outer := lkRet // what the enclosing region yields
	if t.rg.lp != nil {
		outer = t.rg.lp.kind()
	}
	if l.kind() == lkRet {
		if outer == lkBoth {
			return &node{ret: "(" + call + ").map Sum.inl"}
		}
		return &node{ret: call}
	}
	n := &node{}
	name := fmt.Sprintf("lp%d", l.ord)
	if len(l.comps) == 1 {
		name = ident(l.comps[0].Name())
		if _, isA := l.comps[0].(*ssa.Alloc); isA {
			name = "m_" + l.comps[0].Name()
		}
	} else if len(l.comps) == 0 {
		name = "_"
	}
	switch {
	case l.kind() == lkExit:
		n.lines = append(n.lines, "("+call+").bind fun "+name+" =>")
	case outer == lkBoth:
		n.lines = append(n.lines, "Gen.loopBindB ("+call+") fun "+name+" =>")
	default:
		n.lines = append(n.lines, "Gen.loopBind ("+call+") fun "+name+" =>")
	}
	over := map[*ssa.Phi]val{}
	for k, c := range l.comps {
		ref := name
		if len(l.comps) > 1 {
			ref = name + tupleProj(k, len(l.comps))
		}
		if a, isA := c.(*ssa.Alloc); isA {
			e.mem[a] = namedOfType(ref, allocElem(a))
			continue
		}
		nv := namedOfType(ref, c.Type())
		if phi, ok := c.(*ssa.Phi); ok && phi.Block() == l.exit {
			over[phi] = nv
		} else {
			e.vals[c] = nv
		}
	}
	rest := t.enter(l.exit, phiSrc{pred: -1, over: over}, e, stop)
	n.lines = append(n.lines, rest.lines...)
	n.ret, n.isRet, n.arrive, n.cond, n.th, n.el = rest.ret, rest.isRet, rest.arrive, rest.cond, rest.th, rest.el
	return n
}

// genLoop emits the definition of the loop function (once)
func (t *fnTrans) genLoop(l *loopInfo) {
	if l.done {
		return
	}
	if l.busy {
		fail("internal: loop at block %d entered twice", l.header.Index)
	}
	l.busy = true
	if len(t.dict) > 0 || t.abstract > 0 {
		fail("loop in a generic function")
	}
	// the exit tuple
	var types_ []string
	if l.exit != nil {
		for _, phi := range phisOf(l.exit) {
			fromLoop := false
			for _, p := range l.exit.Preds {
				if l.blocks[p] {
					fromLoop = true
				}
			}
			if fromLoop {
				l.comps = append(l.comps, phi)
			}
		}
		l.comps = append(l.comps, l.liveOut...)
		for _, v := range l.liveIn {
			if a, isA := v.(*ssa.Alloc); isA {
				l.comps = append(l.comps, a) // the contents of a local variable in memory when the loop is left
			}
		}
		for _, c := range l.comps {
			if a, isA := c.(*ssa.Alloc); isA {
				types_ = append(types_, leanType(allocElem(a)))
			} else {
				types_ = append(types_, leanType(c.Type()))
			}
		}
	}
	switch len(types_) {
	case 0:
		l.sigmaTyp = "Unit"
	default:
		l.sigmaTyp = strings.Join(types_, " × ")
	}
	e := &env{vals: map[ssa.Value]val{}, mem: map[*ssa.Alloc]val{}}
	var params []string
	used := map[string]bool{"fuel": true}
	fresh := func(n string) string {
		for used[n] {
			n += "'"
		}
		used[n] = true
		return n
	}
	for _, v := range l.liveIn {
		if a, isAlloc := v.(*ssa.Alloc); isAlloc {
			if a.Heap {
				fail("a local variable escapes (%s)", a.Comment)
			}
			n := fresh("m_" + v.Name())
			params = append(params, fmt.Sprintf("(%s : %s)", n, leanType(allocElem(a))))
			e.mem[a] = namedOfType(n, allocElem(a))
			e.vals[a] = val{k: kPtr, alloc: a, fidx: -1}
			continue
		}
		n := fresh(ident(v.Name()))
		params = append(params, fmt.Sprintf("(%s : %s)", n, leanType(v.Type())))
		e.vals[v] = namedOfType(n, v.Type())
	}
	params = append(params, "(fuel : Nat)")
	for _, phi := range phisOf(l.header) {
		n := fresh(ident(phi.Name()))
		params = append(params, fmt.Sprintf("(%s : %s)", n, leanType(phi.Type())))
		e.vals[phi] = namedOfType(n, phi.Type())
	}
	saved := t.rg
	t.rg = &region{lp: l}
	t.regionPostDominators(t.rg, l.header)
	body := tidy(render(t.walk(l.header, -1, e, nil, true), 2))
	t.rg = saved
	var resT string
	switch l.kind() {
	case lkExit:
		resT = "Option (" + l.sigmaTyp + ")"
	case lkRet:
		resT = "Option (" + t.resT + ")"
	default:
		resT = "Option ((" + t.resT + ") ⊕ (" + l.sigmaTyp + "))"
	}
	what := "exit"
	switch l.kind() {
	case lkRet:
		what = "the function returns"
	case lkBoth:
		what = "`.inl r`: the function returns r; `.inr`: exit"
	}
	t.defs = append(t.defs, fmt.Sprintf("/-- loop %d of `%s` (%s; `none`: out of fuel, or a run-time panic) -/\n@[gen_loop] def %s %s : %s :=\n  match fuel with\n  | 0 => none\n  | fuel + 1 =>\n%s\n",
		l.ord, t.g.names[t.f], what, l.name, strings.Join(params, " "), resT, body))
	l.done, l.busy = true, false
}

var _ = types.Typ
