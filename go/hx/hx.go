// Package hx holds the shared plumbing of the correspondence harnesses: a deterministic PRNG (every random choice
// of a run derives from one SplitMix64 state), the line protocol, hex helpers and panic capture.
package hx

import (
	"bufio"
	"encoding/hex"
	"fmt"
	"os"
	"strconv"
	"strings"
)

// Rng is SplitMix64.
type Rng struct{ s uint64 }

// NewRng creates a generator from a seed.
func NewRng(seed uint64) *Rng {
	// hash the seed so that consecutive seeds give unrelated streams (seed and seed+1 would otherwise be the same
	// SplitMix64 sequence shifted by one draw)
	r := &Rng{s: seed ^ 0x6A09E667F3BCC909}
	r.s = r.U64() ^ (seed * 0xD6E8FEB86659FD93)
	r.s = r.U64()
	return r
}

// U64 returns the next 64 random bits.
func (r *Rng) U64() uint64 {
	r.s += 0x9E3779B97F4A7C15
	z := r.s
	z = (z ^ (z >> 30)) * 0xBF58476D1CE4E5B9
	z = (z ^ (z >> 27)) * 0x94D049BB133111EB
	return z ^ (z >> 31)
}

// Intn returns a value in [0,n).
func (r *Rng) Intn(n int) int {
	if n <= 0 {
		return 0
	}
	return int(r.U64() % uint64(n))
}

// Range returns a value in [lo,hi].
func (r *Rng) Range(lo, hi int) int { return lo + r.Intn(hi-lo+1) }

// Bool returns a fair coin.
func (r *Rng) Bool() bool { return r.U64()&1 == 1 }

// Chance is true with probability num/den.
func (r *Rng) Chance(num, den int) bool { return r.Intn(den) < num }

// Pick returns one of the choices.
func Pick[T any](r *Rng, xs []T) T { return xs[r.Intn(len(xs))] }

// Fork derives an independent generator (so that sub-streams do not shift when one of them changes length).
func (r *Rng) Fork() *Rng { return &Rng{s: r.U64()} }

// Hex encodes bytes; the empty string is "-".
func Hex(b []byte) string {
	if len(b) == 0 {
		return "-"
	}
	return hex.EncodeToString(b)
}

// UnHex decodes the output of Hex.
func UnHex(s string) []byte {
	if s == "-" {
		return nil
	}
	b, err := hex.DecodeString(s)
	if err != nil {
		panic("hx: bad hex " + s)
	}
	return b
}

// Atoi parses an int or panics (ops files are machine generated).
func Atoi(s string) int {
	v, err := strconv.Atoi(s)
	if err != nil {
		panic("hx: bad int " + s)
	}
	return v
}

// Area is one line-protocol endpoint.
type Area interface {
	// Gen emits n operations (more lines are allowed when histories need resets).
	Gen(r *Rng, n int, tier string, emit func(string))
	// Run executes one line against the real code and returns the canonical output line.
	Run(line string) string
}

// Safe runs f and turns a Go panic into the token "panic" (with a kind suffix from kind, if not nil).
func Safe(f func() string) (out string) {
	defer func() {
		if r := recover(); r != nil {
			out = "panic"
		}
	}()
	return f()
}

// SafeMsg is like Safe but keeps a short canonical message.
func SafeMsg(f func() string) (out string) {
	defer func() {
		if r := recover(); r != nil {
			out = "panic:" + strings.ReplaceAll(fmt.Sprint(r), " ", "_")
		}
	}()
	return f()
}

// Main dispatches `gen <area> <seed> <n> <tier>` and `run <area>`.
func Main(areas map[string]Area) {
	if len(os.Args) < 3 {
		fmt.Fprintln(os.Stderr, "usage: gen <area> <seed> <n> <tier> | run <area>")
		os.Exit(2)
	}
	a, ok := areas[os.Args[2]]
	if !ok {
		fmt.Fprintln(os.Stderr, "unknown area", os.Args[2])
		os.Exit(2)
	}
	w := bufio.NewWriterSize(os.Stdout, 1<<16)
	defer w.Flush()
	flushEach := os.Getenv("HX_FLUSH") == "1"
	switch os.Args[1] {
	case "gen":
		seed, _ := strconv.ParseUint(os.Args[3], 10, 64)
		n := Atoi(os.Args[4])
		tier := "quick"
		if len(os.Args) > 5 {
			tier = os.Args[5]
		}
		a.Gen(NewRng(seed), n, tier, func(s string) { w.WriteString(s); w.WriteByte('\n') })
	case "run":
		sc := bufio.NewScanner(os.Stdin)
		sc.Buffer(make([]byte, 1<<20), 1<<28)
		for sc.Scan() {
			line := sc.Text()
			out := Safe(func() string { return a.Run(line) })
			w.WriteString(out)
			w.WriteByte('\n')
			if flushEach {
				w.Flush()
			}
		}
	default:
		fmt.Fprintln(os.Stderr, "unknown mode", os.Args[1])
		os.Exit(2)
	}
}
