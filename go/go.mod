module verifharness

go 1.24.2

require (
	github.com/richardwilkes/toolbox v0.0.0
	gopkg.in/yaml.v3 v3.0.1
)

require golang.org/x/exp v0.0.0-20250305212735-054e65f0b394

require (
	github.com/pkg/term v1.1.0 // indirect
	golang.org/x/sys v0.32.0 // indirect
)

replace github.com/richardwilkes/toolbox => /repo
