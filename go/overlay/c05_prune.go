//go:build verif

package poly

import "golang.org/x/exp/constraints"

// VerifNonContributing exposes the unexported bounding-box pruning step of the clipper
// (Polygon.identifyNonContributingContours, called at the head of Polygon.construct) to the C05 harness: the flags it
// returns for the subject and clip contours are validated by the Lean check EO.pruneOK (overlay file, not part of /repo).
func VerifNonContributing[T constraints.Float](op string, subj, clip Polygon[T]) (subjNC, clipNC []bool) {
	var o clipOp
	switch op {
	case "u":
		o = unionOp
	case "i":
		o = intersectOp
	case "s":
		o = subtractOp
	case "x":
		o = xorOp
	default:
		panic("bad op")
	}
	return subj.identifyNonContributingContours(o, clip)
}
