//go:build verif

package rate

import (
	"strconv"
	"strings"
)

// VerifDump (C16 harness; injected with -overlay, not part of the repository) prints the state of the limiter tree the
// handles belong to, read under the controller's lock: for every handle its capacity, used (open limiters only: what a
// closed limiter's counter holds is nobody's business), last, closed flag, and the waiting queue in order as
// handle:amount (requests on closed limiters and the harness' own sentinel requests are left out: when a closed
// limiter's requests are failed — at Close or at the next tick — is not fixed by the property; the answers are
// compared where they arrive).
func VerifDump(handles []Limiter) string {
	if len(handles) == 0 {
		return ""
	}
	root, ok := handles[0].(*limiter)
	if !ok {
		return ""
	}
	idx := make(map[*limiter]int, len(handles))
	lims := make([]*limiter, len(handles))
	for i, h := range handles {
		l, ok2 := h.(*limiter)
		if !ok2 {
			return ""
		}
		lims[i] = l
		idx[l] = i
	}
	c := root.controller
	c.lock.RLock()
	defer c.lock.RUnlock()
	var sb strings.Builder
	field := func(name string, f func(*limiter) string) {
		sb.WriteString(name)
		for i, l := range lims {
			if i > 0 {
				sb.WriteByte(',')
			}
			sb.WriteString(f(l))
		}
	}
	field("c=", func(l *limiter) string { return strconv.Itoa(l.capacity) })
	field(" u=", func(l *limiter) string {
		if l.closed {
			return "-"
		}
		return strconv.Itoa(l.used)
	})
	field(" l=", func(l *limiter) string { return strconv.Itoa(l.last) })
	field(" x=", func(l *limiter) string {
		if l.closed {
			return "1"
		}
		return "0"
	})
	sb.WriteString(" q=")
	first := true
	for _, req := range c.waiting {
		i, known := idx[req.limiter]
		if !known || req.limiter.closed {
			continue
		}
		if !first {
			sb.WriteByte(',')
		}
		first = false
		sb.WriteString(strconv.Itoa(i))
		sb.WriteByte(':')
		sb.WriteString(strconv.Itoa(req.amount))
	}
	return sb.String()
}
