//go:build verif

package rotation

import (
	"os"
	"reflect"
	"unsafe"
)

// VerifFile returns the *os.File the rotator currently holds (nil: none).  C12 harness only; injected with -overlay, not
// part of the repository.  The private field is found BY TYPE through reflection, so renaming or regrouping the fields
// of Rotator does not matter; a Rotator without exactly one *os.File field yields nil and ok=false (the white-box area
// is then skipped: it is about a failing descriptor, the property does not constrain the representation).
func (r *Rotator) VerifFile() (f *os.File, ok bool) {
	v := reflect.ValueOf(r).Elem()
	want := reflect.TypeOf((*os.File)(nil))
	found := 0
	for i := 0; i < v.NumField(); i++ {
		if fv := v.Field(i); fv.Type() == want {
			f = *(**os.File)(unsafe.Pointer(fv.UnsafeAddr()))
			found++
		}
	}
	if found != 1 {
		return nil, false
	}
	return f, true
}
