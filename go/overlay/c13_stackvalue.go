//go:build verif

package errs

// VerifStackValue (C13 harness; injected with -overlay, not part of the repository) hands out the unexported value
// that createRecord puts under StackTraceKey — `&stackValue{err: se}` — over ANY StackError, so that the harness can let
// stackValue.LogValue / StackError run on scripted stack texts (the text of a real *Error holds only frame lines).
func VerifStackValue(se StackError) any { return &stackValue{err: se} }
