//go:build verif

package xmath

// VerifCountSetBits exposes the unexported SWAR population count to the C08 harness (overlay file, not part of /repo).
func VerifCountSetBits(x uint64) int { return countSetBits(x) }
