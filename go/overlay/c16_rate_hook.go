//go:build verif

package rate

// VerifSentinel (C16 harness; injected with -overlay, not part of the repository) appends a request to the
// controller's waiting queue whose limiter is a detached, already closed dummy.  The ticker goroutine answers it at
// its next tick (or at the final drain) without touching the limiter tree, so its answer marks "a tick has been
// processed up to the end of the queue as it was when the sentinel was injected".
func VerifSentinel(l Limiter) <-chan error {
	lim, ok := l.(*limiter)
	if !ok {
		return nil
	}
	done := make(chan error, 1)
	c := lim.controller
	c.lock.Lock()
	c.waiting = append(c.waiting, &request{limiter: &limiter{controller: c, closed: true}, amount: 1, done: done})
	c.lock.Unlock()
	return done
}

// VerifLock takes the controller's lock on behalf of the harness (area `window`: the harness holds the lock across a
// tick so that the ticker goroutine and the calls under test queue up behind it), VerifUnlock releases it.
func VerifLock(l Limiter) { l.(*limiter).controller.lock.Lock() }

// VerifUnlock releases the lock taken by VerifLock.
func VerifUnlock(l Limiter) { l.(*limiter).controller.lock.Unlock() }

// VerifTickConsumed reports whether the ticker's channel is empty, i.e. a tick that has fired has been received by the
// ticker goroutine (which is then blocked on the lock the harness holds).
func VerifTickConsumed(l Limiter) bool { return len(l.(*limiter).controller.ticker.C) == 0 }

// VerifRLock takes the controller's lock in READ mode on behalf of the harness (lines `rwin`: the harness is a reader
// itself; the read-only calls made meanwhile must return, a writing call must wait), VerifRUnlock releases it.
func VerifRLock(l Limiter) { l.(*limiter).controller.lock.RLock() }

// VerifRUnlock releases the read lock taken by VerifRLock.
func VerifRUnlock(l Limiter) { l.(*limiter).controller.lock.RUnlock() }
