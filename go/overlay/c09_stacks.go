//go:build verif

package eval

import (
	"encoding/hex"
	"strings"
)

// White-box view for the C09 check (injected with -overlay, never part of /repo): the two stacks an Evaluator holds
// between calls, top first, in the notation of the Lean driver (`D <operands> | <operators>`).

func verifHex(s string) string {
	if s == "" {
		return "-"
	}
	return hex.EncodeToString([]byte(s))
}

func verifOp(o *Operator) string {
	if o == nil {
		return "_"
	}
	return verifHex(o.Symbol)
}

func verifNode(n any) string {
	switch x := n.(type) {
	case nil:
		return "N"
	case *expressionOperand:
		return "O " + verifOp(x.unaryOp) + " " + verifHex(x.value)
	case *parsedFunction:
		return "F " + verifOp(x.unaryOp) + " " + verifHex(x.args)
	case *expressionTree:
		return "T " + verifOp(x.op) + " " + verifOp(x.unaryOp) + " " + verifNode(x.left) + " " + verifNode(x.right)
	}
	return "?"
}

// VerifStacks renders operandStack and operatorStack, top of each stack first.
func (e *Evaluator) VerifStacks() string {
	var a, b []string
	for i := len(e.operandStack) - 1; i >= 0; i-- {
		a = append(a, verifNode(e.operandStack[i]))
	}
	for i := len(e.operatorStack) - 1; i >= 0; i-- {
		b = append(b, verifOp(e.operatorStack[i].op)+" "+verifOp(e.operatorStack[i].unaryOp))
	}
	return "D " + strings.Join(a, " ; ") + " | " + strings.Join(b, " ; ")
}
