//go:build verif

// White-box accessors for the C02 correspondence harness (injected with `go build -overlay`, never part of /repo).
package num

// VerifC02Consts returns the float64 range constants the conversion functions compare against.
func VerifC02Consts() []float64 {
	return []float64{
		maxUint64Float, maxRepresentableUint64Float, maxRepresentableUint128Float, wrapUint64Float,
		minInt128Float, maxInt128Float,
	}
}
