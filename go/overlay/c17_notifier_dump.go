//go:build verif

package notifier

import (
	"encoding/hex"
	"fmt"
	"sort"
	"strings"
)

// VerifDump renders the three maps, the current batch, the level and the enabled flag canonically (C17 harness;
// injected with -overlay, not part of the repository). idOf names a target.
func (n *Notifier) VerifDump(idOf func(Target) int) string {
	n.lock.RLock()
	defer n.lock.RUnlock()
	var prod []string
	for name, set := range n.productionMap {
		if len(set) == 0 {
			continue // an empty set is not a registration (whether it is deleted or kept is representation)
		}
		ids := make([]int, 0, len(set))
		pr := make(map[int]int, len(set))
		for t, p := range set {
			id := idOf(t)
			ids = append(ids, id)
			pr[id] = p
		}
		sort.Ints(ids)
		parts := make([]string, len(ids))
		for i, id := range ids {
			parts[i] = fmt.Sprintf("%d:%d", id, pr[id])
		}
		prod = append(prod, hex.EncodeToString([]byte(name))+"="+strings.Join(parts, ","))
	}
	sort.Strings(prod)
	var tids []int
	nm := make(map[int][]string)
	for t, names := range n.nameMap {
		if len(names) == 0 {
			continue
		}
		id := idOf(t)
		tids = append(tids, id)
		var l []string
		for name := range names {
			l = append(l, hex.EncodeToString([]byte(name)))
		}
		sort.Strings(l)
		nm[id] = l
	}
	sort.Ints(tids)
	nameL := make([]string, len(tids))
	for i, id := range tids {
		nameL[i] = fmt.Sprintf("%d=%s", id, strings.Join(nm[id], ","))
	}
	ints := func(l []int) string {
		sort.Ints(l)
		s := make([]string, len(l))
		for i, v := range l {
			s[i] = fmt.Sprint(v)
		}
		return strings.Join(s, ",")
	}
	var b, c []int
	for t := range n.batchTargets {
		b = append(b, idOf(t))
	}
	for _, t := range n.currentBatch {
		c = append(c, idOf(t))
	}
	e := 0
	if n.enabled {
		e = 1
	}
	return fmt.Sprintf("P[%s] N[%s] B[%s] C[%s] L%d E%d", strings.Join(prod, " "), strings.Join(nameL, " "), ints(b), ints(c),
		n.batchLevel, e)
}
