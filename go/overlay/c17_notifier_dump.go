//go:build verif

package notifier

import (
	"encoding/hex"
	"fmt"
	"reflect"
	"sort"
	"strings"
	"unsafe"
)

// VerifDump renders the registry of a notifier canonically: the name -> target -> priority map, the target -> names map,
// the batch-target set, the current batch, the batch level and the enabled flag (C17 harness; injected with -overlay,
// not part of the repository).  idOf names a target.
//
// The private fields are found BY TYPE through reflection, not by name, so renaming or regrouping them does not matter;
// if the representation is not recognisable (a refactoring changed the types) the result is "" and the white-box
// comparisons are skipped -- they are about representation, the property does not constrain it.
// No lock is taken: the harness calls this only at quiescent points (after joining every goroutine).
func (n *Notifier) VerifDump(idOf func(Target) int) string {
	var (
		prodMap  map[string]map[Target]int
		nameMap  map[Target]map[string]bool
		batchSet map[BatchTarget]bool
		current  []BatchTarget
		level    int
		enabled  bool
		found    [6]int
	)
	var walk func(v reflect.Value)
	walk = func(v reflect.Value) {
		for i := 0; i < v.NumField(); i++ {
			f := v.Field(i)
			p := reflect.NewAt(f.Type(), unsafe.Pointer(f.UnsafeAddr())).Interface()
			switch x := p.(type) {
			case *map[string]map[Target]int:
				prodMap = *x
				found[0]++
			case *map[Target]map[string]bool:
				nameMap = *x
				found[1]++
			case *map[BatchTarget]bool:
				batchSet = *x
				found[2]++
			case *[]BatchTarget:
				current = *x
				found[3]++
			case *int:
				level = *x
				found[4]++
			case *bool:
				enabled = *x
				found[5]++
			default:
				if f.Kind() == reflect.Struct && f.Type().PkgPath() == reflect.TypeOf(*n).PkgPath() {
					walk(f)
				}
			}
		}
	}
	walk(reflect.ValueOf(n).Elem())
	for _, c := range found {
		if c != 1 {
			return ""
		}
	}
	var prod []string
	for name, set := range prodMap {
		if len(set) == 0 {
			continue // an empty set is not a registration (whether it is deleted or kept is representation)
		}
		ids := make([]int, 0, len(set))
		pr := make(map[int]int, len(set))
		for t, p := range set {
			id := idOf(t)
			ids = append(ids, id)
			pr[id] = p
		}
		sort.Ints(ids)
		parts := make([]string, len(ids))
		for i, id := range ids {
			parts[i] = fmt.Sprintf("%d:%d", id, pr[id])
		}
		prod = append(prod, hex.EncodeToString([]byte(name))+"="+strings.Join(parts, ","))
	}
	sort.Strings(prod)
	var tids []int
	nm := make(map[int][]string)
	for t, names := range nameMap {
		if len(names) == 0 {
			continue
		}
		id := idOf(t)
		tids = append(tids, id)
		var l []string
		for name := range names {
			l = append(l, hex.EncodeToString([]byte(name)))
		}
		sort.Strings(l)
		nm[id] = l
	}
	sort.Ints(tids)
	nameL := make([]string, len(tids))
	for i, id := range tids {
		nameL[i] = fmt.Sprintf("%d=%s", id, strings.Join(nm[id], ","))
	}
	ints := func(l []int) string {
		sort.Ints(l)
		s := make([]string, len(l))
		for i, v := range l {
			s[i] = fmt.Sprint(v)
		}
		return strings.Join(s, ",")
	}
	var b, c []int
	for t := range batchSet {
		b = append(b, idOf(t))
	}
	for _, t := range current {
		c = append(c, idOf(t))
	}
	e := 0
	if enabled {
		e = 1
	}
	return fmt.Sprintf("P[%s] N[%s] B[%s] C[%s] L%d E%d", strings.Join(prod, " "), strings.Join(nameL, " "), ints(b), ints(c),
		level, e)
}
