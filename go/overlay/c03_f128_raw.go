//go:build verif

// White-box accessors for the C03 correspondence harness (injected with `go build -overlay`, never part of /repo).
package f128

import (
	"github.com/richardwilkes/toolbox/xmath/fixed"
	"github.com/richardwilkes/toolbox/xmath/num"
)

// VerifC03FromRaw builds a value from its raw scaled 128-bit integer.
func VerifC03FromRaw[T fixed.Dx](d num.Int128) Int[T] { return Int[T]{data: d} }

// VerifC03Raw returns the raw scaled 128-bit integer.
func VerifC03Raw[T fixed.Dx](f Int[T]) num.Int128 { return f.data }
