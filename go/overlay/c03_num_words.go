//go:build verif

// White-box word access for the C03 harness, so that reading / writing a raw 128-bit value does not go through any
// exported helper of the library (injected with `go build -overlay`, never part of /repo).
package num

// VerifC03Words returns the two words of the value.
func VerifC03Words(i Int128) (hi, lo uint64) { return i.hi, i.lo }

// VerifC03FromWords builds a value from its two words.
func VerifC03FromWords(hi, lo uint64) Int128 { return Int128{hi: hi, lo: lo} }
