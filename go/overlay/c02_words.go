//go:build verif

// White-box word access for the C02 harness, so that building a value from its two words and reading them back does
// not go through any exported helper of the library (injected with `go build -overlay`, never part of /repo).
package num

// VerifC02U builds a Uint128 from its two words.
func VerifC02U(hi, lo uint64) Uint128 { return Uint128{hi: hi, lo: lo} }

// VerifC02I builds an Int128 from its two words.
func VerifC02I(hi, lo uint64) Int128 { return Int128{hi: hi, lo: lo} }

// VerifC02WordsU returns the two words of the value.
func VerifC02WordsU(u Uint128) (hi, lo uint64) { return u.hi, u.lo }

// VerifC02WordsI returns the two words of the value.
func VerifC02WordsI(i Int128) (hi, lo uint64) { return i.hi, i.lo }
