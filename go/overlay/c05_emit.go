//go:build verif

package poly

import (
	"github.com/richardwilkes/toolbox/xmath/geom"
	"golang.org/x/exp/constraints"
)

// VerifGenerate exposes the contour emission step of the clipper (polygonNode.generate, the last stage of
// Polygon.construct) to the C05 harness: one output-polygon node per chain (its own proxy, the vertex chain hanging off
// `left`, `right` at its last vertex), linked in the given order; inactive nodes are skipped by generate.  The polygon it
// returns is validated by the Lean check against the chains (overlay file, not part of /repo).
func VerifGenerate[T constraints.Float](chains [][]geom.Point[T], active []bool) Polygon[T] {
	var head, tail *polygonNode[T]
	for i, ch := range chains {
		n := &polygonNode[T]{active: active[i]}
		n.proxy = n
		var last *vertexNode[T]
		for _, pt := range ch {
			v := &vertexNode[T]{pt: pt}
			if last == nil {
				n.left = v
			} else {
				last.next = v
			}
			last = v
		}
		n.right = last
		if tail == nil {
			head = n
		} else {
			tail.next = n
		}
		tail = n
	}
	if head == nil {
		return Polygon[T]{}
	}
	return head.generate()
}

// VerifScanBeamTable exposes the scan-beam tree (scanBeamTree.add / buildScanBeamTable): the ordinates are added in the
// given order and the table the sweep iterates over is returned.
func VerifScanBeamTable[T constraints.Float](ys []T) []T {
	t := &scanBeamTree[T]{}
	for _, y := range ys {
		t.add(y)
	}
	return t.buildScanBeamTable()
}

// VerifLocalMinima exposes the local minima table the clipper builds for ONE polygon (buildLocalMinimaTable with no
// contour pruned, as the subject of the given operation): the ordinates of the local minima in list order, for each of
// them its bounds and for each bound its edges as (bot.X, bot.Y, top.X, top.Y); and the scan-beam table filled on the way.
func VerifLocalMinima[T constraints.Float](p Polygon[T], op string) (ys []T, bounds [][][][4]T, table []T) {
	var o clipOp
	switch op {
	case "u":
		o = unionOp
	case "i":
		o = intersectOp
	case "s":
		o = subtractOp
	case "x":
		o = xorOp
	default:
		panic("bad op")
	}
	sbTree := &scanBeamTree[T]{}
	lmt := buildLocalMinimaTable(nil, sbTree, p, make([]bool, len(p)), subject, o)
	for n := lmt; n != nil; n = n.next {
		ys = append(ys, n.y)
		var bs [][][4]T
		for b := n.firstBound; b != nil; b = b.nextBound {
			var es [][4]T
			for e := b; e != nil; e = e.successor {
				es = append(es, [4]T{e.bot.X, e.bot.Y, e.top.X, e.top.Y})
			}
			bs = append(bs, es)
		}
		bounds = append(bounds, bs)
	}
	return ys, bounds, sbTree.buildScanBeamTable()
}
