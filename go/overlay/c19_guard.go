//go:build verif

package tar

import "github.com/richardwilkes/toolbox/xio/fs/internal"

// VerifEnsureNoSymlinks hands the guard both extractors call (xio/fs/internal is not importable from outside xio/fs) to
// the C19 harness: area `guard` compares it directly with Ex.ensureNoSymlinksR on (root, path) pairs, pairs whose path
// is NOT below the root included (filepath.Rel then yields `..` parts).  Injected with -overlay, not part of the
// repository; if the guard's signature changes the harness is built without it and the area is skipped.
func VerifEnsureNoSymlinks(root, path string) error { return internal.EnsureNoSymlinks(root, path) }
