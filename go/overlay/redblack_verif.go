//go:build verif

// White-box observation of the red-black tree for the C06 correspondence check. This file is injected into package
// redblack with `go build -overlay`; it reads the unexported fields and never writes them.
//
// The accessor block below is the ONLY place that names unexported identifiers of the package. vlib/C06.py reads the
// struct declarations of the working tree and rewrites this block (and the node type name) when a refactoring has
// renamed them, so that a pure renaming does not break the check; if the roles of the fields cannot be recognised the
// check falls back to black-box observation (go/cmd/c06/blackbox.go).
package redblack

import (
	"fmt"
	"math/bits"
	"strings"
)

// ---- accessor block (rewritten by vlib/C06.py) ----
func verifRoot[K, V any](t *Tree[K, V]) *node[K, V]         { return t.root }
func verifCount[K, V any](t *Tree[K, V]) int                { return t.count }
func verifCompare[K, V any](t *Tree[K, V]) func(a, b K) int { return t.compare }
func verifParent[K, V any](n *node[K, V]) *node[K, V]       { return n.parent }
func verifLeft[K, V any](n *node[K, V]) *node[K, V]         { return n.left }
func verifRight[K, V any](n *node[K, V]) *node[K, V]        { return n.right }
func verifBlack[K, V any](n *node[K, V]) bool               { return n.black }
func verifKey[K, V any](n *node[K, V]) K                    { return n.key }
func verifValue[K, V any](n *node[K, V]) V                  { return n.value }

// ---- end of accessor block ----

func verifRed[K, V any](n *node[K, V]) bool { return n != nil && !verifBlack(n) }

// VerifDump returns the pre-order dump `(colour key:value left right)` with `.` for nil, followed by the
// parent-link consistency bit.
func (t *Tree[K, V]) VerifDump() string {
	var sb strings.Builder
	ok := true
	if verifRoot(t) != nil && verifParent(verifRoot(t)) != nil {
		ok = false
	}
	var walk func(n *node[K, V])
	walk = func(n *node[K, V]) {
		if n == nil {
			sb.WriteByte('.')
			return
		}
		if verifLeft(n) != nil && verifParent(verifLeft(n)) != n {
			ok = false
		}
		if verifRight(n) != nil && verifParent(verifRight(n)) != n {
			ok = false
		}
		sb.WriteByte('(')
		if verifBlack(n) {
			sb.WriteByte('b')
		} else {
			sb.WriteByte('r')
		}
		fmt.Fprintf(&sb, "%v:%v ", verifKey(n), verifValue(n))
		walk(verifLeft(n))
		sb.WriteByte(' ')
		walk(verifRight(n))
		sb.WriteByte(')')
	}
	walk(verifRoot(t))
	if ok {
		sb.WriteString(" parents=ok")
	} else {
		sb.WriteString(" parents=BAD")
	}
	return sb.String()
}

// VerifCheck checks the red-black invariants directly on the real tree: root black, no red node has a red child,
// equal black height on every path, height <= 2*floor(log2(n+1)), search-tree order with respect to the compare function (in-order sequence is
// non-decreasing), count == number of nodes, parent links consistent. Returns "ok" or a description.
func (t *Tree[K, V]) VerifCheck() string {
	if verifRoot(t) == nil {
		if verifCount(t) != 0 {
			return fmt.Sprintf("FAIL count=%d on an empty tree", verifCount(t))
		}
		return "ok"
	}
	if !verifBlack(verifRoot(t)) {
		return "FAIL root is red"
	}
	if verifParent(verifRoot(t)) != nil {
		return "FAIL root has a parent"
	}
	problem := ""
	nodes := 0
	var prev *node[K, V]
	height, depth := 0, 0
	var walk func(n *node[K, V]) int
	walk = func(n *node[K, V]) int {
		if n == nil || problem != "" {
			return 1
		}
		nodes++
		depth++
		if depth > height {
			height = depth
		}
		defer func() { depth-- }()
		if verifLeft(n) != nil && verifParent(verifLeft(n)) != n {
			problem = fmt.Sprintf("FAIL parent link of left child of %v", verifKey(n))
		}
		if verifRight(n) != nil && verifParent(verifRight(n)) != n {
			problem = fmt.Sprintf("FAIL parent link of right child of %v", verifKey(n))
		}
		if verifRed(n) && (verifRed(verifLeft(n)) || verifRed(verifRight(n))) {
			problem = fmt.Sprintf("FAIL red node %v has a red child", verifKey(n))
		}
		lh := walk(verifLeft(n))
		if prev != nil && verifCompare(t)(verifKey(prev), verifKey(n)) > 0 {
			problem = fmt.Sprintf("FAIL order: %v before %v", verifKey(prev), verifKey(n))
		}
		prev = n
		rh := walk(verifRight(n))
		if lh != rh && problem == "" {
			problem = fmt.Sprintf("FAIL black heights %d/%d below %v", lh, rh, verifKey(n))
		}
		if verifBlack(n) {
			return lh + 1
		}
		return lh
	}
	walk(verifRoot(t))
	if problem != "" {
		return problem
	}
	// the balance clause itself: height <= 2*floor(log2(n+1)) (implied by the colour invariants checked above)
	if limit := 2 * (bits.Len(uint(nodes+1)) - 1); height > limit {
		return fmt.Sprintf("FAIL height=%d limit=%d nodes=%d", height, limit, nodes)
	}
	if nodes != verifCount(t) {
		return fmt.Sprintf("FAIL count=%d nodes=%d", verifCount(t), nodes)
	}
	return "ok"
}
