//go:build verif

// White-box observation of the red-black tree for the C06 correspondence check. This file is injected into package
// redblack with `go build -overlay`; it reads the unexported fields and never writes them.
package redblack

import (
	"fmt"
	"math/bits"
	"strings"
)

// VerifDump returns the pre-order dump `(colour key:value left right)` with `.` for nil, followed by the
// parent-link consistency bit.
func (t *Tree[K, V]) VerifDump() string {
	var sb strings.Builder
	ok := true
	if t.root != nil && t.root.parent != nil {
		ok = false
	}
	var walk func(n *node[K, V])
	walk = func(n *node[K, V]) {
		if n == nil {
			sb.WriteByte('.')
			return
		}
		if n.left != nil && n.left.parent != n {
			ok = false
		}
		if n.right != nil && n.right.parent != n {
			ok = false
		}
		sb.WriteByte('(')
		if n.black {
			sb.WriteByte('b')
		} else {
			sb.WriteByte('r')
		}
		fmt.Fprintf(&sb, "%v:%v ", n.key, n.value)
		walk(n.left)
		sb.WriteByte(' ')
		walk(n.right)
		sb.WriteByte(')')
	}
	walk(t.root)
	if ok {
		sb.WriteString(" parents=ok")
	} else {
		sb.WriteString(" parents=BAD")
	}
	return sb.String()
}

// VerifCheck checks the red-black invariants directly on the real tree: root black, no red node has a red child,
// equal black height on every path, height <= 2*floor(log2(n+1)), search-tree order with respect to the compare function (in-order sequence is
// non-decreasing), count == number of nodes, parent links consistent. Returns "ok" or a description.
func (t *Tree[K, V]) VerifCheck() string {
	if t.root == nil {
		if t.count != 0 {
			return fmt.Sprintf("FAIL count=%d on an empty tree", t.count)
		}
		return "ok"
	}
	if !t.root.black {
		return "FAIL root is red"
	}
	if t.root.parent != nil {
		return "FAIL root has a parent"
	}
	problem := ""
	nodes := 0
	var prev *node[K, V]
	height, depth := 0, 0
	var walk func(n *node[K, V]) int
	walk = func(n *node[K, V]) int {
		if n == nil || problem != "" {
			return 1
		}
		nodes++
		depth++
		if depth > height {
			height = depth
		}
		defer func() { depth-- }()
		if n.left != nil && n.left.parent != n {
			problem = fmt.Sprintf("FAIL parent link of left child of %v", n.key)
		}
		if n.right != nil && n.right.parent != n {
			problem = fmt.Sprintf("FAIL parent link of right child of %v", n.key)
		}
		if n.isRed() && (n.left.isRed() || n.right.isRed()) {
			problem = fmt.Sprintf("FAIL red node %v has a red child", n.key)
		}
		lh := walk(n.left)
		if prev != nil && t.compare(prev.key, n.key) > 0 {
			problem = fmt.Sprintf("FAIL order: %v before %v", prev.key, n.key)
		}
		prev = n
		rh := walk(n.right)
		if lh != rh && problem == "" {
			problem = fmt.Sprintf("FAIL black heights %d/%d below %v", lh, rh, n.key)
		}
		if n.black {
			return lh + 1
		}
		return lh
	}
	walk(t.root)
	if problem != "" {
		return problem
	}
	// the balance clause itself: height <= 2*floor(log2(n+1)) (implied by the colour invariants checked above)
	if limit := 2 * (bits.Len(uint(nodes+1)) - 1); height > limit {
		return fmt.Sprintf("FAIL height=%d limit=%d nodes=%d", height, limit, nodes)
	}
	if nodes != t.count {
		return fmt.Sprintf("FAIL count=%d nodes=%d", t.count, nodes)
	}
	return "ok"
}
