//go:build verif

package taskqueue

// VerifInCap (C15 harness; injected with -overlay, not part of the repository) replaces the input channel that New
// created by one of capacity n. Options run inside New before the dispatcher goroutine is started, so the real New,
// Submit, Shutdown and process are exercised unchanged; only the channel capacity (2*NumCPU by default, a parameter of
// the model) becomes small enough for a blocking Submit to be reachable by short scripts.
func VerifInCap(n int) Option {
	return func(q *Queue) { q.in = make(chan Task, n) }
}

// VerifFields (C15 harness, area cfg) reports what New made of its options: the number of workers, the depth, the
// capacity of the input channel and whether a recovery handler is installed.
func VerifFields(q *Queue) (workers, depth, inCap int, handler bool) {
	return q.workers, q.depth, cap(q.in), q.recoveryHandler != nil
}
