// Harness for C20 (natural ordering): drives txt.NaturalCmp / NaturalLess / SortStringsNatural*.
package main

import (
	"strconv"
	"strings"

	"github.com/richardwilkes/toolbox/txt"
	"verifharness/hx"
)

type area struct{}

// Byte classes the comparison distinguishes. The boundary bytes sit directly around '0'..'9', 'A'..'Z' and 'a'..'z',
// so an off-by-one in any of the range tests changes the result of some generated pair.
var (
	boundary = []byte{'/', ':', '@', '[', '`', '{', 'a', 'z', 'A', 'Z', '_', '^', ' ', '~', 0x7f, 0x80, 0xff, 0x00}
	nonASCII = []string{"\xc3\xa9", "\xc3\x89", "\xe2\x82\xac", "\xf0\x9f\x98\x80", "\xce\xb1"}
)

// letter returns one non-digit byte sequence.
func letter(r *hx.Rng) string {
	switch r.Intn(12) {
	case 0, 1, 2:
		return string([]byte{hx.Pick(r, boundary)})
	case 3:
		return hx.Pick(r, nonASCII)
	case 4: // any non-digit byte
		for {
			c := byte(r.U64())
			if c < '0' || c > '9' {
				return string([]byte{c})
			}
		}
	case 5, 6, 7:
		return string([]byte{byte('A' + r.Intn(26))})
	default:
		return string([]byte{byte('a' + r.Intn(26))})
	}
}

// digitRun returns zeros followed by significant digits; one run in eight is longer than a machine word.
func digitRun(r *hx.Rng) string {
	var sb strings.Builder
	if r.Chance(1, 3) {
		for i, n := 0, r.Range(1, 3); i < n; i++ {
			sb.WriteByte('0')
		}
	}
	n := r.Range(1, 5)
	switch r.Intn(8) {
	case 0:
		n = r.Range(17, 24)
	case 1:
		n = 0 // zeros only (or nothing at all)
	}
	for i := 0; i < n; i++ {
		if i == 0 {
			sb.WriteByte(byte('1' + r.Intn(9)))
		} else {
			sb.WriteByte(byte('0' + r.Intn(10)))
		}
	}
	return sb.String()
}

// genStr builds a multi-chunk string (digit runs and other bytes alternating at random), usually at most 24 bytes.
func genStr(r *hx.Rng) string {
	switch r.Intn(40) {
	case 0:
		return ""
	case 1: // unstructured bytes
		b := make([]byte, r.Intn(9))
		for i := range b {
			b[i] = byte(r.U64())
		}
		return string(b)
	case 2: // one very long number
		var sb strings.Builder
		for i, n := 0, r.Intn(4); i < n; i++ {
			sb.WriteByte('0')
		}
		for i, n := 0, r.Range(18, 40); i < n; i++ {
			sb.WriteByte(byte('0' + r.Intn(10)))
		}
		return sb.String()
	}
	var sb strings.Builder
	limit := r.Range(6, 24)
	if r.Chance(1, 4) {
		limit = r.Range(1, 6)
	}
	digits := r.Chance(2, 5)
	for k, chunks := 0, r.Range(1, 7); k < chunks && sb.Len() < limit; k++ {
		if digits {
			sb.WriteString(digitRun(r))
		} else {
			for i, n := 0, r.Range(1, 4); i < n; i++ {
				sb.WriteString(letter(r))
			}
		}
		if r.Chance(4, 5) { // mostly alternate, sometimes two runs of the same kind in a row (they merge)
			digits = !digits
		}
	}
	s := sb.String()
	if len(s) > 26 {
		s = s[:26]
	}
	return s
}

func isDig(c byte) bool { return c >= '0' && c <= '9' }
func isLetter(c byte) bool {
	return c >= 'a' && c <= 'z' || c >= 'A' && c <= 'Z'
}

// runs returns the start offsets of the maximal digit runs of s.
func runs(s string) []int {
	var out []int
	for i := 0; i < len(s); i++ {
		if isDig(s[i]) && (i == 0 || !isDig(s[i-1])) {
			out = append(out, i)
		}
	}
	return out
}

// flipCase flips the case of a random non-empty subset of the ASCII letters of s (s unchanged if it has none).
func flipCase(r *hx.Rng, s string) string {
	b := []byte(s)
	var idx []int
	for i, c := range b {
		if isLetter(c) {
			idx = append(idx, i)
		}
	}
	if len(idx) == 0 {
		return s
	}
	forced := idx[r.Intn(len(idx))]
	for _, i := range idx {
		if i == forced || r.Chance(1, 3) {
			b[i] ^= 0x20
		}
	}
	return string(b)
}

// zerosOfRun changes only the number of leading zeros of the k-th digit run.
func zerosOfRun(r *hx.Rng, s string) string {
	rs := runs(s)
	if len(rs) == 0 {
		return s
	}
	at := rs[r.Intn(len(rs))]
	if s[at] == '0' && at+1 < len(s) && isDig(s[at+1]) && r.Bool() {
		return s[:at] + s[at+1:] // one zero fewer
	}
	return s[:at] + strings.Repeat("0", r.Range(1, 3)) + s[at:]
}

// numberOfRun changes the value of one digit run: another digit of the same length, one digit more or fewer, ±1
// across a power of ten.
func numberOfRun(r *hx.Rng, s string) string {
	rs := runs(s)
	if len(rs) == 0 {
		return s
	}
	at := rs[r.Intn(len(rs))]
	end := at
	for end < len(s) && isDig(s[end]) {
		end++
	}
	run := []byte(s[at:end])
	switch r.Intn(5) {
	case 0: // other digit somewhere
		i := r.Intn(len(run))
		run[i] = byte('0' + (int(run[i]-'0')+r.Range(1, 9))%10)
	case 1: // one digit more at the end
		run = append(run, byte('0'+r.Intn(10)))
	case 2: // one digit more in front
		run = append([]byte{byte('1' + r.Intn(9))}, run...)
	case 3: // one digit fewer
		if len(run) > 1 {
			run = run[:len(run)-1]
		} else {
			run[0] = byte('0' + (int(run[0]-'0')+1)%10)
		}
	default: // 9…9 -> 10…0
		for i := range run {
			run[i] = '9'
		}
		if r.Bool() {
			return s[:at] + "1" + strings.Repeat("0", len(run)) + s[end:]
		}
	}
	return s[:at] + string(run) + s[end:]
}

func anyByte(r *hx.Rng) string {
	if r.Chance(1, 3) {
		return string([]byte{byte('0' + r.Intn(10))})
	}
	return letter(r)
}

// related returns a string derived from a; kind says how. It differs from a unless kind == 0.
func related(r *hx.Rng, a string, kind int) string {
	b := a
	switch kind {
	case 0: // identical
		return a
	case 1: // only the case of letters
		b = flipCase(r, a)
	case 2: // only the leading zeros of one run
		b = zerosOfRun(r, a)
	case 3: // only the last byte
		if len(a) > 0 {
			last := a[len(a)-1]
			var c byte
			switch r.Intn(4) {
			case 0:
				c = last + 1
			case 1:
				c = last - 1
			case 2:
				c = last ^ 0x20
			default:
				c = anyByte(r)[0]
			}
			b = a[:len(a)-1] + string([]byte{c})
		}
	case 4: // proper prefix
		if len(a) > 0 {
			b = a[:r.Intn(len(a))]
		}
	case 5: // proper extension
		b = a + anyByte(r)
		if r.Chance(1, 3) {
			b += genStr(r)
		}
	case 6: // value of one number
		b = numberOfRun(r, a)
	case 7: // one byte replaced anywhere (digit <-> non-digit included)
		if len(a) > 0 {
			i := r.Intn(len(a))
			b = a[:i] + anyByte(r) + a[i+1:]
		}
	case 8: // one byte inserted or dropped
		if len(a) > 0 && r.Bool() {
			i := r.Intn(len(a))
			b = a[:i] + a[i+1:]
		} else {
			i := r.Intn(len(a) + 1)
			b = a[:i] + anyByte(r) + a[i:]
		}
	case 9: // case change plus one more edit: the folded comparison decides, not the tie-break
		b = related(r, flipCase(r, a), r.Range(2, 8))
	case 10: // common prefix, unrelated tails
		b = a[:r.Intn(len(a)+1)] + genStr(r)
	default: // unrelated
		b = genStr(r)
	}
	if b == a { // the edit was not applicable (no letter / no digit run / empty): make it an extension
		b = a + anyByte(r)
	}
	return b
}

// kinds and their weights (per 100): identical pairs stay rare.
var kindWeights = []int{2, 12, 12, 8, 6, 6, 12, 10, 8, 12, 6, 6}

func pickKind(r *hx.Rng) int {
	x := r.Intn(100)
	for k, w := range kindWeights {
		if x < w {
			return k
		}
		x -= w
	}
	return len(kindWeights) - 1
}

func genPair(r *hx.Rng) (string, string) {
	a := genStr(r)
	kind := pickKind(r)
	// make the targeted edit applicable
	switch kind {
	case 1, 9:
		if flipCase(r, a) == a {
			i := r.Intn(len(a) + 1)
			a = a[:i] + string([]byte{byte('a' + r.Intn(26))}) + a[i:]
		}
	case 2, 6:
		if len(runs(a)) == 0 {
			i := r.Intn(len(a) + 1)
			a = a[:i] + digitRun(r) + "7" + a[i:]
		}
	}
	b := related(r, a, kind)
	if r.Bool() {
		a, b = b, a
	}
	return a, b
}

// strings whose case folding differs between Unicode rules and NaturalCmp's ASCII-only rule
var nonASCIICased = []string{"\u00e9", "\u00c9", "\u00df", "\u1e9e", "\u03c3", "\u03a3", "\u03c2", "\u0131", "I", "i", "\u0130",
	"\u212a", "k", "K", "\u00e5", "\u212b", "\u00c5", "\xff", "\xc3", "\xe9"}

func (area) Gen(r *hx.Rng, n int, _ string, emit func(string)) {
	for i := 0; i < n; i++ {
		a, b := genPair(r)
		ci := strconv.Itoa(r.Intn(2))
		switch r.Intn(20) {
		case 0, 1:
			emit("less " + ci + " " + hx.Hex([]byte(a)) + " " + hx.Hex([]byte(b)))
		case 2:
			// slice lengths around the thresholds at which sort implementations switch strategy (12, 16/17, 32/33, 50+)
			k := r.Range(0, 9)
			switch r.Intn(6) {
			case 0:
				k = hx.Pick(r, []int{11, 12, 13, 15, 16, 17, 18, 31, 32, 33, 34})
			case 1:
				k = r.Range(20, 70)
			}
			parts := make([]string, 0, k)
			cur := a
			for j := 0; j < k; j++ {
				parts = append(parts, hx.Hex([]byte(cur)))
				switch {
				case r.Chance(1, 4):
					cur = genStr(r)
				case r.Chance(1, 6):
					// cased non-ASCII letters and other bytes on which Unicode and ASCII case folding differ
					cur = hx.Pick(r, nonASCIICased) + hx.Pick(r, []string{"a", "b", "A", "B", "1", "02", ""}) +
						hx.Pick(r, append(nonASCIICased, "", "z", "Z"))
				default:
					cur = related(r, cur, pickKind(r))
				}
			}
			op := "sorta"
			if r.Bool() {
				op = "sortd"
			}
			emit(strings.TrimSpace(op + " " + strings.Join(parts, " ")))
		default:
			emit("cmp " + ci + " " + hx.Hex([]byte(a)) + " " + hx.Hex([]byte(b)))
		}
	}
}

func (area) Run(line string) string {
	f := strings.Fields(line)
	if len(f) == 0 {
		return "bad-op"
	}
	switch f[0] {
	case "cmp":
		return strconv.Itoa(txt.NaturalCmp(string(hx.UnHex(f[2])), string(hx.UnHex(f[3])), f[1] == "1"))
	case "less":
		return strconv.FormatBool(txt.NaturalLess(string(hx.UnHex(f[2])), string(hx.UnHex(f[3])), f[1] == "1"))
	case "sorta", "sortd":
		in := make([]string, 0, len(f)-1)
		for _, w := range f[1:] {
			in = append(in, string(hx.UnHex(w)))
		}
		if f[0] == "sorta" {
			txt.SortStringsNaturalAscending(in)
		} else {
			txt.SortStringsNaturalDescending(in)
		}
		out := make([]string, len(in))
		for i, s := range in {
			out[i] = hx.Hex([]byte(s))
		}
		return strings.Join(out, " ")
	}
	return "bad-op"
}

func main() { hx.Main(map[string]hx.Area{"natsort": area{}}) }
