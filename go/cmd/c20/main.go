// Harness for C20 (natural ordering): drives txt.NaturalCmp / NaturalLess / SortStringsNatural*.
package main

import (
	"math/big"
	"runtime/debug"
	"sort"
	"strconv"
	"strings"
	"time"

	"github.com/richardwilkes/toolbox/txt"
	"verifharness/hx"
)

type area struct{}

// Byte classes the comparison distinguishes. The boundary bytes sit directly around '0'..'9', 'A'..'Z' and 'a'..'z',
// so an off-by-one in any of the range tests changes the result of some generated pair.
var (
	boundary = []byte{'/', ':', '@', '[', '`', '{', 'a', 'z', 'A', 'Z', '_', '^', ' ', '~', 0x7f, 0x80, 0xff, 0x00}
	nonASCII = []string{"\xc3\xa9", "\xc3\x89", "\xe2\x82\xac", "\xf0\x9f\x98\x80", "\xce\xb1"}
)

// letter returns one non-digit byte sequence.
func letter(r *hx.Rng) string {
	switch r.Intn(12) {
	case 0, 1, 2:
		return string([]byte{hx.Pick(r, boundary)})
	case 3:
		return hx.Pick(r, nonASCII)
	case 4: // any non-digit byte
		for {
			c := byte(r.U64())
			if c < '0' || c > '9' {
				return string([]byte{c})
			}
		}
	case 5, 6, 7:
		return string([]byte{byte('A' + r.Intn(26))})
	default:
		return string([]byte{byte('a' + r.Intn(26))})
	}
}

// magnitudes are the decimal values at which a numeric shortcut through a machine type goes wrong: 2^k and 10^k with
// their neighbours, the limits of int32/int64/uint64/float64-exact/uint128.
var magnitudes = func() []string {
	var out []string
	add := func(v *big.Int) {
		for d := int64(-1); d <= 1; d++ {
			out = append(out, new(big.Int).Add(v, big.NewInt(d)).String())
		}
	}
	for _, k := range []uint{7, 8, 15, 16, 31, 32, 53, 62, 63, 64, 65, 127, 128} {
		add(new(big.Int).Lsh(big.NewInt(1), k))
	}
	for _, k := range []int64{1, 2, 3, 9, 10, 18, 19, 20, 21, 24, 25, 38, 39} {
		add(new(big.Int).Exp(big.NewInt(10), big.NewInt(k), nil))
	}
	return out
}()

// digitRun returns zeros followed by significant digits; one run in four is at or beyond a machine word.
func digitRun(r *hx.Rng) string {
	var sb strings.Builder
	if r.Chance(1, 3) {
		for i, n := 0, r.Range(1, 3); i < n; i++ {
			sb.WriteByte('0')
		}
	}
	n := r.Range(1, 5)
	switch r.Intn(8) {
	case 0:
		n = r.Range(17, 25)
	case 1:
		n = 0 // zeros only (or nothing at all)
	case 2:
		sb.WriteString(hx.Pick(r, magnitudes))
		return sb.String()
	}
	for i := 0; i < n; i++ {
		if i == 0 {
			sb.WriteByte(byte('1' + r.Intn(9)))
		} else {
			sb.WriteByte(byte('0' + r.Intn(10)))
		}
	}
	return sb.String()
}

// genStr builds a multi-chunk string (digit runs and other bytes alternating at random), usually at most 24 bytes.
func genStr(r *hx.Rng) string {
	switch r.Intn(40) {
	case 0:
		return ""
	case 1: // unstructured bytes
		b := make([]byte, r.Intn(9))
		for i := range b {
			b[i] = byte(r.U64())
		}
		return string(b)
	case 2: // one very long number
		var sb strings.Builder
		for i, n := 0, r.Intn(4); i < n; i++ {
			sb.WriteByte('0')
		}
		for i, n := 0, r.Range(18, 40); i < n; i++ {
			sb.WriteByte(byte('0' + r.Intn(10)))
		}
		return sb.String()
	}
	var sb strings.Builder
	limit := r.Range(6, 24)
	if r.Chance(1, 4) {
		limit = r.Range(1, 6)
	}
	digits := r.Chance(2, 5)
	for k, chunks := 0, r.Range(1, 7); k < chunks && sb.Len() < limit; k++ {
		if digits {
			sb.WriteString(digitRun(r))
		} else {
			for i, n := 0, r.Range(1, 4); i < n; i++ {
				sb.WriteString(letter(r))
			}
		}
		if r.Chance(4, 5) { // mostly alternate, sometimes two runs of the same kind in a row (they merge)
			digits = !digits
		}
	}
	s := sb.String()
	if len(s) > 26 {
		s = s[:26]
	}
	return s
}

func isDig(c byte) bool { return c >= '0' && c <= '9' }
func isLetter(c byte) bool {
	return c >= 'a' && c <= 'z' || c >= 'A' && c <= 'Z'
}

// runs returns the start offsets of the maximal digit runs of s.
func runs(s string) []int {
	var out []int
	for i := 0; i < len(s); i++ {
		if isDig(s[i]) && (i == 0 || !isDig(s[i-1])) {
			out = append(out, i)
		}
	}
	return out
}

// flipCase flips the case of a random non-empty subset of the ASCII letters of s (s unchanged if it has none).
func flipCase(r *hx.Rng, s string) string {
	b := []byte(s)
	var idx []int
	for i, c := range b {
		if isLetter(c) {
			idx = append(idx, i)
		}
	}
	if len(idx) == 0 {
		return s
	}
	forced := idx[r.Intn(len(idx))]
	for _, i := range idx {
		if i == forced || r.Chance(1, 3) {
			b[i] ^= 0x20
		}
	}
	return string(b)
}

// zerosOfRun changes only the number of leading zeros of the k-th digit run.
func zerosOfRun(r *hx.Rng, s string) string {
	rs := runs(s)
	if len(rs) == 0 {
		return s
	}
	at := rs[r.Intn(len(rs))]
	if s[at] == '0' && at+1 < len(s) && isDig(s[at+1]) && r.Bool() {
		return s[:at] + s[at+1:] // one zero fewer
	}
	n := r.Range(1, 3)
	if r.Chance(1, 40) { // a zero COUNT that wraps a narrow counter
		n = hx.Pick(r, []int{15, 16, 17, 255, 256, 257, 300})
	}
	return s[:at] + strings.Repeat("0", n) + s[at:]
}

// wrapOfRun changes the value of one digit run by a multiple of 2^8, 2^16, 2^32, 2^63 or 2^64 (values that a
// fixed-width accumulator cannot tell apart).
func wrapOfRun(r *hx.Rng, s string) string {
	rs := runs(s)
	if len(rs) == 0 {
		return s
	}
	at := rs[r.Intn(len(rs))]
	end := at
	for end < len(s) && isDig(s[end]) {
		end++
	}
	nz := at
	for nz < end && s[nz] == '0' {
		nz++
	}
	v := new(big.Int)
	if nz < end {
		v.SetString(s[nz:end], 10)
	}
	step := new(big.Int).Lsh(big.NewInt(1), hx.Pick(r, []uint{8, 16, 32, 63, 64, 64, 64, 64}))
	step.Mul(step, big.NewInt(int64(r.Range(1, 3))))
	if v.Cmp(step) >= 0 && r.Bool() {
		v.Sub(v, step)
	} else {
		v.Add(v, step)
	}
	digits := v.String()
	if digits == "0" {
		digits = ""
	}
	return s[:at] + s[at:nz] + digits + s[end:]
}

// numberOfRun changes the value of one digit run: another digit of the same length, one digit more or fewer, ±1
// across a power of ten.
func numberOfRun(r *hx.Rng, s string) string {
	rs := runs(s)
	if len(rs) == 0 {
		return s
	}
	at := rs[r.Intn(len(rs))]
	end := at
	for end < len(s) && isDig(s[end]) {
		end++
	}
	run := []byte(s[at:end])
	switch r.Intn(5) {
	case 0: // other digit somewhere
		i := r.Intn(len(run))
		run[i] = byte('0' + (int(run[i]-'0')+r.Range(1, 9))%10)
	case 1: // one digit more at the end
		run = append(run, byte('0'+r.Intn(10)))
	case 2: // one digit more in front
		run = append([]byte{byte('1' + r.Intn(9))}, run...)
	case 3: // one digit fewer
		if len(run) > 1 {
			run = run[:len(run)-1]
		} else {
			run[0] = byte('0' + (int(run[0]-'0')+1)%10)
		}
	default: // 9…9 -> 10…0
		for i := range run {
			run[i] = '9'
		}
		if r.Bool() {
			return s[:at] + "1" + strings.Repeat("0", len(run)) + s[end:]
		}
	}
	return s[:at] + string(run) + s[end:]
}

func anyByte(r *hx.Rng) string {
	if r.Chance(1, 3) {
		return string([]byte{byte('0' + r.Intn(10))})
	}
	return letter(r)
}

// related returns a string derived from a; kind says how. It differs from a unless kind == 0.
func related(r *hx.Rng, a string, kind int) string {
	b := a
	switch kind {
	case 0: // identical
		return a
	case 1: // only the case of letters
		b = flipCase(r, a)
	case 2: // only the leading zeros of one run
		b = zerosOfRun(r, a)
	case 3: // only the last byte
		if len(a) > 0 {
			last := a[len(a)-1]
			var c byte
			switch r.Intn(4) {
			case 0:
				c = last + 1
			case 1:
				c = last - 1
			case 2:
				c = last ^ 0x20
			default:
				c = anyByte(r)[0]
			}
			b = a[:len(a)-1] + string([]byte{c})
		}
	case 4: // proper prefix
		if len(a) > 0 {
			b = a[:r.Intn(len(a))]
		}
	case 5: // proper extension
		b = a + anyByte(r)
		if r.Chance(1, 3) {
			b += genStr(r)
		}
	case 6: // value of one number
		b = numberOfRun(r, a)
	case 7: // one byte replaced anywhere (digit <-> non-digit included)
		if len(a) > 0 {
			i := r.Intn(len(a))
			b = a[:i] + anyByte(r) + a[i+1:]
		}
	case 8: // one byte inserted or dropped
		if len(a) > 0 && r.Bool() {
			i := r.Intn(len(a))
			b = a[:i] + a[i+1:]
		} else {
			i := r.Intn(len(a) + 1)
			b = a[:i] + anyByte(r) + a[i:]
		}
	case 9: // case change plus one more edit: the folded comparison decides, not the tie-break
		b = related(r, flipCase(r, a), r.Range(2, 8))
	case 10: // common prefix, unrelated tails
		b = a[:r.Intn(len(a)+1)] + genStr(r)
	default: // unrelated
		b = genStr(r)
	}
	if b == a { // the edit was not applicable (no letter / no digit run / empty): make it an extension
		b = a + anyByte(r)
	}
	return b
}

// kinds and their weights: identical pairs stay rare. Kinds 0-11 derive b from a by related(); kinds 12-17 build both
// sides (specialPair) and keep the regions dense in which independently written regressions hid.
var kindWeights = []int{2, 10, 10, 7, 5, 5, 10, 9, 7, 10, 5, 5, 6, 5, 5, 7, 6, 1}

var kindTotal = func() int {
	t := 0
	for _, w := range kindWeights {
		t += w
	}
	return t
}()

func pickKindBelow(r *hx.Rng, limit int) int {
	for {
		x := r.Intn(kindTotal)
		for k, w := range kindWeights {
			if x < w {
				if k < limit {
					return k
				}
				break
			}
			x -= w
		}
	}
}

// pickKind returns one of the related() kinds.
func pickKind(r *hx.Rng) int { return pickKindBelow(r, 12) }

func withLetters(r *hx.Rng, a string, atLeast int) string {
	n := 0
	for i := 0; i < len(a); i++ {
		if isLetter(a[i]) {
			n++
		}
	}
	for ; n < atLeast; n++ {
		i := r.Intn(len(a) + 1)
		c := byte('a' + r.Intn(26))
		if r.Bool() {
			c ^= 0x20
		}
		a = a[:i] + string([]byte{c}) + a[i:]
	}
	return a
}

func withRun(r *hx.Rng, a string) string {
	if len(runs(a)) == 0 {
		i := r.Intn(len(a) + 1)
		a = a[:i] + digitRun(r) + "7" + a[i:]
	}
	return a
}

func digitsN(r *hx.Rng, n int) string {
	b := make([]byte, n)
	for i := range b {
		b[i] = byte('0' + r.Intn(10))
	}
	return string(b)
}

// sizes at which fixed-size buffers, narrow counters and "fast paths" change behaviour
var thresholdSizes = []int{12, 16, 17, 32, 33, 64, 65, 128, 129, 255, 256, 257, 300, 1000, 1025}

// longStr builds a string of several hundred to a few thousand bytes: long letter stretches, digit runs of up to
// 1000+ digits, hundreds of leading zeros, NUL bytes.
func longStr(r *hx.Rng) string {
	var sb strings.Builder
	for k, chunks := 0, r.Range(1, 4); k < chunks; k++ {
		switch r.Intn(5) {
		case 0: // long digit run
			sb.WriteString(genStr(r))
			if r.Bool() {
				sb.WriteString(strings.Repeat("0", hx.Pick(r, thresholdSizes)))
			}
			sb.WriteByte(byte('1' + r.Intn(9)))
			sb.WriteString(digitsN(r, hx.Pick(r, thresholdSizes)-1))
		case 1: // many zeros, short number
			sb.WriteString(letter(r))
			sb.WriteString(strings.Repeat("0", hx.Pick(r, thresholdSizes)))
			sb.WriteString(digitRun(r))
		case 2: // one byte repeated
			sb.WriteString(strings.Repeat(anyByte(r), hx.Pick(r, thresholdSizes)))
		default: // ordinary text
			for sb.Len() < 1000 && !r.Chance(1, 60) {
				sb.WriteString(genStr(r))
			}
		}
		sb.WriteString(letter(r))
	}
	for sb.Len() < 1000 && r.Chance(3, 4) {
		sb.WriteString(genStr(r))
		sb.WriteString(letter(r))
	}
	return sb.String()
}

// specialPair builds both sides of a pair of kind 12..17.
func specialPair(r *hx.Rng, kind int) (string, string) {
	switch kind {
	case 12: // equal after folding, two to four case differences pointing in alternating directions
		a := []byte(withLetters(r, genStr(r), r.Range(2, 4)))
		b := append([]byte(nil), a...)
		var idx []int
		for i, c := range a {
			if isLetter(c) {
				idx = append(idx, i)
			}
		}
		m := r.Range(2, 4)
		for len(idx) > m { // keep m of the positions
			k := r.Intn(len(idx))
			idx = append(idx[:k], idx[k+1:]...)
		}
		up := r.Bool()
		for _, i := range idx {
			if up {
				a[i], b[i] = a[i]&^0x20, b[i]|0x20
			} else {
				a[i], b[i] = a[i]|0x20, b[i]&^0x20
			}
			if r.Chance(5, 6) {
				up = !up
			}
		}
		return string(a), string(b)
	case 13: // numbers congruent modulo a power of two
		a := withRun(r, genStr(r))
		if r.Bool() { // make one run big enough to lie beyond 2^64 on at least one side
			a += hx.Pick(r, []string{"", "x", "-"}) + hx.Pick(r, magnitudes) + hx.Pick(r, []string{"", "y"})
		}
		return a, wrapOfRun(r, a)
	case 14: // proper prefix AFTER case folding, with case differences inside the shared part
		a := withLetters(r, genStr(r), r.Range(1, 3))
		b := flipCase(r, a)
		if r.Bool() {
			b += anyByte(r)
			if r.Chance(1, 3) {
				b += genStr(r)
			}
		} else {
			cut := r.Intn(len(a))
			a = a[:cut]
			if r.Chance(1, 4) {
				a = flipCase(r, a)
			}
		}
		return a, b
	case 15: // common prefix ending inside a digit run that has a non-zero digit; both continue with digits, one with '0'
		p := genStr(r)
		if len(p) > 10 {
			p = p[:10]
		}
		if len(p) > 0 && isDig(p[len(p)-1]) && r.Bool() {
			p += letter(r)
		}
		common := p + strings.Repeat("0", hx.Pick(r, []int{0, 0, 0, 1, 2})) + string([]byte{byte('1' + r.Intn(9))}) +
			digitsN(r, hx.Pick(r, []int{0, 0, 1, 1, 2, 3, 17, 18, 19}))
		ta := strings.Repeat("0", r.Range(1, 2)) + digitsN(r, r.Range(0, 3))
		tb := string([]byte{byte('1' + r.Intn(9))}) + digitsN(r, max(0, len(ta)-1+r.Range(-2, 1)))
		suffix := ""
		if r.Bool() {
			suffix = letter(r) + genStr(r)
		}
		sa, sb := suffix, suffix
		if r.Chance(1, 4) {
			sb = related(r, suffix, pickKind(r))
		}
		return common + ta + sa, common + tb + sb
	case 16: // the bytes next to the digit range ('/' 0x2f and ':' 0x3a, also '.' ';') directly after a digit run
		p := genStr(r)
		if len(p) > 8 {
			p = p[:8]
		}
		seps := []string{":", ":", "/", "/", ".", ";", "", " "}
		d1 := digitRun(r) + string([]byte{byte('0' + r.Intn(10))})
		e1 := d1
		switch r.Intn(4) {
		case 0:
			e1 = d1 + digitsN(r, 1)
		case 1:
			e1 = d1[:len(d1)-1]
		case 2:
			e1 = numberOfRun(r, d1)
		}
		d2 := hx.Pick(r, []string{"", "0", "00", "000"}) + digitsN(r, r.Range(0, 3))
		e2 := hx.Pick(r, []string{"", "0", "00", "000"}) + digitsN(r, r.Range(0, 3))
		rest := ""
		if r.Chance(1, 3) {
			rest = genStr(r)
		}
		return p + d1 + hx.Pick(r, seps) + d2 + rest, p + e1 + hx.Pick(r, seps) + e2 + rest
	default: // strings of 1000+ bytes that differ in one small way
		a := longStr(r)
		return a, related(r, a, r.Range(1, 8))
	}
}

func genPair(r *hx.Rng) (string, string) {
	kind := pickKindBelow(r, len(kindWeights))
	var a, b string
	if kind >= 12 {
		a, b = specialPair(r, kind)
	} else {
		a = genStr(r)
		// make the targeted edit applicable
		switch kind {
		case 1, 9:
			a = withLetters(r, a, 1)
		case 2, 6:
			a = withRun(r, a)
		}
		b = related(r, a, kind)
	}
	if r.Bool() {
		a, b = b, a
	}
	return a, b
}

// strings whose case folding differs between Unicode rules and NaturalCmp's ASCII-only rule
var nonASCIICased = []string{"\u00e9", "\u00c9", "\u00df", "\u1e9e", "\u03c3", "\u03a3", "\u03c2", "\u0131", "I", "i", "\u0130",
	"\u212a", "k", "K", "\u00e5", "\u212b", "\u00c5", "\xff", "\xc3", "\xe9"}

// sortInput builds the argument of one sort call: k strings, a shape (as generated / already sorted / reversed /
// few distinct values), duplicates, non-ASCII cased letters, invalid UTF-8.
func sortInput(r *hx.Rng, first string) []string {
	// slice lengths around the thresholds at which sort implementations switch strategy (12, 16/17, 32/33, 64/65, ...)
	k := r.Range(0, 9)
	switch r.Intn(12) {
	case 0, 1:
		k = hx.Pick(r, []int{11, 12, 13, 15, 16, 17, 18, 31, 32, 33, 34, 63, 64, 65, 66})
	case 2, 3:
		k = r.Range(17, 70)
	case 4:
		k = hx.Pick(r, []int{127, 128, 129, 130, 255, 256, 257})
	case 5:
		k = r.Range(71, 300)
		if r.Chance(1, 8) {
			k = r.Range(1000, 1100)
		}
	}
	parts := make([]string, 0, k)
	shape := r.Intn(10)
	switch shape {
	case 0, 1: // a numbered family, naturally ascending (0) or descending (1) by construction
		stem := hx.Pick(r, []string{"f", "File ", "", "img_", "\u00e9", "x1."})
		v := r.Intn(12)
		for j := 0; j < k; j++ {
			parts = append(parts, stem+strconv.Itoa(v))
			v += r.Range(0, 3) * hx.Pick(r, []int{1, 1, 1, 7, 90})
		}
		if shape == 1 {
			for i, j := 0, len(parts)-1; i < j; i, j = i+1, j-1 {
				parts[i], parts[j] = parts[j], parts[i]
			}
		}
		return parts
	case 2: // few distinct values, many duplicates
		pool := []string{first, related(r, first, pickKind(r)), withLetters(r, genStr(r), 1)}
		pool = append(pool, flipCase(r, pool[2]))
		for j := 0; j < k; j++ {
			parts = append(parts, hx.Pick(r, pool))
		}
		return parts
	}
	cur := first
	for j := 0; j < k; j++ {
		parts = append(parts, cur)
		switch {
		case r.Chance(1, 4):
			cur = genStr(r)
		case r.Chance(1, 6):
			// cased non-ASCII letters and other bytes on which Unicode and ASCII case folding differ
			cur = hx.Pick(r, nonASCIICased) + hx.Pick(r, []string{"a", "b", "A", "B", "1", "02", ""}) +
				hx.Pick(r, append(nonASCIICased, "", "z", "Z"))
		case r.Chance(1, 8): // an exact duplicate of an earlier element
			cur = hx.Pick(r, parts)
		default:
			cur = related(r, cur, pickKind(r))
		}
	}
	switch shape {
	case 3: // bytewise ascending (independent of the library): nearly sorted in natural order
		sort.Strings(parts)
	case 4: // bytewise descending
		sort.Sort(sort.Reverse(sort.StringSlice(parts)))
	}
	return parts
}

func (area) Gen(r *hx.Rng, n int, _ string, emit func(string)) {
	for i := 0; i < n; i++ {
		a, b := genPair(r)
		ci := strconv.Itoa(r.Intn(2))
		switch r.Intn(20) {
		case 0, 1:
			emit("less " + ci + " " + hx.Hex([]byte(a)) + " " + hx.Hex([]byte(b)))
		case 2:
			if len(a) > 200 { // keep the elements of sort inputs short
				a = a[:r.Intn(30)]
			}
			in := sortInput(r, a)
			parts := make([]string, len(in))
			for j, s := range in {
				parts[j] = hx.Hex([]byte(s))
			}
			op := "sorta"
			if r.Bool() {
				op = "sortd"
			}
			emit(strings.TrimSpace(op + " " + strings.Join(parts, " ")))
		default:
			emit("cmp " + ci + " " + hx.Hex([]byte(a)) + " " + hx.Hex([]byte(b)))
		}
	}
}

// Every call of the library runs under a deadline: a change that makes the comparison loop for ever is reported as
// `hang` within seconds instead of stalling the stream (the stuck goroutine cannot be killed, so after two hangs the
// remaining lines are skipped). Panics become `panic`; a fatal stack overflow kills the process quickly because the
// maximal stack is reduced in main.
const callDeadline = 3 * time.Second

var hangs int

func guarded(f func() string) string {
	if hangs >= 2 {
		return "skipped-after-crash"
	}
	ch := make(chan string, 1)
	go func() {
		defer func() {
			if e := recover(); e != nil {
				ch <- "panic"
			}
		}()
		ch <- f()
	}()
	t := time.NewTimer(callDeadline)
	defer t.Stop()
	select {
	case s := <-ch:
		return s
	case <-t.C:
		hangs++
		return "hang"
	}
}

const sentinel = "5 sentinel outside the slice"

func (area) Run(line string) string {
	f := strings.Fields(line)
	if len(f) == 0 {
		return "bad-op"
	}
	switch f[0] {
	case "cmp":
		if len(f) != 4 {
			return "bad-op"
		}
		a, b := string(hx.UnHex(f[2])), string(hx.UnHex(f[3]))
		return guarded(func() string { return strconv.Itoa(txt.NaturalCmp(a, b, f[1] == "1")) })
	case "less":
		if len(f) != 4 {
			return "bad-op"
		}
		a, b := string(hx.UnHex(f[2])), string(hx.UnHex(f[3]))
		return guarded(func() string { return strconv.FormatBool(txt.NaturalLess(a, b, f[1] == "1")) })
	case "sorta", "sortd":
		// The slice handed to the library sits inside a larger array (0-2 elements in front, 0-3 spare capacity behind,
		// derived from the line so that a replay does the same): the functions must sort exactly in[0:len] in place.
		k := len(f) - 1
		front, spare := len(line)%3, (len(line)/3)%4
		backing := make([]string, front+k+spare)
		for i := range backing {
			backing[i] = sentinel
		}
		in := backing[front : front+k]
		for i, w := range f[1:] {
			in[i] = string(hx.UnHex(w))
		}
		return guarded(func() string {
			if f[0] == "sorta" {
				txt.SortStringsNaturalAscending(in)
			} else {
				txt.SortStringsNaturalDescending(in)
			}
			out := make([]string, len(in))
			for i, s := range in {
				out[i] = hx.Hex([]byte(s))
			}
			res := strings.Join(out, " ")
			for i, s := range backing {
				if (i < front || i >= front+k) && s != sentinel {
					res += " !wrote-outside-the-slice"
					break
				}
			}
			return res
		})
	case "row":
		// row ci p sa sb c1: one character ('<', '=', '>') per byte c2 = 0..255, the sign of
		// NaturalCmp(p+c1+sa, p+c2+sb, ci); even c2 through NaturalCmp, odd c2 through NaturalLess in both directions
		// (the model side alternates between the index-level transcription and the chunk-level model in the same way).
		if len(f) != 6 {
			return "bad-op"
		}
		p, sa, sb, c := string(hx.UnHex(f[2])), string(hx.UnHex(f[3])), string(hx.UnHex(f[4])), hx.UnHex(f[5])
		if len(c) != 1 {
			return "bad-op"
		}
		ci := f[1] == "1"
		a := p + string(c) + sa
		return guarded(func() string {
			out := make([]byte, 256)
			for c2 := 0; c2 < 256; c2++ {
				b := p + string([]byte{byte(c2)}) + sb
				var v int
				if c2%2 == 0 {
					v = txt.NaturalCmp(a, b, ci)
				} else {
					switch lt, gt := txt.NaturalLess(a, b, ci), txt.NaturalLess(b, a, ci); {
					case lt && gt:
						return "less-both-ways"
					case lt:
						v = -1
					case gt:
						v = 1
					}
				}
				switch {
				case v < 0:
					out[c2] = '<'
				case v == 0:
					out[c2] = '='
				default:
					out[c2] = '>'
				}
			}
			return string(out)
		})
	}
	return "bad-op"
}

// rowContexts are the fixed contexts (p, sa, sb) of the exhaustive block of the `rows` area: for each of them every
// pair of bytes (c1, c2) is compared in both case modes as p+c1+sa against p+c2+sb.
var rowContexts = [][3]string{
	{"", "", ""},              // all pairs of one-byte strings
	{"a", "", ""},             // after a letter
	{"7", "", ""},             // the byte continues or ends a number
	{"0", "", ""},             // ... a number that is a single zero so far
	{"", "1", "1"},            // a digit follows
	{"", "a", "A"},            // a case difference follows (tie-break against a later byte)
	{"x0", "5", "5"},          // inside a number with a leading zero
	{"A", "b", ""},            // one side ends right after the byte
	{"\xc3", "\xa9", "\x89"},  // inside a multi-byte UTF-8 sequence
	{"Z9", "0z", "0Z"},        // digit run, then a zero and a case difference
	{"a0", "", ""},            // after a letter and a leading zero
	{"", "", "0"},             // one side continues with a zero
	{"", "0", ""},             // ... the other side
	{"9", "9", ""},            // runs of different lengths around the byte
	{"00", "1", "01"},         // zero counts that differ behind the byte
	{"b\x00", "\xff", "\xfe"}, // NUL before, invalid UTF-8 behind
}

type rowsArea struct{ area }

// Gen of the `rows` area: first the exhaustive block (len(rowContexts) x 2 modes x 256 bytes c1, independent of the
// seed), then rows in random contexts.
func (rowsArea) Gen(r *hx.Rng, n int, _ string, emit func(string)) {
	k := 0
	for _, cx := range rowContexts {
		for ci := 0; ci < 2; ci++ {
			for c1 := 0; c1 < 256; c1++ {
				if k >= n {
					return
				}
				emit("row " + strconv.Itoa(ci) + " " + hx.Hex([]byte(cx[0])) + " " + hx.Hex([]byte(cx[1])) + " " +
					hx.Hex([]byte(cx[2])) + " " + hx.Hex([]byte{byte(c1)}))
				k++
			}
		}
	}
	for ; k < n; k++ {
		emit(randomRow(r))
	}
}

func randomRow(r *hx.Rng) string {
	short := func() string {
		s := genStr(r)
		if len(s) > 6 {
			s = s[:r.Intn(7)]
		}
		return s
	}
	p, sa := short(), short()
	sb := sa
	if r.Bool() {
		sb = related(r, sa, pickKind(r))
	}
	return "row " + strconv.Itoa(r.Intn(2)) + " " + hx.Hex([]byte(p)) + " " + hx.Hex([]byte(sa)) + " " + hx.Hex([]byte(sb)) +
		" " + hx.Hex([]byte(anyByte(r)[:1]))
}

func main() {
	debug.SetMaxStack(64 << 20) // runaway recursion dies in milliseconds, not after filling 1 GB
	hx.Main(map[string]hx.Area{"natsort": area{}, "rows": rowsArea{}})
}
