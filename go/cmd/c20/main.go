// Harness for C20 (natural ordering): drives txt.NaturalCmp / NaturalLess / SortStringsNatural*.
package main

import (
	"strconv"
	"strings"

	"github.com/richardwilkes/toolbox/txt"
	"verifharness/hx"
)

type area struct{}

var alphabet = []string{"0", "0", "1", "9", "2", "a", "A", "b", "B", "z", "Z", "_", "\xc3\xa9", " ", ":", "/", "{", "@", "[", "`"}

func genStr(r *hx.Rng) string {
	switch r.Intn(10) {
	case 0:
		return ""
	case 1: // random bytes
		n := r.Intn(6)
		b := make([]byte, n)
		for i := range b {
			b[i] = byte(r.U64())
		}
		return string(b)
	case 2: // long digit run
		var sb strings.Builder
		if r.Bool() {
			sb.WriteString(hx.Pick(r, []string{"a", "A", "x", ""}))
		}
		for i, n := 0, r.Intn(4); i < n; i++ {
			sb.WriteByte('0')
		}
		for i, n := 0, r.Intn(40); i < n; i++ {
			sb.WriteByte(byte('0' + r.Intn(10)))
		}
		if r.Bool() {
			sb.WriteString(hx.Pick(r, []string{"a", "A", "b", ""}))
		}
		return sb.String()
	default:
		var sb strings.Builder
		for i, n := 0, r.Intn(7); i < n; i++ {
			sb.WriteString(hx.Pick(r, alphabet))
		}
		return sb.String()
	}
}

// mutate returns a near copy so that long common prefixes and ties are frequent.
func mutate(r *hx.Rng, s string) string {
	b := []byte(s)
	switch r.Intn(8) {
	case 0:
		return s
	case 1: // flip case of letters
		for i, c := range b {
			if c >= 'a' && c <= 'z' && r.Bool() {
				b[i] = c - 32
			} else if c >= 'A' && c <= 'Z' && r.Bool() {
				b[i] = c + 32
			}
		}
		return string(b)
	case 2: // insert a zero before a digit or anywhere
		i := r.Intn(len(b) + 1)
		return string(b[:i]) + "0" + string(b[i:])
	case 3: // drop a byte
		if len(b) == 0 {
			return s
		}
		i := r.Intn(len(b))
		return string(b[:i]) + string(b[i+1:])
	case 4: // append
		return s + hx.Pick(r, alphabet)
	case 5: // replace a byte
		if len(b) == 0 {
			return s
		}
		b[r.Intn(len(b))] = hx.Pick(r, alphabet)[0]
		return string(b)
	case 6: // prefix
		return s[:r.Intn(len(s)+1)]
	default:
		return genStr(r)
	}
}

func (area) Gen(r *hx.Rng, n int, _ string, emit func(string)) {
	for i := 0; i < n; i++ {
		a := genStr(r)
		b := mutate(r, a)
		if r.Bool() {
			a, b = b, a
		}
		ci := strconv.Itoa(r.Intn(2))
		switch r.Intn(10) {
		case 0:
			emit("less " + ci + " " + hx.Hex([]byte(a)) + " " + hx.Hex([]byte(b)))
		case 1:
			k := r.Range(0, 9)
			parts := make([]string, 0, k)
			cur := a
			for j := 0; j < k; j++ {
				parts = append(parts, hx.Hex([]byte(cur)))
				cur = mutate(r, cur)
			}
			op := "sorta"
			if r.Bool() {
				op = "sortd"
			}
			emit(strings.TrimSpace(op + " " + strings.Join(parts, " ")))
		default:
			emit("cmp " + ci + " " + hx.Hex([]byte(a)) + " " + hx.Hex([]byte(b)))
		}
	}
}

func (area) Run(line string) string {
	f := strings.Fields(line)
	if len(f) == 0 {
		return "bad-op"
	}
	switch f[0] {
	case "cmp":
		return strconv.Itoa(txt.NaturalCmp(string(hx.UnHex(f[2])), string(hx.UnHex(f[3])), f[1] == "1"))
	case "less":
		return strconv.FormatBool(txt.NaturalLess(string(hx.UnHex(f[2])), string(hx.UnHex(f[3])), f[1] == "1"))
	case "sorta", "sortd":
		in := make([]string, 0, len(f)-1)
		for _, w := range f[1:] {
			in = append(in, string(hx.UnHex(w)))
		}
		if f[0] == "sorta" {
			txt.SortStringsNaturalAscending(in)
		} else {
			txt.SortStringsNaturalDescending(in)
		}
		out := make([]string, len(in))
		for i, s := range in {
			out[i] = hx.Hex([]byte(s))
		}
		return strings.Join(out, " ")
	}
	return "bad-op"
}

func main() { hx.Main(map[string]hx.Area{"natsort": area{}}) }
