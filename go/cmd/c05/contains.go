// Area `contains`: the library's own point tests Polygon.ContainsEvenOdd / Polygon.Contains (and through them
// Contour.Contains) on the operands of a line.  Lines have the grammar of the clipping areas (`L` and `P` modes):
//
//	<op> <ft> L <N> A <poly> B <poly>                 tested at the N*N cell centres (i+1/2, j+1/2), row by row
//	<op> <ft> P <margin> <k> (<x> <y>)*k A … B …      tested at the k sample points
//
// Output: `CE <bits A> <bits B> CA <bits A> <bits B>` — one character per point: 0 / 1, or `-` where the point is not
// exactly representable in the operand type; `.` for an empty point list.  The Lean driver compares every bit whose
// point keeps the margin from the polygon's edges with the transcription EO.containsEvenOdd / EO.containsAny, which is
// proved to be the even-odd rule (C05.containsEvenOdd_is_inside) resp. the union of the contours (C05.containsAny_is_union).
package main

import (
	"strings"

	"github.com/richardwilkes/toolbox/xmath/geom"
	"github.com/richardwilkes/toolbox/xmath/geom/poly"
	"golang.org/x/exp/constraints"
	"verifharness/hx"
)

func runContains[T constraints.Float](t *tokens, pts []float64) string {
	seen := map[string]poly.Contour[T]{}
	t.expect("A")
	a := parsePoly[T](t, seen)
	t.expect("B")
	b := parsePoly[T](t, seen)
	if t.i != len(t.f) {
		bad()
	}
	a0, b0 := deepCopy(a), deepCopy(b)
	bits := func(p poly.Polygon[T], evenOdd bool) string {
		if len(pts) == 0 {
			return "."
		}
		var sb strings.Builder
		for i := 0; i+1 < len(pts); i += 2 {
			x, y := T(pts[i]), T(pts[i+1])
			if float64(x) != pts[i] || float64(y) != pts[i+1] {
				sb.WriteByte('-')
				continue
			}
			var in bool
			if evenOdd {
				in = p.ContainsEvenOdd(geom.Point[T]{X: x, Y: y})
			} else {
				in = p.Contains(geom.Point[T]{X: x, Y: y})
			}
			if in {
				sb.WriteByte('1')
			} else {
				sb.WriteByte('0')
			}
		}
		return sb.String()
	}
	out := "CE " + bits(a, true) + " " + bits(b, true) + " CA " + bits(a, false) + " " + bits(b, false)
	if !sameBits(a, a0) || !sameBits(b, b0) {
		return "operands-modified"
	}
	return out
}

func genContains(r *hx.Rng) string {
	for {
		var line string
		if r.Bool() {
			line = genLattice(r.Fork())
		} else {
			line = genGeneral(r.Fork())
		}
		if !strings.Contains(line, " LT ") {
			return line
		}
	}
}
