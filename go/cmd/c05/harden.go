package main

import (
	"math"
	"strconv"
	"strings"

	"verifharness/hx"
)

// Hardening families (tools/HARDENING.md): degenerate / nil operands, three and more coincident edges, several
// contours on both sides with asymmetric overlap, redundant vertices, chains that reuse results, other magnitudes,
// near-equal-but-distinct coordinates, size thresholds.

// emptyTok prints an operand without contours either as `0` (non-nil, no contours) or as `nil`.
func emptyTok(r *hx.Rng, s string) string {
	if s == "0" && r.Bool() {
		return "nil"
	}
	return s
}

// ---------------------------------------------------------------------------------------------- lattice

// degenerateContour: contours that bound no area (all are lattice-rectilinear, so they are in the lattice domain).
func degenerateContour(r *hx.Rng, n int) icontour {
	x, y := r.Range(0, n), r.Range(0, n)
	switch r.Intn(7) {
	case 0:
		return icontour{} // a contour without vertices
	case 1:
		return icontour{{x, y}}
	case 2:
		return icontour{{x, y}, {r.Range(0, n), y}} // horizontal segment
	case 3:
		return icontour{{x, y}, {x, r.Range(0, n)}} // vertical segment
	case 4: // all vertices on one horizontal line
		c := icontour{}
		for i, k := 0, r.Range(3, 5); i < k; i++ {
			c = append(c, ipt{r.Range(0, n), y})
		}
		return c
	case 5: // all vertices on one vertical line
		c := icontour{}
		for i, k := 0, r.Range(3, 5); i < k; i++ {
			c = append(c, ipt{x, r.Range(0, n)})
		}
		return c
	default: // the same point several times
		return icontour{{x, y}, {x, y}, {x, y}}
	}
}

// redundant inserts 1-4 redundant vertices: lattice points inside horizontal and vertical edges and repeated vertices.
func redundant(r *hx.Rng, c icontour) icontour {
	for t, k := 0, r.Range(1, 4); t < k && len(c) > 0; t++ {
		i := r.Intn(len(c))
		a, b := c[i], c[(i+1)%len(c)]
		m := a
		switch {
		case a.x == b.x && abs(a.y-b.y) >= 2 && r.Chance(3, 4):
			m = ipt{a.x, min(a.y, b.y) + 1 + r.Intn(abs(a.y-b.y)-1)}
		case a.y == b.y && abs(a.x-b.x) >= 2 && r.Chance(3, 4):
			m = ipt{min(a.x, b.x) + 1 + r.Intn(abs(a.x-b.x)-1), a.y}
		}
		d := append(icontour{}, c[:i+1]...)
		d = append(d, m)
		c = append(d, c[i+1:]...)
	}
	return c
}

// coincident: three and more edges on one line over a common interval: rectangles of both operands hanging on the
// vertical line x = c (left or right of it) and/or on the horizontal line y = c.
func coincident(r *hx.Rng, n int) (ipoly, ipoly) {
	c := r.Range(1, n-1)
	vertical := r.Chance(2, 3)
	one := func() icontour {
		lo := r.Range(0, n-1)
		hi := r.Range(lo+1, n)
		var o int
		if r.Bool() {
			o = r.Range(0, c-1) // to the left / below
		} else {
			o = r.Range(c+1, n)
		}
		x0, x1 := min(o, c), max(o, c)
		if vertical {
			return decorate(r, rect(x0, lo, x1, hi))
		}
		return decorate(r, rect(lo, x0, hi, x1))
	}
	var a, b ipoly
	for i, k := 0, r.Range(1, 4); i < k; i++ {
		a = append(a, one())
	}
	for i, k := 0, r.Range(1, 3); i < k; i++ {
		b = append(b, one())
	}
	if r.Chance(1, 3) { // plus a rectangle that straddles the line
		b = append(b, decorate(r, randRect(r, n)))
	}
	return a, b
}

// clusters: 2-4 small contours on each side; some pairs overlap, most do not (bounding-box pre-filter of Intersect/Sub).
func clusters(r *hx.Rng, n int) (ipoly, ipoly) {
	small := func() icontour {
		w, h := r.Range(1, max(1, n/3)), r.Range(1, max(1, n/3))
		x, y := r.Range(0, n-w), r.Range(0, n-h)
		return decorate(r, rect(x, y, x+w, y+h))
	}
	var a, b ipoly
	for i, k := 0, r.Range(2, 4); i < k; i++ {
		a = append(a, small())
	}
	for i, k := 0, r.Range(2, 4); i < k; i++ {
		if r.Chance(1, 3) { // overlaps a particular contour of A
			c := a[r.Intn(len(a))]
			x0, y0, x1, y1, _ := bbox(ipoly{c})
			x, y := min(max(x0+r.Range(-1, 1), 0), n-1), min(max(y0+r.Range(-1, 1), 0), n-1)
			b = append(b, decorate(r, rect(x, y, min(x+max(1, x1-x0), n), min(y+max(1, y1-y0), n))))
		} else {
			b = append(b, small())
		}
	}
	return a, b
}

// latticeMagnitude rewrites `L n` into `LT n k ox oy` with the coordinates (lattice + offset) * 2^k, all exactly
// representable in the operand type: offsets up to 2^24 (float32) / 2^52, 10^6, 10^9, 10^15 (float64), k = -10 … 40.
func latticeMagnitude(r *hx.Rng, ft string, n int, a, b ipoly) string {
	var offs []int64
	if ft == "f32" {
		offs = []int64{0, 0, 1 << 20, -(1 << 20), 1000000, 1<<24 - int64(n) - 1, -(1<<24 - 1), 65536}
	} else {
		offs = []int64{0, 0, 1 << 20, 1 << 30, -(1 << 30), 1000000, 1000000000, 1000000000000000, 1<<52 - int64(n) - 1, -(1<<52 - 1), 1 << 24, 1<<24 + 1}
	}
	ox, oy := hx.Pick(r, offs), hx.Pick(r, offs)
	k := hx.Pick(r, []int{-10, -7, -1, 0, 1, 10, 20, 30, 40})
	num := func(v int, o int64) string {
		w := int64(v) + o
		if k >= 0 {
			// w * 2^k as h-bits of a float64 (exact: |w| < 2^53)
			return "h" + pad(strconv.FormatUint(math.Float64bits(math.Ldexp(float64(w), k)), 16), 16)
		}
		return strconv.FormatInt(w, 10) + "/" + strconv.FormatInt(1<<uint(-k), 10)
	}
	f := func(p ipoly) string {
		var sb strings.Builder
		sb.WriteString(strconv.Itoa(len(p)))
		for _, c := range p {
			sb.WriteString(" " + strconv.Itoa(len(c)))
			for _, v := range c {
				sb.WriteString(" " + num(v.x, ox) + " " + num(v.y, oy))
			}
		}
		return sb.String()
	}
	return ft + " LT " + strconv.Itoa(n) + " " + strconv.Itoa(k) + " " + strconv.FormatInt(ox, 10) + " " +
		strconv.FormatInt(oy, 10) + " A " + emptyTok(r, f(a)) + " B " + emptyTok(r, f(b))
}

// genChain: 3-5 calls; operands are initial polygons or results of earlier calls (reused as returned), the same
// entry on both sides, clones, empty results fed back in, nil / degenerate initial polygons.
func genChain(r *hx.Rng) string {
	n := hx.Pick(r, []int{2, 3, 4, 4, 5, 6, 8})
	m := r.Range(1, 3)
	var sb strings.Builder
	sb.WriteString("chain " + hx.Pick(r, fts) + " L " + strconv.Itoa(n) + " " + strconv.Itoa(m))
	var first ipoly
	for i := 0; i < m; i++ {
		p := latticePoly(r, n)
		switch {
		case i == 0:
			first = p
		case r.Chance(1, 5):
			p = clampShift(first, r.Range(-1, 1), r.Range(-1, 1), n)
		case r.Chance(1, 6) && len(first) > 0: // shares a contour with the first polygon
			p = append(ipoly{first[r.Intn(len(first))]}, p...)
		}
		sb.WriteString(" P " + emptyTok(r, fmtIPoly(p)))
	}
	steps := r.Range(3, 5)
	for s := 0; s < steps; s++ {
		size := m + s
		i, j := r.Intn(size), r.Intn(size)
		switch r.Intn(6) {
		case 0:
			j = i // the same entry on both sides
		case 1, 2:
			if s > 0 {
				i = size - 1 // the result of the previous call as receiver
			}
		case 3:
			if s > 0 {
				j = size - 1
			}
		}
		ti, tj := strconv.Itoa(i), strconv.Itoa(j)
		if r.Chance(1, 6) {
			ti += "c"
		}
		if r.Chance(1, 6) {
			tj += "c"
		}
		sb.WriteString(" S " + hx.Pick(r, ops) + " " + ti + " " + tj)
	}
	return sb.String()
}

// ---------------------------------------------------------------------------------------------- general position

// islands: 2-4 small star polygons at separate places (several contours per side, most pairs of boxes disjoint).
func islands(r *hx.Rng, mode int) fpoly {
	var p fpoly
	for i, k := 0, r.Range(2, 4); i < k; i++ {
		p = append(p, starContour(r, mode, 2+12*rnd(r), 2+12*rnd(r), 0.8+1.7*rnd(r)))
	}
	return p
}

func rotateStart(r *hx.Rng, p fpoly) {
	for i, c := range p {
		if len(c) > 1 && r.Bool() {
			k := r.Intn(len(c))
			p[i] = append(append(fcontour{}, c[k:]...), c[:k]...)
		}
	}
}

// nudge makes 1-3 coordinates NEARLY equal to the same coordinate of another (far away) vertex: the difference is
// ±10^-5 … ±10^-9 (at least one ulp of the operand type), never zero.
func nudge(r *hx.Rng, ft string, a, b fpoly) {
	type ref struct{ p, c, v int }
	var all []ref
	ps := []fpoly{a, b}
	for pi, p := range ps {
		for ci, c := range p {
			for vi := range c {
				all = append(all, ref{pi, ci, vi})
			}
		}
	}
	if len(all) < 2 {
		return
	}
	for t, k := 0, r.Range(1, 3); t < k; t++ {
		u, v := all[r.Intn(len(all))], all[r.Intn(len(all))]
		if u == v {
			continue
		}
		d := math.Pow(10, -(5 + 4*rnd(r)))
		if r.Bool() {
			d = -d
		}
		src, dst := ps[v.p][v.c][v.v], &ps[u.p][u.c][u.v]
		set := func(base float64) float64 {
			w := base + d
			if ft == "f32" {
				w = q32(w)
				if w == base { // below one ulp: take the neighbouring float32
					w = float64(math.Nextafter32(float32(base), float32(base+math.Copysign(1, d))))
				}
			}
			if w == base {
				w = math.Nextafter(base, base+math.Copysign(1, d))
			}
			return w
		}
		if r.Chance(2, 3) {
			dst.y = set(src.y)
		} else {
			dst.x = set(src.x)
		}
	}
}

// magnitude maps a general-position call to another magnitude: x -> (x + t) * 2^k (computed exactly in the operand
// type where possible; translated coordinates are whatever the addition rounds to — they ARE the input).
type xform struct {
	k      int
	tx, ty float64
}

func pickXform(r *hx.Rng, ft string) xform {
	x := xform{}
	switch r.Intn(3) {
	case 0:
		x.k = hx.Pick(r, []int{-7, -4, 10, 20, 30})
	case 1:
		if ft == "f32" {
			x.tx, x.ty = hx.Pick(r, []float64{1024, -1024, 512}), hx.Pick(r, []float64{1024, -512, 0})
		} else {
			x.tx = hx.Pick(r, []float64{1 << 20, -(1 << 20), 1e6, 1 << 30, 1e9})
			x.ty = hx.Pick(r, []float64{1 << 20, -(1 << 30), 1e6, 0, 1e9})
		}
	default:
		x.k = hx.Pick(r, []int{-4, 10, 20})
		if ft == "f32" {
			x.tx, x.ty = 512, -1024
		} else {
			x.tx, x.ty = 1e6, -(1 << 20)
		}
	}
	return x
}

func (x xform) pt(p fpt, ft string) fpt {
	return fpt{quant(math.Ldexp(quant(p.x+x.tx, ft), x.k), ft), quant(math.Ldexp(quant(p.y+x.ty, ft), x.k), ft)}
}

func (x xform) poly(p fpoly, ft string) fpoly {
	q := make(fpoly, len(p))
	for i, c := range p {
		q[i] = make(fcontour, len(c))
		for j, v := range c {
			q[i][j] = x.pt(v, ft)
		}
	}
	return q
}

// scaled margin token: 2^(k-mexp)
func (x xform) marginTok(mexp int) string {
	e := x.k - mexp
	if e >= 0 {
		return strconv.FormatInt(1<<uint(e), 10)
	}
	return "1/" + strconv.FormatInt(1<<uint(-e), 10)
}

// emptyRegion turns a general-position pair into a call whose combined region is empty for a reason the Lean oracle
// can certify exactly (EO.emptyCert): operands separated by a vertical or horizontal line (Intersect; with a vertical
// separator both operands are in the active edge table at the same time), identical operands (Sub, Xor: passed as the
// same slice), B the axis-parallel rectangle [[(x0,y0),(x1,y0),(x1,y1),(x0,y1)]] around A (Sub).
func emptyRegion(r *hx.Rng, ft string, a, b fpoly) (string, fpoly, fpoly) {
	squeeze := func(p fpoly, lo float64, vertical bool) fpoly {
		q := make(fpoly, len(p))
		for i, c := range p {
			q[i] = make(fcontour, len(c))
			for j, v := range c {
				if vertical {
					q[i][j] = fpt{quant(lo+v.x*7/16, ft), v.y}
				} else {
					q[i][j] = fpt{v.x, quant(lo+v.y*7/16, ft)}
				}
			}
		}
		return q
	}
	switch r.Intn(6) {
	case 0, 1, 2:
		vertical := r.Chance(2, 3)
		lo1, lo2 := 0.0, 9.0
		if r.Bool() {
			lo1, lo2 = lo2, lo1
		}
		return "i", squeeze(a, lo1, vertical), squeeze(b, lo2, vertical)
	case 3:
		return "s", a, a
	case 4:
		return "x", a, a
	default:
		x0, y0, x1, y1 := math.Inf(1), math.Inf(1), math.Inf(-1), math.Inf(-1)
		for _, c := range a {
			for _, v := range c {
				x0, y0, x1, y1 = min(x0, v.x), min(y0, v.y), max(x1, v.x), max(y1, v.y)
			}
		}
		x0, y0 = quant(x0-0.25-rnd(r), ft), quant(y0-0.25-rnd(r), ft)
		x1, y1 = quant(x1+0.25+rnd(r), ft), quant(y1+0.25+rnd(r), ft)
		return "s", a, fpoly{{{x0, y0}, {x1, y0}, {x1, y1}, {x0, y1}}}
	}
}

func rotPoly(p fpoly, th, cx, cy float64, ft string) fpoly {
	c, s := math.Cos(th), math.Sin(th)
	q := make(fpoly, len(p))
	for i, ct := range p {
		q[i] = make(fcontour, len(ct))
		for j, v := range ct {
			x, y := v.x-cx, v.y-cy
			q[i][j] = fpt{quant(cx+c*x-s*y, ft), quant(cy+s*x+c*y, ft)}
		}
	}
	return q
}

// convexContour: n points on a circle / ellipse in angular order (a convex polygon).
func convexContour(r *hx.Rng, cx, cy, rx, ry float64) fcontour {
	n := r.Range(3, 7)
	c := make(fcontour, n)
	for i := range c {
		a := (float64(i) + 0.1 + 0.8*rnd(r)) * 2 * math.Pi / float64(n)
		c[i] = fpt{cx + rx*math.Cos(a), cy + ry*math.Sin(a)}
	}
	return c
}

func reverseSome(r *hx.Rng, p fpoly) fpoly {
	for i := range p {
		if r.Bool() {
			c := p[i]
			for a, b := 0, len(c)-1; a < b; a, b = a+1, b-1 {
				c[a], c[b] = c[b], c[a]
			}
		}
	}
	return p
}

// disjointOverlap: operands whose regions are disjoint (or nested) although their bounding boxes OVERLAP, so that the
// scan-beam sweep itself — not the bounding-box shortcut in front of it — has to produce the empty result:
// convex polygons on both sides of a slanted line, general polygons on both sides of a slanted gap, interleaved combs, a
// triangle in the notch of an L, a polygon inside the hole of a ring (Intersect: `EO.sepLine` certificate or the exact
// `EO.noContact` judgement), and a polygon inside another one (Sub: `EO.containedIn`).  Everything is rotated by a
// random angle and must pass the general-position test like every other call.
func disjointOverlap(r *hx.Rng, ft string, a0, b0 fpoly) (string, fpoly, fpoly) {
	th := (0.15 + 1.2*rnd(r)) * hx.Pick(r, []float64{1, -1})
	var a, b fpoly
	op := "i"
	switch r.Intn(7) {
	case 0, 1: // convex polygons on both sides of a slanted line (gap 0.4 … 1.4)
		g := 0.2 + 0.5*rnd(r)
		a = fpoly{convexContour(r, 8-g-2.5, 4+8*rnd(r), 2.5, 2+3*rnd(r))}
		b = fpoly{convexContour(r, 8+g+2.5, 4+8*rnd(r), 2.5, 2+3*rnd(r))}
		if r.Chance(1, 3) {
			a = append(a, convexContour(r, 8-g-1.5, 13+rnd(r), 1.3, 1.3))
		}
	case 2: // the regular families squeezed to both sides of a slanted gap
		sq := func(p fpoly, lo float64) fpoly {
			q := make(fpoly, len(p))
			for i, c := range p {
				q[i] = make(fcontour, len(c))
				for j, v := range c {
					q[i][j] = fpt{lo + v.x*7.4/16, v.y}
				}
			}
			return q
		}
		a, b = sq(a0, 0), sq(b0, 8.6)
	case 3: // interleaved combs: teeth of A point right, teeth of B point left, between each other
		k := r.Range(2, 4)
		h := 12.0 / float64(2*k)
		a = fpoly{{{2, 2}}}
		ca := fcontour{{2, 2}}
		for i := 0; i < k; i++ {
			y := 2 + float64(2*i)*h
			ca = append(ca, fpt{11, y + 0.1*rnd(r)}, fpt{11, y + h*0.6}, fpt{4, y + h*0.6 + 0.1*rnd(r)}, fpt{4, y + 2*h})
		}
		ca = append(ca, fpt{2, 2 + float64(2*k)*h})
		a = fpoly{ca}
		cb := fcontour{{14, 2 + h*0.8}}
		for i := 0; i < k; i++ {
			y := 2 + float64(2*i)*h + h
			cb = append(cb, fpt{14, y + h*0.95}, fpt{5, y + h*0.75 + 0.1*rnd(r)}, fpt{5, y - 0.2*h + 0.1*rnd(r)}, fpt{12.5, y - 0.25*h})
			if i+1 < k {
				cb = append(cb, fpt{12.5, y + h*0.9})
			}
		}
		cb = append(cb[:1], cb[2:]...)
		b = fpoly{cb}
	case 4: // a triangle in the notch of an L
		a = fpoly{{{2, 2}, {14, 2.3}, {14.2, 6}, {6.5, 6.2}, {6.2, 14}, {2.2, 13.7}}}
		cx, cy := 10+2*rnd(r), 10+2*rnd(r)
		b = fpoly{{{cx - 2.5, cy - 2.3 + rnd(r)}, {cx + 2, cy - 1 + rnd(r)}, {cx - 1 + rnd(r), cy + 2.2}}}
	case 5: // a polygon inside the hole of a ring (nested, not containing)
		cx, cy := 8.0, 8.0
		a = fpoly{convexContour(r, cx, cy, 7, 6.5), convexContour(r, cx, cy, 4.2, 4)}
		b = fpoly{starContour(r, 3, cx, cy, 2.6)}
	default: // a polygon inside another one: Sub must be empty
		op = "s"
		a = fpoly{starContour(r, 3, 8, 8, 2.8)}
		b = fpoly{convexContour(r, 8, 8, 6+rnd(r), 5.5+rnd(r))}
		if r.Chance(1, 3) { // the covering polygon has a far-away second contour
			b = append(b, convexContour(r, 14.5, 14.5, 0.9, 0.9))
		}
	}
	a, b = reverseSome(r, a), reverseSome(r, b)
	if op == "i" && r.Bool() {
		a, b = b, a
	}
	return op, rotPoly(a, th, 8, 8, ft), rotPoly(b, th, 8, 8, ft)
}

// abCrossings: number of proper crossings between an edge of A and an edge of B.
func abCrossings(a, b fpoly) int {
	n := 0
	for _, s := range segments(a) {
		for _, t := range segments(b) {
			if _, ok := segIntersection(s, t); ok {
				n++
			}
		}
	}
	return n
}

func sameFPoly(a, b fpoly) bool {
	if len(a) != len(b) || len(a) == 0 {
		return false
	}
	return &a[0] == &b[0]
}

// ---------------------------------------------------------------------------------------------- observation only

// genTinyGeneral / genTinyLattice: the regular families scaled by 2^-20 (coordinates around 1e-6 … 1e-5): every
// distance is below the clipper's ABSOLUTE epsilon of 1e-5, so these are not general-position / lattice inputs in the
// property's sense; they are run as an observation only.
func genTinyGeneral(r *hx.Rng) string {
	return genGeneralX(r, &xform{k: -20})
}

func genTinyLattice(r *hx.Rng) string {
	n := hx.Pick(r, []int{2, 3, 4, 6, 8, 12})
	a, b := latticePoly(r, n), latticePoly(r, n)
	ft := hx.Pick(r, fts)
	num := func(v int) string {
		if v == 0 {
			return "0"
		}
		return strconv.Itoa(v) + "/1048576"
	}
	f := func(p ipoly) string {
		var sb strings.Builder
		sb.WriteString(strconv.Itoa(len(p)))
		for _, c := range p {
			sb.WriteString(" " + strconv.Itoa(len(c)))
			for _, v := range c {
				sb.WriteString(" " + num(v.x) + " " + num(v.y))
			}
		}
		return sb.String()
	}
	return hx.Pick(r, ops) + " " + ft + " LT " + strconv.Itoa(n) + " -20 0 0 A " + f(a) + " B " + f(b)
}
