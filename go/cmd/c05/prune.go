// Area `prune`: the bounding-box pruning step of the clipper (Polygon.identifyNonContributingContours) seen through the
// overlay.  Lines have the grammar of the clipping areas (`<op> <ft> L|LT|P … A <poly> B <poly>`); the output is
//
//	NC <#subject flags> (0|1)* <#clip flags> (0|1)*        or `unobserved` (black-box build)
//
// and the Lean driver checks EO.pruneOK: every flagged contour is separated from every contour of the other operand by
// an axis-parallel line, and nothing is flagged where the operation prunes nothing (C05.prune_sound: dropping the
// flagged contours then changes the combined region at no point).
package main

import (
	"strconv"
	"strings"

	"github.com/richardwilkes/toolbox/xmath/geom/poly"
	"golang.org/x/exp/constraints"
	"verifharness/hx"
)

func runPrune[T constraints.Float](op string, t *tokens) string {
	seen := map[string]poly.Contour[T]{}
	t.expect("A")
	a := parsePoly[T](t, seen)
	t.expect("B")
	b := parsePoly[T](t, seen)
	if t.i != len(t.f) {
		bad()
	}
	a0, b0 := deepCopy(a), deepCopy(b)
	fa, fb, ok := nonContributing(op, a, b)
	if !ok {
		return "unobserved"
	}
	if !sameBits(a, a0) || !sameBits(b, b0) {
		return "operands-modified"
	}
	var sb strings.Builder
	sb.WriteString("NC")
	for _, f := range [][]bool{fa, fb} {
		sb.WriteString(" " + strconv.Itoa(len(f)))
		for _, v := range f {
			if v {
				sb.WriteString(" 1")
			} else {
				sb.WriteString(" 0")
			}
		}
	}
	return sb.String()
}

// scattered: 1-6 small contours (rectangles, decorated rectangles, triangles) placed on [0,n]^2
func scattered(r *hx.Rng, n int) ipoly {
	var p ipoly
	for i, k := 0, r.Range(1, 6); i < k; i++ {
		w, h := r.Range(1, max(1, n/4)), r.Range(1, max(1, n/4))
		x, y := r.Range(0, n-w), r.Range(0, n-h)
		switch r.Intn(4) {
		case 0:
			p = append(p, icontour{{x, y}, {x + w, y}, {x, y + h}})
		case 1:
			p = append(p, icontour{{x + w, y}, {x + w, y + h}, {x, y + h}})
		default:
			p = append(p, decorate(r, rect(x, y, x+w, y+h)))
		}
	}
	return p
}

// neighbour: a rectangle next to contour c at distance gap (0 = abutting, 1 = exactly the width the code adds to a
// bounding box, 2) on a random side, clamped to the square
func neighbour(r *hx.Rng, c icontour, n int) (icontour, bool) {
	x0, y0, x1, y1, ok := bbox(ipoly{c})
	if !ok {
		return nil, false
	}
	gap := r.Intn(3)
	w, h := r.Range(1, 3), r.Range(1, 3)
	var q icontour
	switch r.Intn(4) {
	case 0:
		q = rect(x1+gap, y0, x1+gap+w, y0+h)
	case 1:
		q = rect(x0-gap-w, y0, x0-gap, y0+h)
	case 2:
		q = rect(x0, y1+gap, x0+w, y1+gap+h)
	default:
		q = rect(x0, y0-gap-h, x0+w, y0-gap)
	}
	for _, v := range q {
		if v.x < 0 || v.y < 0 || v.x > n || v.y > n {
			return nil, false
		}
	}
	return q, true
}

func genPrune(r *hx.Rng) string {
	n := hx.Pick(r, []int{4, 8, 12, 24, 40})
	var a, b ipoly
	if r.Chance(1, 4) {
		a, b = clusters(r, max(n, 3))
	} else {
		a, b = scattered(r, n), scattered(r, n)
	}
	for i := 0; i < 2; i++ { // contours at distance 0, 1, 2 from a contour of the other operand
		if len(a) > 0 && r.Bool() {
			if q, ok := neighbour(r, a[r.Intn(len(a))], n); ok {
				b = append(b, q)
			}
		}
		if len(b) > 0 && r.Chance(1, 3) {
			if q, ok := neighbour(r, b[r.Intn(len(b))], n); ok {
				a = append(a, q)
			}
		}
	}
	if r.Chance(1, 8) {
		a = append(a, icontour{}) // a contour without vertices
	}
	if r.Chance(1, 8) {
		b = append(ipoly{icontour{}}, b...)
	}
	ft := hx.Pick(r, fts)
	op := hx.Pick(r, []string{"i", "i", "s", "s", "u", "x"})
	switch r.Intn(4) {
	case 0: // other magnitudes: (lattice + offset) * 2^k — the width 1 the code adds to a box is absorbed or dominates
		return op + " " + latticeMagnitude(r, ft, n, a, b)
	case 1: // quarter steps: gaps of 1/4 … 3/4 between boxes, points mode without sample points
		f := func(p ipoly) fpoly {
			var q fpoly
			for _, c := range p {
				dx, dy := float64(r.Intn(4))/4, float64(r.Intn(4))/4
				var d fcontour
				for _, v := range c {
					d = append(d, fpt{float64(v.x) + dx, float64(v.y) + dy})
				}
				q = append(q, d)
			}
			return q
		}
		return op + " " + ft + " P 1/64 0 A " + fmtFPoly(f(a)) + " B " + fmtFPoly(f(b))
	}
	return op + " " + ft + " L " + strconv.Itoa(n) + " A " + emptyTok(r, fmtIPoly(a)) + " B " + emptyTok(r, fmtIPoly(b))
}
