//go:build nooverlay

package main

import (
	"github.com/richardwilkes/toolbox/xmath/geom/poly"
	"golang.org/x/exp/constraints"
)

// black-box build (the overlay does not compile against the working tree, e.g. the unexported function was renamed or
// restructured): the pruning step is simply not observed
func nonContributing[T constraints.Float](op string, a, b poly.Polygon[T]) (fa, fb []bool, ok bool) {
	return nil, nil, false
}

func libGenerate[T constraints.Float](chains []poly.Contour[T], active []bool) (poly.Polygon[T], bool) {
	return nil, false
}

func libScanBeamTable[T constraints.Float](ys []T) ([]T, bool) { return nil, false }

func libLocalMinima[T constraints.Float](p poly.Polygon[T], op string) (ys []T, bounds [][][][4]T, table []T, ok bool) {
	return nil, nil, nil, false
}
