// Area `lmt`: the local minima table (buildLocalMinimaTable: contour optimisation, forward and reverse passes, bound
// lists) of the operand A of a line, seen through the overlay.  Lines have the grammar of the clipping areas (`L`, `LT`
// and `P` modes; B is ignored).  Output:
//
//	LM <#minima> (<y> <#bounds> (<#edges> (<bot.x> <bot.y> <top.x> <top.y>)*)*)* SB <#beams> <y>*
//
// The Lean driver checks EO.lmtOK: every edge goes strictly upward, the edges of all bounds together are exactly the
// non-horizontal edges of the polygon (as a multiset, oriented upward), the minima are strictly ascending, and the
// scan-beam table is the ascending list of the ordinates of those edges' end points (C05.lmt_sound: the edges handed to
// the sweep then have exactly the region of the operand).
package main

import (
	"strconv"
	"strings"

	"github.com/richardwilkes/toolbox/xmath/geom/poly"
	"golang.org/x/exp/constraints"
	"verifharness/hx"
)

func runLmt[T constraints.Float](op string, t *tokens) string {
	seen := map[string]poly.Contour[T]{}
	t.expect("A")
	a := parsePoly[T](t, seen)
	t.expect("B")
	parsePoly[T](t, seen)
	if t.i != len(t.f) {
		bad()
	}
	a0 := deepCopy(a)
	ys, bounds, table, ok := libLocalMinima(a, op)
	if !ok {
		return "unobserved"
	}
	if !sameBits(a, a0) {
		return "operands-modified"
	}
	var sb strings.Builder
	sb.WriteString("LM " + strconv.Itoa(len(ys)))
	for i, y := range ys {
		sb.WriteString(" " + bitsOf(y) + " " + strconv.Itoa(len(bounds[i])))
		for _, b := range bounds[i] {
			sb.WriteString(" " + strconv.Itoa(len(b)))
			for _, e := range b {
				for _, v := range e {
					sb.WriteString(" " + bitsOf(v))
				}
			}
		}
	}
	sb.WriteString(" SB " + strconv.Itoa(len(table)))
	for _, y := range table {
		sb.WriteString(" " + bitsOf(y))
	}
	return sb.String()
}

func genLmt(r *hx.Rng) string {
	switch r.Intn(4) {
	case 0:
		return genGeneral(r.Fork())
	case 1:
		return genPrune(r.Fork())
	default:
		return genLattice(r.Fork())
	}
}
