// Areas `emit` and `sbt`: two more stages of the clipper seen through the overlay go/overlay/c05_emit.go.
//
//	emit <ft> L <N> <k> (C <0|1> <nv> (<x> <y>)*nv)*k      → R <poly>        polygonNode.generate on k output chains
//	sbt <ft> <k> <y>*k                                      → T <m> <y>*m     scanBeamTree.add of every y, then the table
//
// `emit`: the Lean driver checks by the exhaustive cell check that the emitted polygon contains exactly the points the
// active chains contain under the even-odd rule (and is empty when they contain none); `sbt`: that the table equals the
// Lean scan-beam table (strictly ascending, exactly the ordinates added).  `unobserved` in a black-box build.
package main

import (
	"math"
	"strconv"
	"strings"

	"github.com/richardwilkes/toolbox/xmath/geom"
	"github.com/richardwilkes/toolbox/xmath/geom/poly"
	"golang.org/x/exp/constraints"
	"verifharness/hx"
)

func runEmit[T constraints.Float](t *tokens) string {
	t.expect("L")
	t.count(1 << 20)
	k := t.count(1 << 12)
	chains := make([]poly.Contour[T], k)
	active := make([]bool, k)
	for i := 0; i < k; i++ {
		t.expect("C")
		active[i] = t.count(1) == 1
		nv := t.count(1 << 16)
		chains[i] = make(poly.Contour[T], nv)
		for v := 0; v < nv; v++ {
			x := parseNum(t.next())
			y := parseNum(t.next())
			if float64(T(x)) != x || float64(T(y)) != y {
				bad()
			}
			chains[i][v] = geom.Point[T]{X: T(x), Y: T(y)}
		}
	}
	if t.i != len(t.f) {
		bad()
	}
	r, ok := libGenerate(chains, active)
	if !ok {
		return "unobserved"
	}
	if !emptyAgrees(r) {
		return "empty-mismatch"
	}
	return "R " + fmtPoly(r)
}

func runSbt[T constraints.Float](t *tokens) string {
	k := t.count(1 << 16)
	ys := make([]T, k)
	for i := range ys {
		y := parseNum(t.next())
		if float64(T(y)) != y {
			bad()
		}
		ys[i] = T(y)
	}
	if t.i != len(t.f) {
		bad()
	}
	tab, ok := libScanBeamTable(ys)
	if !ok {
		return "unobserved"
	}
	var sb strings.Builder
	sb.WriteString("T " + strconv.Itoa(len(tab)))
	for _, y := range tab {
		sb.WriteString(" " + bitsOf(y))
	}
	return sb.String()
}

// stutter repeats vertices of a chain (consecutive duplicates, also at the end and across the closing edge)
func stutter(r *hx.Rng, c icontour) icontour {
	var d icontour
	for _, v := range c {
		d = append(d, v)
		for r.Chance(1, 4) {
			d = append(d, v)
		}
	}
	if len(c) > 0 && r.Chance(1, 4) {
		d = append(d, c[0]) // last vertex equals the first: not a consecutive duplicate for generate
	}
	return d
}

func genEmit(r *hx.Rng) string {
	n := hx.Pick(r, []int{2, 3, 4, 6, 8, 12})
	var sb strings.Builder
	var chains []icontour
	for _, c := range latticePoly(r, n) {
		chains = append(chains, c)
	}
	for i, k := 0, r.Intn(3); i < k; i++ {
		chains = append(chains, randRect(r, n))
	}
	for i, k := 0, r.Intn(3); i < k; i++ { // chains that must be dropped: 0, 1, 2 distinct consecutive vertices
		x, y := r.Intn(n+1), r.Intn(n+1)
		switch r.Intn(4) {
		case 0:
			chains = append(chains, icontour{})
		case 1:
			chains = append(chains, icontour{{x, y}})
		case 2:
			chains = append(chains, icontour{{x, y}, {x, y}, {x, y}})
		default:
			chains = append(chains, icontour{{x, y}, {x, y}, {r.Intn(n + 1), y}})
		}
	}
	for i := len(chains) - 1; i > 0; i-- {
		j := r.Intn(i + 1)
		chains[i], chains[j] = chains[j], chains[i]
	}
	sb.WriteString("emit " + hx.Pick(r, fts) + " L " + strconv.Itoa(n) + " " + strconv.Itoa(len(chains)))
	for _, c := range chains {
		if r.Chance(2, 3) {
			c = stutter(r, c)
		}
		act := "1"
		if r.Chance(1, 6) {
			act = "0"
		}
		sb.WriteString(" C " + act + " " + strconv.Itoa(len(c)))
		for _, v := range c {
			sb.WriteString(" " + strconv.Itoa(v.x) + " " + strconv.Itoa(v.y))
		}
	}
	return sb.String()
}

func genSbt(r *hx.Rng) string {
	ft := hx.Pick(r, fts)
	k := hx.Pick(r, []int{0, 1, 2, 3, 5, 8, 13, 32, 33, 64, 65, 100})
	var ys []float64
	base := hx.Pick(r, []float64{0, 0, 1, -3, 100, 1 << 20, 1e6})
	for len(ys) < k {
		switch r.Intn(8) {
		case 0: // duplicate of an earlier ordinate
			if len(ys) > 0 {
				ys = append(ys, ys[r.Intn(len(ys))])
			}
		case 1: // one ulp next to an earlier ordinate (closer than the clipper's epsilon: must stay a separate beam)
			if len(ys) > 0 {
				v := ys[r.Intn(len(ys))]
				if ft == "f32" {
					v = float64(math.Nextafter32(float32(v), float32(math.Inf(1))))
				} else {
					v = math.Nextafter(v, math.Inf(1))
				}
				ys = append(ys, v)
			}
		case 2: // closer than 1e-5 to an earlier ordinate
			if len(ys) > 0 {
				ys = append(ys, q32(ys[r.Intn(len(ys))]+math.Ldexp(float64(r.Range(1, 7)), -20)))
			}
		case 3: // ascending / descending runs (a degenerate, list-shaped tree)
			step := float64(r.Range(-2, 2))
			v := base + float64(r.Intn(16))
			for i := 0; i < 6 && len(ys) < k; i++ {
				ys = append(ys, v)
				v += step
			}
		case 4:
			ys = append(ys, math.Copysign(0, -1), 0)
		default:
			ys = append(ys, base+float64(r.Range(-16, 16))/float64(hx.Pick(r, []int{1, 1, 2, 4, 64})))
		}
	}
	var sb strings.Builder
	sb.WriteString("sbt " + ft + " " + strconv.Itoa(len(ys)))
	for _, y := range ys {
		if ft == "f32" {
			y = q32(y)
			sb.WriteString(" h" + pad(strconv.FormatUint(uint64(math.Float32bits(float32(y))), 16), 8))
		} else {
			sb.WriteString(" h" + pad(strconv.FormatUint(math.Float64bits(y), 16), 16))
		}
	}
	return sb.String()
}
