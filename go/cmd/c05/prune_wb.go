//go:build !nooverlay

package main

import (
	"github.com/richardwilkes/toolbox/xmath/geom"
	"github.com/richardwilkes/toolbox/xmath/geom/poly"
	"golang.org/x/exp/constraints"
)

// white-box view of the pruning step through go/overlay/c05_prune.go
func nonContributing[T constraints.Float](op string, a, b poly.Polygon[T]) (fa, fb []bool, ok bool) {
	fa, fb = poly.VerifNonContributing(op, a, b)
	return fa, fb, true
}

// white-box view of the emission step and of the scan-beam table through go/overlay/c05_emit.go
func libGenerate[T constraints.Float](chains []poly.Contour[T], active []bool) (poly.Polygon[T], bool) {
	cs := make([][]geom.Point[T], len(chains))
	for i, c := range chains {
		cs[i] = c
	}
	return poly.VerifGenerate(cs, active), true
}

func libScanBeamTable[T constraints.Float](ys []T) ([]T, bool) { return poly.VerifScanBeamTable(ys), true }

func libLocalMinima[T constraints.Float](p poly.Polygon[T], op string) (ys []T, bounds [][][][4]T, table []T, ok bool) {
	ys, bounds, table = poly.VerifLocalMinima(p, op)
	return ys, bounds, table, true
}
