package main

import (
	"math"
	"strconv"
	"strings"

	"github.com/richardwilkes/toolbox/xmath/geom"
	"github.com/richardwilkes/toolbox/xmath/geom/poly"
	"golang.org/x/exp/constraints"
	"verifharness/hx"
)

// LARGE inputs: many contours / many vertices, so that the scan-beam tree, the local-minima table and the active edge
// table get deep (long runs of descending, ascending and shuffled vertex ordinates).

// ---------------------------------------------------------------------------------------------- big lattice

func order(r *hx.Rng, k int) []int {
	idx := make([]int, k)
	for i := range idx {
		idx[i] = i
	}
	switch r.Intn(4) {
	case 0: // ascending
	case 1, 2: // descending (two shares: the deep left spine)
		for a, b := 0, k-1; a < b; a, b = a+1, b-1 {
			idx[a], idx[b] = idx[b], idx[a]
		}
	default: // shuffled
		for i := k - 1; i > 0; i-- {
			j := r.Intn(i + 1)
			idx[i], idx[j] = idx[j], idx[i]
		}
	}
	return idx
}

var thresholds = []int{12, 16, 17, 32, 33, 64, 65, 65, 66, 128, 129, 256, 257}

// rows: k rectangles of height 1 at distinct ordinates (gap 0, 1 or 2 between rows), listed in a chosen order;
// transposed = columns.  k is taken from the size thresholds or from 66..110.
func rows(r *hx.Rng, n, k, gap int, transposed bool) ipoly {
	y0 := r.Intn(n - k*(1+gap) + 1)
	fixed := r.Bool()
	x0, x1 := r.Intn(n/2), r.Range(n/2+1, n)
	p := make(ipoly, 0, k)
	for _, i := range order(r, k) {
		y := y0 + i*(1+gap)
		a, b := x0, x1
		if !fixed {
			a = r.Intn(n - 1)
			b = r.Range(a+1, n)
		}
		c := rect(a, y, b, y+1)
		if transposed {
			c = rect(y, a, y+1, b)
		}
		p = append(p, decorate(r, c))
	}
	return p
}

// bigStaircase: one contour with `steps` unit steps, closed along the right and the bottom.
func bigStaircase(r *hx.Rng, n int) icontour {
	steps := r.Range(min(66, n-3), n-2)
	if r.Bool() {
		if t := hx.Pick(r, []int{63, 64, 65, 127, 128, 129}); t <= n-2 {
			steps = t
		}
	}
	x0, y0 := r.Intn(n-steps), r.Intn(n-steps)
	var c icontour
	for i := 0; i < steps; i++ {
		c = append(c, ipt{x0 + i, y0 + i}, ipt{x0 + i, y0 + i + 1})
	}
	c = append(c, ipt{x0 + steps, y0 + steps}, ipt{x0 + steps, y0})
	if r.Bool() { // mirror in y: descending stairs
		for i := range c {
			c[i].y = n - c[i].y
		}
	}
	return decorate(r, c)
}

// comb: one contour with k horizontal teeth (height 1, gap 1) on a vertical spine.
func comb(r *hx.Rng, n int) icontour {
	k := min(r.Range(40, 130), (n-1)/2)
	y0 := r.Intn(n - 2*k + 1)
	spine, tip := r.Intn(n/3), r.Range(n/2, n)
	var c icontour
	c = append(c, ipt{spine, y0})
	for i := 0; i < k; i++ {
		y := y0 + 2*i
		c = append(c, ipt{tip, y}, ipt{tip, y + 1})
		if i+1 < k {
			c = append(c, ipt{spine + 1, y + 1}, ipt{spine + 1, y + 2})
		}
	}
	c = append(c, ipt{spine, y0 + 2*k - 1})
	if r.Bool() {
		for i := range c {
			c[i].y = n - c[i].y
		}
	}
	return decorate(r, c)
}

func bigLatticePoly(r *hx.Rng, n, k, gap int) ipoly {
	switch r.Intn(6) {
	case 0, 1:
		return rows(r, n, k, gap, false)
	case 2:
		return rows(r, n, k, gap, true)
	case 3:
		return ipoly{bigStaircase(r, n)}
	case 4:
		return ipoly{comb(r, n)}
	default:
		return append(rows(r, n, k, gap, false), bigStaircase(r, n))
	}
}

func genBigLattice(r *hx.Rng) string {
	k := r.Range(66, 110)
	if r.Chance(2, 5) {
		k = hx.Pick(r, thresholds)
	}
	gap := r.Intn(3)
	if k >= 128 {
		gap = 0
	}
	n := max(72, k*(1+gap)+r.Range(1, 8))
	a := bigLatticePoly(r, n, k, gap)
	var b ipoly
	switch r.Intn(8) {
	case 0: // a column crossing everything
		x0 := r.Intn(n - 1)
		b = ipoly{decorate(r, rect(x0, 0, r.Range(x0+1, n), n))}
	case 1:
		b = bigLatticePoly(r, n, k, gap)
	case 2:
		b = clampShift(a, r.Range(-1, 1), r.Range(-1, 1), n)
	case 3:
		b = a
	case 4:
		b = nested(r, n)
	case 5:
		b = nil
	default:
		b = latticePoly(r, n)
	}
	if r.Bool() {
		a, b = b, a
	}
	return hx.Pick(r, ops) + " " + hx.Pick(r, fts) + " L " + strconv.Itoa(n) + " A " + emptyTok(r, fmtIPoly(a)) + " B " + emptyTok(r, fmtIPoly(b))
}

// ---------------------------------------------------------------------------------------------- big general position

const (
	bigGenMargin  = 0.5     // vertex to non-incident edge / crossing to third edge
	bigSampMargin = "1/8"   // Lean margin for the sample points
	bigSampM      = 1.0 / 8 // same
)

func quant(v float64, ft string) float64 {
	if ft == "f32" {
		return q32(v)
	}
	return v
}

// ngon: regular or radially perturbed polygon with n vertices; phase chooses the first vertex (top, bottom, random).
func ngon(r *hx.Rng, ft string, span float64) fcontour {
	n := r.Range(100, 400)
	switch r.Intn(8) {
	case 0, 1:
		n = hx.Pick(r, []int{63, 64, 65, 127, 128, 129, 255, 256, 257, 258, 259, 260, 261})
	case 2:
		n = r.Range(1000, 1500)
	}
	rad := span * (0.15 + 0.3*rnd(r))
	if n >= 1000 {
		rad = span * (0.4 + 0.05*rnd(r))
	}
	cx := rad + (span-2*rad)*rnd(r)
	cy := rad + (span-2*rad)*rnd(r)
	ry := rad
	if r.Chance(1, 3) { // ellipse
		ry = rad * (0.5 + 0.5*rnd(r))
	}
	phase := 2 * math.Pi * rnd(r)
	switch r.Intn(3) {
	case 0:
		phase = math.Pi / 2 // start at the top: the ordinates descend for half of the contour
	case 1:
		phase = -math.Pi / 2
	}
	noise := 0.0
	if r.Chance(1, 3) {
		noise = 0.01
	}
	c := make(fcontour, n)
	for i := range c {
		ang := phase + 2*math.Pi*(float64(i)+0.25)/float64(n)
		k := 1 + noise*(2*rnd(r)-1)
		c[i] = fpt{quant(cx+k*rad*math.Cos(ang), ft), quant(cy+k*ry*math.Sin(ang), ft)}
	}
	return c
}

func fromLib[T constraints.Float](p poly.Polygon[T]) fpoly {
	out := make(fpoly, len(p))
	for i, c := range p {
		out[i] = make(fcontour, len(c))
		for j, v := range c {
			out[i][j] = fpt{float64(v.X), float64(v.Y)}
		}
	}
	return out
}

// libEllipse: the polygon poly.FromEllipse itself produces (computed in the operand float type).
func libEllipse(r *hx.Rng, ft string, span float64) fpoly {
	w := math.Round(span * (0.4 + 0.55*rnd(r)))
	h := math.Round(span * (0.4 + 0.55*rnd(r)))
	x := math.Round((span - w) * rnd(r))
	y := math.Round((span - h) * rnd(r))
	sections := 0
	if span < 6000 || r.Bool() {
		sections = r.Range(100, 400)
	}
	if ft == "f32" {
		return fromLib(poly.FromEllipse(geom.NewRect(float32(x), float32(y), float32(w), float32(h)), sections))
	}
	return fromLib(poly.FromEllipse(geom.NewRect(x, y, w, h), sections))
}

func libRect(r *hx.Rng, ft string, span float64) fpoly {
	w := math.Round(span * (0.2 + 0.6*rnd(r)))
	h := math.Round(span * (0.2 + 0.6*rnd(r)))
	x := math.Round((span-w)*rnd(r)*4) / 4
	y := math.Round((span-h)*rnd(r)*4) / 4
	if ft == "f32" {
		return fromLib(poly.FromRect(geom.NewRect(float32(x), float32(y), float32(w), float32(h))))
	}
	return fromLib(poly.FromRect(geom.NewRect(x, y, w, h)))
}

func smallPoly(r *hx.Rng, ft string, span float64) fpoly {
	n := r.Range(3, 6)
	c := make(fcontour, n)
	for i := range c {
		ang := (float64(i) + 0.2 + 0.6*rnd(r)) * 2 * math.Pi / float64(n)
		rad := span * (0.15 + 0.33*rnd(r))
		c[i] = fpt{quant(math.Round((span/2+rad*math.Cos(ang))*4)/4, ft), quant(math.Round((span/2+rad*math.Sin(ang))*4)/4, ft)}
	}
	return fpoly{c}
}

// hatch: k thin slanted strips; two hatches of opposite slant cross k*k times, many crossings per scan beam, and the
// result has up to k*k contours.
func hatch(r *hx.Rng, ft string, span float64, left bool) fpoly {
	k := hx.Pick(r, []int{3, 4, 5, 6, 8, 9, 12, 16, 17, 18})
	s := span / 2 / float64(k)
	var p fpoly
	j := func() float64 { return span * 0.004 * (2*rnd(r) - 1) }
	for i := 0; i < k; i++ {
		x0 := span*0.05 + float64(i)*s
		w := s * (0.3 + 0.2*rnd(r))
		sh := span * 0.3
		y0, y1 := span*0.1, span*0.9
		var c fcontour
		if left {
			c = fcontour{{x0 + sh + j(), y0 + j()}, {x0 + sh + w + j(), y0 + j()}, {x0 + w + j(), y1 + j()}, {x0 + j(), y1 + j()}}
		} else {
			c = fcontour{{x0 + j(), y0 + j()}, {x0 + w + j(), y0 + j()}, {x0 + w + sh + j(), y1 + j()}, {x0 + sh + j(), y1 + j()}}
		}
		for q := range c {
			c[q] = fpt{quant(c[q].x, ft), quant(c[q].y, ft)}
		}
		p = append(p, c)
	}
	return p
}

func bigPoly(r *hx.Rng, ft string, span float64) fpoly {
	switch r.Intn(5) {
	case 0:
		return libEllipse(r, ft, span)
	case 1: // ring: n-gon with a concentric hole
		o := ngon(r, ft, span)
		var cx, cy float64
		for _, v := range o {
			cx += v.x
			cy += v.y
		}
		cx /= float64(len(o))
		cy /= float64(len(o))
		in := make(fcontour, 0, len(o)/2)
		for i := len(o) - 1; i >= 0; i -= 2 {
			in = append(in, fpt{quant(cx+(o[i].x-cx)*0.6, ft), quant(cy+(o[i].y-cy)*0.6, ft)})
		}
		return fpoly{o, in}
	default:
		return fpoly{ngon(r, ft, span)}
	}
}

func pointsLine(op, ft, margin string, pts []fpt, a, b fpoly) string {
	var sb strings.Builder
	sb.WriteString(op + " " + ft + " P " + margin + " " + strconv.Itoa(len(pts)))
	for _, p := range pts {
		sb.WriteByte(' ')
		sb.WriteString(fmtNum(p.x))
		sb.WriteByte(' ')
		sb.WriteString(fmtNum(p.y))
	}
	sb.WriteString(" A " + fmtFPoly(a) + " B " + fmtFPoly(b))
	return sb.String()
}

func genBigGeneral(r *hx.Rng) string {
	for {
		ft := hx.Pick(r, fts)
		span := hx.Pick(r, []float64{1000, 1000, 7000})
		a := bigPoly(r, ft, span)
		var b fpoly
		switch r.Intn(7) {
		case 6: // two hatches of opposite slant (or a hatch against a big polygon)
			b = hatch(r, ft, span, true)
			if r.Chance(2, 3) {
				a = hatch(r, ft, span, false)
			}
		case 0:
			b = bigPoly(r, ft, span)
		case 1:
			b = libRect(r, ft, span)
		case 2:
			b = nil
		default:
			b = smallPoly(r, ft, span)
		}
		if r.Bool() {
			a, b = b, a
		}
		crossings, ok := generalPositionM(a, b, bigGenMargin)
		if !ok {
			continue
		}
		pts := samplePointsIn(r, a, b, crossings, 100, span, bigSampM)
		rotateStart(r, a)
		rotateStart(r, b)
		return pointsLine(hx.Pick(r, ops), ft, bigSampMargin, pts, a, b)
	}
}

// ---------------------------------------------------------------------------------------------- the demo scenarios
//
// `harness gen demo 1 1` prints the scenarios of seeded/ind3-c05-b/demo_test.go (360-gon circle starting at its top
// against a quadrilateral, both ways; the ellipse poly.FromEllipse picks 294 segments for; 70 lattice rows listed from
// the highest to the lowest against a column) for all four operations; the output is kept as the fixed corpus files
// corpus/C05/biggeneral.demo.ops and corpus/C05/biglattice.demo.ops.
func genDemo(r *hx.Rng, emit func(string)) {
	grid := func(lo, hi, step float64) []fpt {
		var pts []fpt
		for x := lo + 0.37*step; x < hi; x += step {
			for y := lo + 0.41*step; y < hi; y += step * 0.9 {
				pts = append(pts, fpt{math.Round(x*64) / 64, math.Round(y*64) / 64})
			}
		}
		return pts
	}
	for _, ft := range fts {
		c := make(fcontour, 360)
		for i := range c {
			ang := math.Pi/2 + 2*math.Pi*(float64(i)+0.25)/360
			c[i] = fpt{quant(500+400*math.Cos(ang), ft), quant(500+400*math.Sin(ang), ft)}
		}
		quad := fpoly{{{310.5, 40.25}, {905.75, 333.5}, {720.25, 960.5}, {120.5, 610.75}}}
		pts := grid(0, 1000, 47)
		for _, op := range ops {
			emit(pointsLine(op, ft, "1", pts, fpoly{c}, quad))
			emit(pointsLine(op, ft, "1", pts, quad, fpoly{c}))
		}
	}
	{
		e := fromLib(poly.FromEllipse(geom.NewRect[float64](100, 200, 7000, 6000), 0))
		quad := fpoly{{{3010.5, 40.25}, {6905.75, 3333.5}, {4720.25, 6960.5}, {120.5, 3610.75}}}
		pts := grid(0, 7200, 341)
		for _, op := range ops {
			emit(pointsLine(op, "f64", "5", pts, e, quad))
		}
	}
	if r != nil {
		emit("#lattice")
	}
	for _, ft := range fts {
		var rws ipoly
		for k := 0; k < 70; k++ {
			y := 3 * (70 - k)
			rws = append(rws, icontour{{2, y}, {30, y}, {30, y + 1}, {2, y + 1}})
		}
		col := ipoly{{{10, 0}, {20, 0}, {20, 220}, {10, 220}}}
		for _, op := range ops {
			emit(op + " " + ft + " L 220 A " + fmtIPoly(rws) + " B " + fmtIPoly(col))
		}
	}
}
