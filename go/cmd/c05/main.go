// Harness for C05 (polygon Boolean operations): executes ONE call of the real Union/Intersect/Sub/Xor per line and
// prints the result polygon with exact IEEE bit patterns; the Lean oracle (drv_c05) validates every call individually.
//
// Line grammar (blank separated words):
//
//	<op> <ft> L <N>                      A <poly> B <poly>      lattice mode  (exhaustive cell check on [0,N]^2)
//	<op> <ft> LT <N> <k> <ox> <oy>       A <poly> B <poly>      lattice mode, coordinates = (lattice + (ox,oy)) * 2^k
//	<op> <ft> P <margin> <k> (<x> <y>)*k A <poly> B <poly>      points mode   (sample points, margin filtered in Lean)
//	chain <ft> L <N> <m> (P <poly>)*m (S <op> <i>[c] <j>[c])*   chain of calls reusing results as operands (lattice)
//	op   := u | i | s | x            ft := f32 | f64
//	poly := nil | <contours> (<vertices> (<x> <y>)*vertices)*contours
//	num  := h<hex IEEE bits (8 digits = float32, 16 = float64)> | <int> | <int>/<power of two>
//
// Output: `R <poly>` (numbers as h<bits> of the operand float type) or `operands-modified` / `empty-mismatch` /
// `result-aliases-operand` /
// `panic` / `bad-op`; the process exits with status 124 when a call exceeds the watchdog limit.
package main

import (
	"math"
	"os"
	"strconv"
	"strings"
	"time"

	"github.com/richardwilkes/toolbox/xmath/geom"
	"github.com/richardwilkes/toolbox/xmath/geom/poly"
	"golang.org/x/exp/constraints"
	"verifharness/hx"
)

type badOp struct{}

func bad() { panic(badOp{}) }

// parseNum parses one number token exactly into a float64 (every float32 is a float64).
func parseNum(tok string) float64 {
	if strings.HasPrefix(tok, "h") {
		hexs := tok[1:]
		v, err := strconv.ParseUint(hexs, 16, 64)
		if err != nil {
			bad()
		}
		switch len(hexs) {
		case 8:
			return float64(math.Float32frombits(uint32(v)))
		case 16:
			return math.Float64frombits(v)
		default:
			bad()
		}
	}
	num, den := tok, "1"
	if i := strings.IndexByte(tok, '/'); i >= 0 {
		num, den = tok[:i], tok[i+1:]
	}
	n, err := strconv.ParseInt(num, 10, 64)
	if err != nil {
		bad()
	}
	d, err := strconv.ParseInt(den, 10, 64)
	if err != nil || d <= 0 || d&(d-1) != 0 {
		bad()
	}
	if n > 1<<52 || n < -(1<<52) {
		bad()
	}
	return float64(n) / float64(d) // exact: |n| < 2^53 and d is a power of two
}

type tokens struct {
	f []string
	i int
}

func (t *tokens) next() string {
	if t.i >= len(t.f) {
		bad()
	}
	s := t.f[t.i]
	t.i++
	return s
}

func (t *tokens) expect(w string) {
	if t.next() != w {
		bad()
	}
}

func (t *tokens) count(limit int) int {
	n, err := strconv.Atoi(t.next())
	if err != nil || n < 0 || n > limit {
		bad()
	}
	return n
}

// parsePoly parses one polygon.  `nil` denotes the nil polygon (as opposed to `0`, a non-nil polygon without
// contours).  A contour whose text equals a contour already seen on this line (in `seen`, if not nil) is passed as the
// SAME slice: operands that share contours.
func parsePoly[T constraints.Float](t *tokens, seen map[string]poly.Contour[T]) poly.Polygon[T] {
	if t.i < len(t.f) && t.f[t.i] == "nil" {
		t.i++
		return nil
	}
	nc := t.count(1 << 16)
	p := make(poly.Polygon[T], nc)
	for c := 0; c < nc; c++ {
		start := t.i
		nv := t.count(1 << 20)
		p[c] = make(poly.Contour[T], nv)
		for v := 0; v < nv; v++ {
			x := parseNum(t.next())
			y := parseNum(t.next())
			if float64(T(x)) != x || float64(T(y)) != y {
				bad() // the text must denote the operand exactly
			}
			p[c][v] = geom.Point[T]{X: T(x), Y: T(y)}
		}
		if seen != nil && nv > 0 {
			key := strings.Join(t.f[start:t.i], " ")
			if prev, ok := seen[key]; ok {
				p[c] = prev
			} else {
				seen[key] = p[c]
			}
		}
	}
	return p
}

func bitsOf[T constraints.Float](v T) string {
	var z T
	switch any(z).(type) {
	case float32:
		return "h" + pad(strconv.FormatUint(uint64(math.Float32bits(float32(v))), 16), 8)
	default:
		return "h" + pad(strconv.FormatUint(math.Float64bits(float64(v)), 16), 16)
	}
}

func pad(s string, n int) string {
	for len(s) < n {
		s = "0" + s
	}
	return s
}

func fmtPoly[T constraints.Float](p poly.Polygon[T]) string {
	var sb strings.Builder
	sb.WriteString(strconv.Itoa(len(p)))
	for _, c := range p {
		sb.WriteByte(' ')
		sb.WriteString(strconv.Itoa(len(c)))
		for _, v := range c {
			sb.WriteByte(' ')
			sb.WriteString(bitsOf(v.X))
			sb.WriteByte(' ')
			sb.WriteString(bitsOf(v.Y))
		}
	}
	return sb.String()
}

// deepCopy is independent of Polygon.Clone (which is part of the package under test).
func deepCopy[T constraints.Float](p poly.Polygon[T]) poly.Polygon[T] {
	if p == nil {
		return nil
	}
	q := make(poly.Polygon[T], len(p))
	for i, c := range p {
		if c != nil {
			q[i] = make(poly.Contour[T], len(c))
			copy(q[i], c)
		}
	}
	return q
}

func sameBits[T constraints.Float](p, q poly.Polygon[T]) bool {
	if len(p) != len(q) || (p == nil) != (q == nil) {
		return false
	}
	for i := range p {
		if len(p[i]) != len(q[i]) || (p[i] == nil) != (q[i] == nil) {
			return false
		}
		for j := range p[i] {
			if bitsOf(p[i][j].X) != bitsOf(q[i][j].X) || bitsOf(p[i][j].Y) != bitsOf(q[i][j].Y) {
				return false
			}
		}
	}
	return true
}

func apply[T constraints.Float](op string, a, b poly.Polygon[T]) poly.Polygon[T] {
	switch op {
	case "u":
		return a.Union(b)
	case "i":
		return a.Intersect(b)
	case "s":
		return a.Sub(b)
	case "x":
		return a.Xor(b)
	}
	bad()
	return nil
}

// emptyAgrees: Polygon.Empty must agree with "no contour has a vertex" (computed here, not by the library)
func emptyAgrees[T constraints.Float](r poly.Polygon[T]) bool {
	empty := true
	for _, c := range r {
		if len(c) != 0 {
			empty = false
		}
	}
	return r.Empty() == empty
}

func scribble[T constraints.Float](p poly.Polygon[T]) {
	for _, c := range p {
		for i := range c {
			c[i].X += 1
			c[i].Y = -c[i].Y - 3
		}
	}
}

func runT[T constraints.Float](op string, t *tokens, margin float64) string {
	seen := map[string]poly.Contour[T]{}
	t.expect("A")
	startA := t.i
	a := parsePoly[T](t, seen)
	textA := strings.Join(t.f[startA:t.i], " ")
	t.expect("B")
	startB := t.i
	b := parsePoly[T](t, seen)
	textB := strings.Join(t.f[startB:t.i], " ")
	if t.i != len(t.f) {
		bad()
	}
	if textA == textB && len(a) > 0 {
		b = a // identical operands are passed as the SAME slice (aliasing)
	}
	a0, b0 := deepCopy(a), deepCopy(b)
	r := apply(op, a, b)
	if !sameBits(a, a0) || !sameBits(b, b0) {
		return "operands-modified"
	}
	// Polygon.Empty is the library's meaning of "empty polygon": it is cross-checked on the result AND on the operands
	// (operands include nil, zero contours, and polygons whose contours have no vertex)
	if !emptyAgrees(r) || !emptyAgrees(a) || !emptyAgrees(b) {
		return "empty-mismatch"
	}
	// the result must not share memory with an operand: overwrite the operands, the result must stay as it was
	out := "R " + fmtPoly(r)
	scribble(a)
	if len(b) > 0 && (len(a) == 0 || &b[0] != &a[0]) {
		scribble(b)
	}
	if "R "+fmtPoly(r) != out {
		return "result-aliases-operand"
	}
	return out + resultPoints(r, margin)
}

// resultPoints: candidate sample points taken from the RESULT itself (points mode): for every result contour the
// average of its vertices and of three consecutive vertices, and the midpoints of its edges pushed to both sides by
// 1.5 and by 4 margins — so that area the result has on its own (where neither operand suggested a sample point) is
// judged too.  They are only candidates: the Lean oracle applies the exact margin test and judges them.  At most
// about 60 points per call; printed as exact float64 bit patterns after ` X <count>`.
func resultPoints[T constraints.Float](r poly.Polygon[T], margin float64) string {
	if margin <= 0 {
		return ""
	}
	edges := 0
	for _, c := range r {
		edges += len(c)
	}
	if edges == 0 {
		return ""
	}
	stride := edges/10 + 1
	var pts []float64
	// snap to a grid of about margin/64 (a power of two): short dyadics keep the exact arithmetic of the oracle cheap
	_, e := math.Frexp(margin)
	grid := math.Ldexp(1, e-7)
	add := func(x, y float64) {
		x, y = math.Round(x/grid)*grid, math.Round(y/grid)*grid
		if !math.IsNaN(x) && !math.IsInf(x, 0) && !math.IsNaN(y) && !math.IsInf(y, 0) {
			pts = append(pts, x, y)
		}
	}
	k := 0
	for _, c := range r {
		n := len(c)
		if n < 3 {
			continue
		}
		var sx, sy float64
		for _, v := range c {
			sx += float64(v.X)
			sy += float64(v.Y)
		}
		if len(pts) < 40 {
			add(sx/float64(n), sy/float64(n))
		}
		for i := 0; i < n; i++ {
			k++
			if k%stride != 0 {
				continue
			}
			a, b, d := c[i], c[(i+1)%n], c[(i+2)%n]
			ax, ay, bx, by := float64(a.X), float64(a.Y), float64(b.X), float64(b.Y)
			add((ax+bx+float64(d.X))/3, (ay+by+float64(d.Y))/3)
			dx, dy := bx-ax, by-ay
			l := math.Hypot(dx, dy)
			if l == 0 {
				continue
			}
			mx, my := (ax+bx)/2, (ay+by)/2
			for _, f := range []float64{1.5, -1.5, 4, -4} {
				add(mx-dy/l*margin*f, my+dx/l*margin*f)
			}
		}
	}
	var sb strings.Builder
	sb.WriteString(" X " + strconv.Itoa(len(pts)/2))
	for _, v := range pts {
		sb.WriteString(" h" + pad(strconv.FormatUint(math.Float64bits(v), 16), 16))
	}
	return sb.String()
}

func sameValues[T constraints.Float](p, q poly.Polygon[T]) bool {
	if len(p) != len(q) {
		return false
	}
	for i := range p {
		if len(p[i]) != len(q[i]) {
			return false
		}
		for j := range p[i] {
			if bitsOf(p[i][j].X) != bitsOf(q[i][j].X) || bitsOf(p[i][j].Y) != bitsOf(q[i][j].Y) {
				return false
			}
		}
	}
	return true
}

// runChain: `chain <ft> L <N> <m> (P <poly>)*m (S <op> <i>[c] <j>[c])*`: each step is one clipper call whose operands
// are pool entries (initial polygons, or the polygons RETURNED by earlier steps, reused as they are); a `c` suffix
// passes Polygon.Clone() of the entry (which must hold the same values).  After every step the whole pool is compared
// with a snapshot (no operand modified), the result is overwritten and restored (it must not share memory with any pool
// entry) and Polygon.Empty is cross-checked.  Output: `R <poly>` per step.
func runChain[T constraints.Float](t *tokens) string {
	t.expect("L")
	t.count(1 << 20)
	m := t.count(64)
	seen := map[string]poly.Contour[T]{}
	var pool []poly.Polygon[T]
	for i := 0; i < m; i++ {
		t.expect("P")
		pool = append(pool, parsePoly[T](t, seen))
	}
	var sb strings.Builder
	operand := func(tok string) poly.Polygon[T] {
		clone := strings.HasSuffix(tok, "c")
		idx, err := strconv.Atoi(strings.TrimSuffix(tok, "c"))
		if err != nil || idx < 0 || idx >= len(pool) {
			bad()
		}
		if !clone {
			return pool[idx]
		}
		c := pool[idx].Clone()
		if !sameValues(c, pool[idx]) {
			panic("clone-differs")
		}
		return c
	}
	for t.i < len(t.f) {
		t.expect("S")
		op := t.next()
		a := operand(t.next())
		b := operand(t.next())
		snap := make([]poly.Polygon[T], len(pool))
		for i := range pool {
			snap[i] = deepCopy(pool[i])
		}
		r := apply(op, a, b)
		for i := range pool {
			if !sameBits(pool[i], snap[i]) {
				return sb.String() + "operands-modified"
			}
		}
		if !emptyAgrees(r) || !emptyAgrees(a) || !emptyAgrees(b) {
			return sb.String() + "empty-mismatch"
		}
		keep := deepCopy(r)
		scribble(r)
		for i := range pool {
			if !sameBits(pool[i], snap[i]) {
				return sb.String() + "result-aliases-operand"
			}
		}
		for i := range r {
			copy(r[i], keep[i])
		}
		sb.WriteString("R " + fmtPoly(r) + " ")
		pool = append(pool, r)
	}
	return strings.TrimSpace(sb.String())
}

type area struct{ kind int }

// Every call runs under a watchdog: a clipper that loops costs callTimeout, not the stream's timeout.  A looping
// goroutine cannot be killed (and may allocate without bound), so the PROCESS exits with status 124; core.run_impl then
// attributes the death to the line (`crash:exit124`) and skips the rest of the stream.  vlib/C05.py re-runs such a line
// alone with a longer limit (C05_CALL_TIMEOUT_MS) before it reports it, so a stall of an overloaded machine is not
// mistaken for a loop.
var callTimeout = 2 * time.Second

func (a area) Run(line string) string {
	done := make(chan string, 1)
	go func() {
		defer func() {
			if r := recover(); r != nil {
				if _, ok := r.(badOp); ok {
					done <- "bad-op"
				} else {
					done <- "panic"
				}
			}
		}()
		done <- runLine(line, a.kind == 9, a.kind == 12, a.kind == 13)
	}()
	select {
	case out := <-done:
		return out
	case <-time.After(callTimeout):
		os.Exit(124)
		return "timeout"
	}
}

func runLine(line string, prune, contains, lmt bool) string {
	t := &tokens{f: strings.Fields(line)}
	op := t.next()
	ft := t.next()
	if op == "emit" || op == "sbt" { // stages of the clipper seen through the overlay (emit.go)
		switch {
		case op == "emit" && ft == "f32":
			return runEmit[float32](t)
		case op == "emit" && ft == "f64":
			return runEmit[float64](t)
		case op == "sbt" && ft == "f32":
			return runSbt[float32](t)
		case op == "sbt" && ft == "f64":
			return runSbt[float64](t)
		}
		return "bad-op"
	}
	if op == "chain" {
		switch ft {
		case "f32":
			return runChain[float32](t)
		case "f64":
			return runChain[float64](t)
		}
		return "bad-op"
	}
	margin := 0.0
	var pts []float64 // area `contains`: the points the library's own tests are evaluated at
	switch t.next() {
	case "L":
		n := t.count(1 << 20)
		if contains && n <= 64 {
			for j := 0; j < n; j++ {
				for i := 0; i < n; i++ {
					pts = append(pts, float64(i)+0.5, float64(j)+0.5)
				}
			}
		}
	case "LT": // lattice at another magnitude: <N> <k> <ox> <oy>, coordinate = (lattice + offset) * 2^k
		t.count(1 << 20)
		for i := 0; i < 3; i++ {
			if _, err := strconv.ParseInt(t.next(), 10, 64); err != nil {
				bad()
			}
		}
	case "P":
		margin = parseNum(t.next())
		k := t.count(1 << 20)
		for i := 0; i < 2*k; i++ {
			v := parseNum(t.next())
			if contains {
				pts = append(pts, v)
			}
		}
	default:
		bad()
	}
	if contains { // area `contains`: Polygon.ContainsEvenOdd / Polygon.Contains of the operands at the points of the line
		switch ft {
		case "f32":
			return runContains[float32](t, pts)
		case "f64":
			return runContains[float64](t, pts)
		}
		return "bad-op"
	}
	if lmt { // area `lmt`: the local minima table of A
		switch ft {
		case "f32":
			return runLmt[float32](op, t)
		case "f64":
			return runLmt[float64](op, t)
		}
		return "bad-op"
	}
	if prune { // area `prune`: the flags of the bounding-box pruning step instead of the result of the call
		switch ft {
		case "f32":
			return runPrune[float32](op, t)
		case "f64":
			return runPrune[float64](op, t)
		}
		return "bad-op"
	}
	switch ft {
	case "f32":
		return runT[float32](op, t, margin)
	case "f64":
		return runT[float64](op, t, margin)
	}
	return "bad-op"
}

func (a area) Gen(r *hx.Rng, n int, tier string, emit func(string)) {
	for i := 0; i < n; i++ {
		switch a.kind {
		case 1:
			emit(genGeneral(r.Fork()))
		case 2:
			emit(genDegenerate(r.Fork()))
		case 3:
			emit(genBigLattice(r.Fork()))
		case 4:
			emit(genBigGeneral(r.Fork()))
		case 5:
			genDemo(r, emit)
			return
		case 6:
			emit(genChain(r.Fork()))
		case 7:
			emit(genTinyGeneral(r.Fork()))
		case 8:
			emit(genTinyLattice(r.Fork()))
		case 9:
			emit(genPrune(r.Fork()))
		case 10:
			emit(genEmit(r.Fork()))
		case 11:
			emit(genSbt(r.Fork()))
		case 12:
			emit(genContains(r.Fork()))
		case 13:
			emit(genLmt(r.Fork()))
		default:
			emit(genLattice(r.Fork()))
		}
	}
}

func main() {
	if ms, err := strconv.Atoi(os.Getenv("C05_CALL_TIMEOUT_MS")); err == nil && ms > 0 {
		callTimeout = time.Duration(ms) * time.Millisecond
	}
	hx.Main(map[string]hx.Area{"lattice": area{kind: 0}, "general": area{kind: 1}, "degenerate": area{kind: 2},
		"biglattice": area{kind: 3}, "biggeneral": area{kind: 4}, "demo": area{kind: 5},
		"chain": area{kind: 6}, "tinygeneral": area{kind: 7}, "tinylattice": area{kind: 8}, "prune": area{kind: 9},
		"emit": area{kind: 10}, "sbt": area{kind: 11}, "contains": area{kind: 12},
		"lmt": area{kind: 13}})
}
