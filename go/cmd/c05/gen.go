package main

import (
	"math"
	"strconv"
	"strings"

	"verifharness/hx"
)

// ---------------------------------------------------------------------------------------------- lattice family

type ipt struct{ x, y int }
type icontour []ipt
type ipoly []icontour

func rect(x0, y0, x1, y1 int) icontour {
	return icontour{{x0, y0}, {x1, y0}, {x1, y1}, {x0, y1}}
}

func randRect(r *hx.Rng, n int) icontour {
	x0 := r.Intn(n)
	x1 := r.Range(x0+1, n)
	y0 := r.Intn(n)
	y1 := r.Range(y0+1, n)
	return rect(x0, y0, x1, y1)
}

// staircase: a monotone staircase from (x0,y0) up and to the right, closed along the right and bottom sides.
func staircase(r *hx.Rng, n int) icontour {
	steps := r.Range(1, 5)
	xs := []int{r.Intn(n)}
	ys := []int{r.Intn(n)}
	for i := 0; i < steps; i++ {
		if xs[len(xs)-1] >= n || ys[len(ys)-1] >= n {
			break
		}
		xs = append(xs, r.Range(xs[len(xs)-1]+1, n))
		ys = append(ys, r.Range(ys[len(ys)-1]+1, n))
	}
	if len(xs) < 2 {
		return randRect(r, n)
	}
	var c icontour
	// up the stairs: (x0,y0) -> (x0,y1) -> (x1,y1) -> (x1,y2) ...
	for i := 0; i+1 < len(xs); i++ {
		c = append(c, ipt{xs[i], ys[i]}, ipt{xs[i], ys[i+1]})
	}
	last := len(xs) - 1
	c = append(c, ipt{xs[last], ys[last]}, ipt{xs[last], ys[0]})
	return c
}

// alternating: x_0..x_{m-1}, y_0..y_{m-1} random; vertices (x0,y0)(x1,y0)(x1,y1)(x2,y1)...(x0,y_{m-1}); the contour
// may cross and overlap itself and may contain zero-length edges.
func alternating(r *hx.Rng, n int) icontour {
	m := r.Range(2, 6)
	xs := make([]int, m)
	ys := make([]int, m)
	for i := range xs {
		xs[i] = r.Range(0, n)
		ys[i] = r.Range(0, n)
	}
	var c icontour
	for i := 0; i < m; i++ {
		c = append(c, ipt{xs[i], ys[i]}, ipt{xs[(i+1)%m], ys[i]})
	}
	return c
}

// nested: concentric rectangles (holes, islands in holes); rings may touch when n is small.
func nested(r *hx.Rng, n int) ipoly {
	var p ipoly
	x0, y0, x1, y1 := 0, 0, n, n
	if n >= 4 {
		x0, y0 = r.Intn(2), r.Intn(2)
		x1, y1 = n-r.Intn(2), n-r.Intn(2)
	}
	depth := r.Range(1, 4)
	for d := 0; d < depth && x1-x0 >= 1 && y1-y0 >= 1; d++ {
		p = append(p, rect(x0, y0, x1, y1))
		dx0, dy0, dx1, dy1 := r.Range(0, 2), r.Range(0, 2), r.Range(0, 2), r.Range(0, 2)
		if r.Chance(3, 4) {
			dx0, dy0, dx1, dy1 = max(dx0, 1), max(dy0, 1), max(dx1, 1), max(dy1, 1)
		}
		x0, y0, x1, y1 = x0+dx0, y0+dy0, x1-dx1, y1-dy1
	}
	return p
}

func decorate(r *hx.Rng, c icontour) icontour {
	if len(c) == 0 {
		return c
	}
	if r.Bool() { // direction
		d := make(icontour, len(c))
		for i := range c {
			d[i] = c[len(c)-1-i]
		}
		c = d
	}
	if r.Bool() { // start vertex
		k := r.Intn(len(c))
		c = append(append(icontour{}, c[k:]...), c[:k]...)
	}
	if r.Chance(1, 3) { // redundant vertices: lattice points inside horizontal / vertical edges, repeated vertices
		c = redundant(r, c)
	}
	return c
}

func abs(a int) int {
	if a < 0 {
		return -a
	}
	return a
}

func latticePoly(r *hx.Rng, n int) ipoly {
	var p ipoly
	switch r.Intn(9) {
	case 0:
		return nil // empty operand (printed as `0` or `nil`)
	case 8: // only contours that bound no area, or a regular polygon plus such contours
		if r.Bool() {
			p = latticePoly(r, n)
		}
		for i, k := 0, r.Range(1, 3); i < k; i++ {
			p = append(p, degenerateContour(r, n))
		}
		if r.Bool() && len(p) > 1 {
			p[0], p[len(p)-1] = p[len(p)-1], p[0]
		}
		return p
	case 1:
		return nested(r, n)
	case 2: // several rectangles (overlaps inside ONE operand cancel under the even-odd rule)
		for i, k := 0, r.Range(1, 4); i < k; i++ {
			p = append(p, randRect(r, n))
		}
	case 3:
		p = append(p, staircase(r, n))
	case 4:
		p = append(p, alternating(r, n))
	default: // 1-3 contours of mixed kinds
		for i, k := 0, r.Range(1, 3); i < k; i++ {
			switch r.Intn(3) {
			case 0:
				p = append(p, randRect(r, n))
			case 1:
				p = append(p, staircase(r, n))
			default:
				p = append(p, alternating(r, n))
			}
		}
	}
	for i := range p {
		p[i] = decorate(r, p[i])
	}
	return p
}

func clampShift(p ipoly, dx, dy, n int) ipoly {
	q := make(ipoly, len(p))
	for i, c := range p {
		q[i] = make(icontour, len(c))
		for j, v := range c {
			q[i][j] = ipt{min(max(v.x+dx, 0), n), min(max(v.y+dy, 0), n)}
		}
	}
	return q
}

func bbox(p ipoly) (x0, y0, x1, y1 int, ok bool) {
	for _, c := range p {
		for _, v := range c {
			if !ok {
				x0, y0, x1, y1, ok = v.x, v.y, v.x, v.y, true
			}
			x0, y0, x1, y1 = min(x0, v.x), min(y0, v.y), max(x1, v.x), max(y1, v.y)
		}
	}
	return
}

func fmtIPoly(p ipoly) string {
	var sb strings.Builder
	sb.WriteString(strconv.Itoa(len(p)))
	for _, c := range p {
		sb.WriteByte(' ')
		sb.WriteString(strconv.Itoa(len(c)))
		for _, v := range c {
			sb.WriteByte(' ')
			sb.WriteString(strconv.Itoa(v.x))
			sb.WriteByte(' ')
			sb.WriteString(strconv.Itoa(v.y))
		}
	}
	return sb.String()
}

var ops = []string{"u", "i", "s", "x"}
var fts = []string{"f32", "f64"}

func genLattice(r *hx.Rng) string {
	n := hx.Pick(r, []int{1, 2, 3, 3, 4, 4, 5, 6, 6, 8, 8, 10, 12, 12})
	a := latticePoly(r, n)
	var b ipoly
	switch r.Intn(13) {
	case 10: // three and more coincident edges on one line
		n = max(n, 3)
		a, b = coincident(r, n)
	case 11: // several contours on both sides, asymmetric overlap
		n = max(n, 3)
		a, b = clusters(r, n)
	case 12: // B repeats one contour of A (passed as the same contour slice) next to contours of its own
		b = latticePoly(r, n)
		if len(a) > 0 {
			b = append(ipoly{a[r.Intn(len(a))]}, b...)
		}
	case 0: // identical operands (passed as the same slice)
		b = a
	case 1: // a copy shifted by one lattice step (clamped: long shared and abutting edges)
		b = clampShift(a, r.Range(-1, 1), r.Range(-1, 1), n)
	case 2: // a rectangle abutting the bounding box of A
		if x0, y0, x1, y1, ok := bbox(a); ok && x1 < n && y1 > y0 {
			b = ipoly{decorate(r, rect(x1, y0, r.Range(x1+1, n), y1))}
		} else if ok && y1 < n && x1 > x0 {
			b = ipoly{decorate(r, rect(x0, y1, x1, r.Range(y1+1, n)))}
		} else {
			b = latticePoly(r, n)
		}
	case 3: // the bounding box of A itself, or the whole square
		if x0, y0, x1, y1, ok := bbox(a); ok && x1 > x0 && y1 > y0 && r.Bool() {
			b = ipoly{decorate(r, rect(x0, y0, x1, y1))}
		} else {
			b = ipoly{decorate(r, rect(0, 0, n, n))}
		}
	default:
		b = latticePoly(r, n)
	}
	if r.Bool() {
		a, b = b, a
	}
	ft := hx.Pick(r, fts)
	if r.Chance(1, 6) { // other magnitudes: (lattice + offset) * 2^k
		return hx.Pick(r, ops) + " " + latticeMagnitude(r, ft, n, a, b)
	}
	return hx.Pick(r, ops) + " " + ft + " L " + strconv.Itoa(n) + " A " + emptyTok(r, fmtIPoly(a)) + " B " + emptyTok(r, fmtIPoly(b))
}

// ---------------------------------------------------------------------------------------------- general position

type fpt struct{ x, y float64 }
type fcontour []fpt
type fpoly []fcontour

const (
	span       = 16.0       // coordinates lie in [0,span]
	genMargin  = 1.0 / 16   // general position: vertex to non-incident edge, pairwise crossing to third edge
	sampMargin = "1/64"     // sample points are kept this far from every edge of A, B and R (decided in Lean)
	sampM      = 1.0 / 64.0 // same, for placing near-edge candidates
	grid       = 65536.0    // sample points are multiples of 1/65536
)

// quantise to what both float32 and float64 hold exactly
func q32(v float64) float64 { return float64(float32(v)) }

func randCoord(r *hx.Rng, mode int) float64 {
	switch mode {
	case 0: // full-precision float32 value (exact in both types)
		return q32(float64(r.U64()>>11) / float64(1<<53) * span)
	case 1: // multiples of 1/8: equal ordinates, horizontal and vertical edges do occur
		return float64(r.Intn(int(span)*8+1)) / 8
	case 2: // multiples of 1/1024
		return float64(r.Intn(int(span)*1024+1)) / 1024
	default: // full float64 precision (float64 operands only)
		return float64(r.U64()>>11) / float64(1<<53) * span
	}
}

func starContour(r *hx.Rng, mode int, cx, cy, rad float64) fcontour {
	n := r.Range(3, 8)
	angles := make([]float64, n)
	for i := range angles {
		angles[i] = (float64(i) + 0.15 + 0.7*float64(r.U64()>>11)/float64(1<<53)) * 2 * math.Pi / float64(n)
	}
	c := make(fcontour, n)
	for i, a := range angles {
		rr := rad * (0.35 + 0.65*float64(r.U64()>>11)/float64(1<<53))
		x := min(max(cx+rr*math.Cos(a), 0), span)
		y := min(max(cy+rr*math.Sin(a), 0), span)
		switch mode {
		case 1:
			x, y = math.Round(x*8)/8, math.Round(y*8)/8
		case 2:
			x, y = math.Round(x*1024)/1024, math.Round(y*1024)/1024
		case 0:
			x, y = q32(x), q32(y)
		}
		c[i] = fpt{x, y}
	}
	return c
}

func randomContour(r *hx.Rng, mode int) fcontour {
	n := r.Range(3, 7)
	c := make(fcontour, n)
	for i := range c {
		c[i] = fpt{randCoord(r, mode), randCoord(r, mode)}
	}
	return c
}

func generalPoly(r *hx.Rng, mode int) fpoly {
	var p fpoly
	switch r.Intn(7) {
	case 6:
		p = islands(r, mode)
	case 0: // self-intersecting random polygon
		p = fpoly{randomContour(r, mode)}
	case 1: // star-shaped simple polygon
		p = fpoly{starContour(r, mode, 3+10*rnd(r), 3+10*rnd(r), 2+5*rnd(r))}
	case 2: // polygon with a hole (inner star around the same centre, smaller radius) and possibly an island
		cx, cy := 5+6*rnd(r), 5+6*rnd(r)
		outer := starContour(r, mode, cx, cy, 5)
		for i := range outer { // push the outer ring out so that the hole fits
			outer[i] = fpt{cx + (outer[i].x-cx)*1.0, cy + (outer[i].y-cy)*1.0}
		}
		p = fpoly{outer, starContour(r, mode, cx, cy, 1.6)}
	case 3: // two or three contours, any kind
		for i, k := 0, r.Range(2, 3); i < k; i++ {
			if r.Bool() {
				p = append(p, randomContour(r, mode))
			} else {
				p = append(p, starContour(r, mode, 3+10*rnd(r), 3+10*rnd(r), 1.5+4*rnd(r)))
			}
		}
	case 4: // triangle or quadrilateral
		n := r.Range(3, 4)
		c := make(fcontour, n)
		for i := range c {
			c[i] = fpt{randCoord(r, mode), randCoord(r, mode)}
		}
		p = fpoly{c}
	default:
		p = fpoly{starContour(r, mode, 8, 8, 3+5*rnd(r))}
	}
	for i := range p {
		if r.Bool() {
			c := p[i]
			for a, b := 0, len(c)-1; a < b; a, b = a+1, b-1 {
				c[a], c[b] = c[b], c[a]
			}
		}
	}
	return p
}

func rnd(r *hx.Rng) float64 { return float64(r.U64()>>11) / float64(1<<53) }

type seg struct {
	a, b   fpt
	ci, vi int // contour id (global), index of a in the contour
	n      int // vertices in the contour
}

func segments(ps ...fpoly) []seg {
	var out []seg
	id := 0
	for _, p := range ps {
		for _, c := range p {
			for i := range c {
				out = append(out, seg{c[i], c[(i+1)%len(c)], id, i, len(c)})
			}
			id++
		}
	}
	return out
}

func distPtSeg(p, a, b fpt) float64 {
	dx, dy := b.x-a.x, b.y-a.y
	l2 := dx*dx + dy*dy
	if l2 == 0 {
		return math.Hypot(p.x-a.x, p.y-a.y)
	}
	t := ((p.x-a.x)*dx + (p.y-a.y)*dy) / l2
	t = min(max(t, 0), 1)
	return math.Hypot(p.x-(a.x+t*dx), p.y-(a.y+t*dy))
}

func segIntersection(s, t seg) (fpt, bool) {
	d1x, d1y := s.b.x-s.a.x, s.b.y-s.a.y
	d2x, d2y := t.b.x-t.a.x, t.b.y-t.a.y
	den := d1x*d2y - d1y*d2x
	if den == 0 {
		return fpt{}, false
	}
	u := ((t.a.x-s.a.x)*d2y - (t.a.y-s.a.y)*d2x) / den
	v := ((t.a.x-s.a.x)*d1y - (t.a.y-s.a.y)*d1x) / den
	if u < 0 || u > 1 || v < 0 || v > 1 {
		return fpt{}, false
	}
	return fpt{s.a.x + u*d1x, s.a.y + u*d1y}, true
}

func incident(s seg, t seg) bool { // do the two edges share a vertex of the same contour
	if s.ci != t.ci {
		return false
	}
	d := (s.vi - t.vi + s.n) % s.n
	return d == 0 || d == 1 || d == s.n-1
}

// generalPosition: every vertex is at least genMargin from every non-incident edge (of A and of B), every crossing
// point of two edges is at least genMargin from every third edge, and contours have no zero-length edge.
func generalPosition(a, b fpoly) ([]fpt, bool) { return generalPositionM(a, b, genMargin) }

func generalPositionM(a, b fpoly, genMargin float64) ([]fpt, bool) {
	segs := segments(a, b)
	for _, s := range segs {
		if s.a == s.b {
			return nil, false
		}
	}
	for i, s := range segs {
		for j, t := range segs {
			if i == j {
				continue
			}
			// vertex s.a against edge t unless t is one of the two edges at s.a
			if !(s.ci == t.ci && (t.vi == s.vi || (t.vi+1)%t.n == s.vi)) {
				if distPtSeg(s.a, t.a, t.b) < genMargin {
					return nil, false
				}
			}
		}
	}
	var crossings []fpt
	for i := range segs {
		for j := i + 1; j < len(segs); j++ {
			if incident(segs[i], segs[j]) {
				continue
			}
			x, ok := segIntersection(segs[i], segs[j])
			if !ok {
				continue
			}
			crossings = append(crossings, x)
			for k := range segs {
				if k == i || k == j {
					continue
				}
				if distPtSeg(x, segs[k].a, segs[k].b) < genMargin {
					return nil, false
				}
			}
		}
	}
	return crossings, true
}

func fmtNum(v float64) string {
	if v == math.Trunc(v) && math.Abs(v) < 1<<40 {
		return strconv.FormatInt(int64(v), 10)
	}
	for d := int64(2); d <= 1<<30; d *= 2 {
		if w := v * float64(d); w == math.Trunc(w) && math.Abs(w) < 1<<52 {
			return strconv.FormatInt(int64(w), 10) + "/" + strconv.FormatInt(d, 10)
		}
	}
	return "h" + pad(strconv.FormatUint(math.Float64bits(v), 16), 16)
}

func fmtFPoly(p fpoly) string {
	var sb strings.Builder
	sb.WriteString(strconv.Itoa(len(p)))
	for _, c := range p {
		sb.WriteByte(' ')
		sb.WriteString(strconv.Itoa(len(c)))
		for _, v := range c {
			sb.WriteByte(' ')
			sb.WriteString(fmtNum(v.x))
			sb.WriteByte(' ')
			sb.WriteString(fmtNum(v.y))
		}
	}
	return sb.String()
}

func samplePoints(r *hx.Rng, a, b fpoly, crossings []fpt, k int) []fpt {
	return samplePointsIn(r, a, b, crossings, k, span, sampM)
}

func samplePointsIn(r *hx.Rng, a, b fpoly, crossings []fpt, k int, span, sampM float64) []fpt {
	segs := segments(a, b)
	pts := make([]fpt, 0, k)
	snap := func(v float64) float64 { return math.Round(v*grid) / grid }
	for len(pts) < k {
		var p fpt
		switch c := r.Intn(10); {
		case c < 4 || len(segs) == 0: // uniform over the square plus a border
			p = fpt{-span/16 + (span+span/8)*rnd(r), -span/16 + (span+span/8)*rnd(r)}
		case c < 8: // just off an edge of A or B, on either side
			s := segs[r.Intn(len(segs))]
			t := rnd(r)
			dx, dy := s.b.x-s.a.x, s.b.y-s.a.y
			l := math.Hypot(dx, dy)
			off := sampM * (1.05 + 2*rnd(r))
			if r.Bool() {
				off = -off
			}
			p = fpt{s.a.x + t*dx - dy/l*off, s.a.y + t*dy + dx/l*off}
		case c < 9 && len(crossings) > 0: // around a crossing point
			x := crossings[r.Intn(len(crossings))]
			ang := 2 * math.Pi * rnd(r)
			rad := sampM * (1.5 + 3*rnd(r))
			p = fpt{x.x + rad*math.Cos(ang), x.y + rad*math.Sin(ang)}
		default: // around a vertex
			s := segs[r.Intn(len(segs))]
			ang := 2 * math.Pi * rnd(r)
			rad := sampM * (1.5 + 3*rnd(r))
			p = fpt{s.a.x + rad*math.Cos(ang), s.a.y + rad*math.Sin(ang)}
		}
		pts = append(pts, fpt{snap(p.x), snap(p.y)})
	}
	return pts
}

func genGeneral(r *hx.Rng) string {
	return genGeneralX(r, nil)
}

// genGeneralX: a general-position call; `force` fixes the magnitude transform (observation streams).
func genGeneralX(r *hx.Rng, force *xform) string {
	for {
		ft := hx.Pick(r, fts)
		mode := hx.Pick(r, []int{0, 0, 0, 1, 2})
		if ft == "f64" {
			mode = hx.Pick(r, []int{0, 3, 3, 3, 1, 2})
		}
		a := generalPoly(r, mode)
		var b fpoly
		if r.Chance(1, 12) {
			b = nil
		} else {
			b = generalPoly(r, mode)
		}
		if r.Bool() {
			a, b = b, a
		}
		rotateStart(r, a)
		rotateStart(r, b)
		op := hx.Pick(r, ops)
		special := false
		if r.Chance(1, 7) && len(a) > 0 && len(b) > 0 { // the combined region is PROVABLY empty (EO.emptyCert)
			op, a, b = emptyRegion(r, ft, a, b)
			special = true
		} else if r.Chance(1, 5) && len(a) > 0 && len(b) > 0 { // disjoint / nested with OVERLAPPING boxes: the sweep decides
			op, a, b = disjointOverlap(r, ft, a, b)
			special = true
		}
		if !special && len(a) > 0 && len(b) > 0 && abCrossings(a, b) == 0 && r.Chance(3, 4) {
			continue // most regular calls are pairs whose boundaries cross
		}
		if r.Chance(1, 4) && !sameFPoly(a, b) { // coordinates that differ by 1e-5 … 1e-9 without being equal
			nudge(r, ft, a, b)
		}
		crossings, ok := generalPosition(a, b)
		if sameFPoly(a, b) { // identical operands (the same slice): general position of the polygon itself
			crossings, ok = generalPosition(a, nil)
		}
		if !ok {
			continue
		}
		k := 100
		// the sampling margin: 1/64, and for a third of the float64 calls 1/1024 (a positional error of the result
		// between the two margins is visible to the smaller one)
		mexp := 6
		if ft == "f64" && r.Chance(1, 3) {
			mexp = 10
		}
		pts := samplePointsIn(r, a, b, crossings, k, span, math.Ldexp(1, -mexp))
		margin := "1/" + strconv.Itoa(1<<uint(mexp))
		var x *xform
		if force != nil {
			x = force
		} else if r.Chance(1, 6) {
			t := pickXform(r, ft)
			x = &t
		}
		if x != nil { // another magnitude: the transformed values are the input; general position is re-checked on them
			same := sameFPoly(a, b)
			a, b = x.poly(a, ft), x.poly(b, ft)
			other := b
			if same {
				b, other = a, nil
			}
			if _, ok := generalPositionM(a, other, math.Ldexp(genMargin, x.k)*0.9); !ok {
				continue
			}
			for i := range pts {
				pts[i] = fpt{math.Ldexp(pts[i].x+x.tx, x.k), math.Ldexp(pts[i].y+x.ty, x.k)}
			}
			margin = x.marginTok(mexp)
		}
		var sb strings.Builder
		sb.WriteString(op + " " + ft + " P " + margin + " " + strconv.Itoa(k))
		for _, p := range pts {
			sb.WriteByte(' ')
			sb.WriteString(fmtNum(p.x))
			sb.WriteByte(' ')
			sb.WriteString(fmtNum(p.y))
		}
		sb.WriteString(" A " + emptyTok(r, fmtFPoly(a)) + " B " + emptyTok(r, fmtFPoly(b)))
		return sb.String()
	}
}

// ---------------------------------------------------------------------------------------------- degenerate corpus
//
// Non-rectilinear polygons with vertices on a small integer lattice: shared vertices, vertices on edges, coincident
// slanted edges, concurrent edges.  These inputs are OUTSIDE the randomly explored domain of the property; this
// generator only exists to (re)create the fixed corpus file corpus/C05/general.degenerate.ops
// (`harness gen degenerate 1 <n>`); calls the unchanged clipper does not get right are not part of the corpus.
func genDegenerate(r *hx.Rng) string {
	n := r.Range(2, 5)
	contour := func() icontour {
		k := r.Range(3, 5)
		c := make(icontour, k)
		for i := range c {
			c[i] = ipt{r.Range(0, n), r.Range(0, n)}
		}
		return c
	}
	mk := func() ipoly {
		var p ipoly
		for i, k := 0, r.Range(1, 2); i < k; i++ {
			p = append(p, contour())
		}
		return p
	}
	a := mk()
	b := mk()
	switch r.Intn(4) {
	case 0: // B repeats a contour of A (coincident edges, possibly crossed by the other contours)
		b[0] = a[0]
	case 1: // B repeats a contour of A reversed
		c := a[r.Intn(len(a))]
		d := make(icontour, len(c))
		for i := range c {
			d[i] = c[len(c)-1-i]
		}
		b[0] = d
	}
	var sb strings.Builder
	// sample points: spacing 1/2 with offsets (1/16, 3/16) over the square plus a border of one cell; such points are
	// never on a line of slope 0, ±1, ±2, ±1/2, ∞ through lattice points (the Lean margin test drops the rest)
	cnt := 0
	var pts strings.Builder
	for i := -2; i < 2*(n+1); i++ {
		for j := -2; j < 2*(n+1); j++ {
			pts.WriteString(" " + strconv.Itoa(8*i+1) + "/16 " + strconv.Itoa(8*j+3) + "/16")
			cnt++
		}
	}
	sb.WriteString(hx.Pick(r, ops) + " " + hx.Pick(r, fts) + " P 1/64 " + strconv.Itoa(cnt) + pts.String())
	sb.WriteString(" A " + fmtIPoly(a) + " B " + fmtIPoly(b))
	return sb.String()
}
