package main

import (
	"bufio"
	"fmt"
	"math/big"
	"reflect"
	"strconv"
	"strings"

	"verifharness/hx"
)

// ---------------------------------------------------------------------------------------------- pools

var singlePool = []rune{'a', 'b', 'c', 'd', 'n', 'x', 'y', 'z', 'B', 'N', '1', '0', '_', '?', ':', '.', '+', 'é', '€', '😀', 'ß', 0xFF, 0x80}
var weirdSingles = []rune{'=', '-', '@', 'h', 'v', 'V', 0xFFFD, 0xD800, 0x110000, -5, ' '}
var namePool = []string{"name", "long-name", "n2", "ab", "flag", "verbose", "out", "level", "count", "x-y", "a.b", "two_words", "é", "日本", "--", "-x", "na",
	"nam", "name2", "long", "long-name-x", "lo", "ver", "verb", "verbose2", "co", "no-flag", "flags", "ou", "ßß", "nn", "xx", "ab-", "-ab", "a-", "ab.c", "AB", "Name"}
var weirdNames = []string{"a=b", "=x", "help", "version", "Version", "a", "", "=", "x", "@f", "a b"}

var strPool = []string{" ", " v", "v ", " v ", "\tv", "v\t", "\t", "  ", " -n", "- ", "\u00a0v\u00a0", "\u2003", "v\v", "\fv", "==", "=-", "-=x", "--x=y", "=", "=@f0", "-@", "@@", "= ", " =",
	"a\rb", "\rv", "v\r", "\r", "\x00", "a\x00b", "", "-", "--", "@x", "=x", "a=b", "héllo", "\xff", "-n", "x y", "value", "@f0", "---", "-=", "true", "0",
	"日本", "\xc3", "a,b", "--name=v", "reject", "=", "@", "-a", "--name", "\xe2\x82", "\xf0\x9f\x98\x80"}
var boolPool = []string{" true", "true ", "\ttrue", "1 ", " 0", "true", "false", "1", "0", "t", "F", "f", "T", "True", "TRUE", "False", "FALSE", "yes", "", "tRUE", "no", "01"}
var intPool = []string{"1\t", "\t1", " 0x10", "7 ", "1\r", "0", "-1", "1", "127", "-128", "128", "-129", "255", "256", "0x7f", "0X7F", "0b101", "0B11", "0o17", "0O7", "017",
	"1_000", "-0x80", "+5", "08", "0x", "_1", "1__0", "1_", "0_7", "0x_1f", "0_x1", "9223372036854775807", "9223372036854775808",
	"-9223372036854775808", "-9223372036854775809", "18446744073709551615", "18446744073709551616", "32767", "-32768", "32768",
	"65535", "65536", "2147483647", "-2147483648", "2147483648", "4294967295", "4294967296", "0xffffffffffffffff",
	"0x10000000000000000", "-0", "+0", "00", "0b", "0b2", "0o8", "0xg", "1e3", "1.0", " 1", "1 ", "", "-", "+", "--1", "+-1", "-+1",
	"0x1_F", "0b_1", "0_", "1_2_3", "_", "0__1", "0x1__2", "٣", "１", "0b1_", "0o_7", "-_1", "-1_0", "99999999999999999999999999999x"}
var floatPool = []string{
	// float32 rounding midpoints and their neighbours (1+2^-24, 2^24+1, between the two largest finite values and beyond)
	"1.000000059604644775390625", "1.00000005960464477539062", "1.0000000596046448", "1.0000000596046447", "1.00000005960464477539063",
	"1.00000005960464477539062500000000000000001", "1.00000017881393432617187500000000000000001", "1.000000178813934326171875",
	"16777216", "16777217", "16777218", "16777219", "16777217.0000000000000001", "33554434", "33554435",
	"3.4028234663852886e38", "3.4028235677973366e38", "3.4028235677973365e38", "3.40282356779733661637539395458142568448e38",
	"3.4028235e38", "3.4028236e38", "3.4028237e38", "-3.4028235677973366e38", "3.5e38", "1e38", "0x1.fffffep127", "0x1.ffffffp127", "0x1p128",
	// float32 subnormals and underflow
	"1e-45", "1.4e-45", "1.401298464324817e-45", "7.006492321624085e-46", "7.006492321624086e-46", "7e-46", "1e-46", "1.1754944e-38", "1.1754942e-38", "0x1p-149", "0x1p-150", "0x1.000002p-150",
	// float64 limits
	"1.7976931348623157e308", "1.7976931348623158e308", "1.797693134862315807e308", "1.7976931348623159e308", "1e309", "-1e309", "4.9e-324", "5e-324", "2.4703282292062327e-324", "2.4703282292062328e-324", "2e-324", "3e-324",
	"2.2250738585072014e-308", "2.2250738585072011e-308", "9007199254740992", "9007199254740993", "9007199254740995", "0.1", "0.30000000000000004", "1e23", "8.41e21", "5e-324 ", " 1.5", "1.5 ", "\t1e3",
	"-0", "-0.0", "+0", "0e999", "-0e-999", "1e+2", "1E-2", ".5e1", "5.e1", "0x.8p1", "0X1P+3", "0x1p", "0x", "1p3", "1_000.5", "1_0e1_0", "infinity", "+inf", "-infinity", "iNf", "nan", "+nan", "0", "1.5", "-2e3", "inf", "-Inf", "+infinity", "nan", "NaN", "0x1p-2", "1e400", "1e39", "-1e39", "3.4028235e38",
	"3.4028236e38", "1e-50", "1_0.5", "1__0", ".5", "5.", ".", "", "1e", "0x1.8p1", "0x1", "1,5", "infinit", "-nan", "4.9e-324",
	"1e-400", "0.1", "16777217", "-0", "0e0", "1E5", "+1.25", "1.5f", "abc"}
var durPool = []string{"1ns", "1us", "1µs", "1μs", "1ms", "1s", "1m", "1h", "1.5ns", "0.5ns", "0.4ns", "1.9999999999ns", "1.5us", "1.5ms", "1.5m", "1.5h", ".5h", "0.000000001h", "1h1m1s1ms1us1ns",
	"-1h1m", "+1h", "1H", "1 s", " 1s", "1s ", "1s\t", "1sec", "1min", "1w", "1y", "1µ", "1 µs", "9223372036854775807ns", "9223372036854775808ns", "-9223372036854775808ns", "-9223372036854775809ns",
	"9223372036854775.807us", "9223372036854775.808us", "9223372036854.775807ms", "9223372036.854775807s", "9223372036.854775808s", "153722867.28091293m", "153722867.28091294m", "2562047.788015215h", "2562047.79h",
	"2562047h47m16.854775807s", "2562047h47m16.854775808s", "106751d", "0h", "0ns", "-0s", "00s", "1e3s", "1_0s", "0x10s", "1..5s", "1.5.s", "0", "1s", "1h2m3s", "-1.5s", "1", "1µs", "1us", "1μs", "100ms", "2h45m", "+3m", "1d", "", "s", ".5s", "1.s", "-0",
	"9223372036854775807ns", "9223372036854775808ns", "2562047h", "2562048h", "1h-1m", "1ns1ns", "0.000000001s", "1e3s", " 1s",
	// units are case-sensitive; totals that wrap; fractions with more digits than float64 or uint64 hold
	"1H", "1M", "1S", "1MS", "1Ms", "1NS", "1US", "1µS", "1.5H", "2H45M", "9223372036854775808ns9223372036854775808ns", "4611686018427387904ns4611686018427387904ns",
	"-4611686018427387904ns4611686018427387904ns", "0.00000000000000000000000000001h", "0.9223372036854775808h", "0.3333333333333333333333h", "1.00000000000000000000000000000000000000000001s"}

// limitVals: the limits of an integer kind, one beyond, and neighbours, in several bases.
func limitVals(bits int, signed bool) []string {
	var out []string
	add := func(b *big.Int) {
		out = append(out, b.String())
		if b.Sign() >= 0 {
			out = append(out, "0x"+b.Text(16), "0o"+b.Text(8), "0b"+b.Text(2), "0"+b.Text(8), "+"+b.String(), "0X"+strings.ToUpper(b.Text(16)))
		} else {
			abs := new(big.Int).Neg(b)
			out = append(out, "-0x"+abs.Text(16), "-0b"+abs.Text(2), "-0"+abs.Text(8))
		}
	}
	one := big.NewInt(1)
	var lims []*big.Int
	if signed {
		mx := new(big.Int).Sub(new(big.Int).Lsh(one, uint(bits-1)), one)
		mn := new(big.Int).Neg(new(big.Int).Lsh(one, uint(bits-1)))
		lims = []*big.Int{mx, mn, new(big.Int).Rsh(mx, 1), new(big.Int).Add(new(big.Int).Rsh(mx, 1), one)}
	} else {
		mx := new(big.Int).Sub(new(big.Int).Lsh(one, uint(bits)), one)
		lims = []*big.Int{mx, big.NewInt(0), new(big.Int).Lsh(one, uint(bits-1)), new(big.Int).Rsh(mx, 1)}
	}
	for _, l := range lims {
		for d := int64(-2); d <= 2; d++ {
			add(new(big.Int).Add(l, big.NewInt(d)))
		}
	}
	return out
}

var limitCache = map[string][]string{}

func limitsFor(base string) []string {
	if v, ok := limitCache[base]; ok {
		return v
	}
	var v []string
	switch base {
	case "int8":
		v = limitVals(8, true)
	case "int16":
		v = limitVals(16, true)
	case "int32":
		v = limitVals(32, true)
	case "int", "int64":
		v = limitVals(64, true)
	case "uint8":
		v = limitVals(8, false)
	case "uint16":
		v = limitVals(16, false)
	case "uint32":
		v = limitVals(32, false)
	case "uint", "uint64":
		v = limitVals(64, false)
	}
	limitCache[base] = v
	return v
}

var pow10 = func() []string {
	var out []string
	p := big.NewInt(1)
	for i := 0; i <= 20; i++ {
		for d := int64(-1); d <= 1; d++ {
			out = append(out, new(big.Int).Add(p, big.NewInt(d)).String(), new(big.Int).Neg(new(big.Int).Add(p, big.NewInt(d))).String())
		}
		p = new(big.Int).Mul(p, big.NewInt(10))
	}
	return out
}()

func poolFor(base string) []string {
	switch base {
	case "bool":
		return boolPool
	case "float32", "float64":
		return floatPool
	case "string", "log":
		return strPool
	case "duration":
		return durPool
	}
	return intPool
}

// ---------------------------------------------------------------------------------------------- generator state

type gopt struct {
	decl
	base   *baseKind // nil for log
	slice  bool
	isBool bool
}

type lineGen struct {
	weird bool // exotic option names allowed on this line
	mal   bool // malformed items allowed on this line
	big   bool // many options / items / files
	long  bool // long values
	args2 []string
	maxFiles int
	r     *hx.Rng
	opts  []gopt
	risky bool // anything outside the guaranteed-valid constructs: executed in a child process
	args  []string
	bound []bool // bound[i]: the generator believes the scanner is looking for an option at args[i]
	files []fileSpec
}

func (g *lineGen) accepts(o *gopt, raw string) bool {
	if o.base == nil {
		return raw != "reject"
	}
	if o.slice && strings.HasPrefix(o.base.name, "float") {
		return false // unhandled type
	}
	_, err := o.base.parse(raw)
	return err == nil
}

// value picks a raw value for the option; valid says whether it must be acceptable.
func (g *lineGen) value(o *gopt, valid bool) string {
	base := "log"
	if o.base != nil {
		base = o.base.name
	}
	pool := poolFor(base)
	for try := 0; try < 40; try++ {
		var v string
		switch {
		case base != "string" && base != "log" && base != "bool" && !strings.HasPrefix(base, "float") && base != "duration" && g.r.Chance(1, 3):
			v = strconv.FormatInt(int64(g.r.U64()>>uint(g.r.Intn(64)))-int64(g.r.Intn(200)), 10)
		case (base == "string" || base == "log") && g.r.Chance(1, 4):
			n := g.r.Intn(4)
			b := make([]byte, n)
			for i := range b {
				b[i] = hx.Pick(g.r, []byte("ab-=@ \xc3\xa9\xff01"))
			}
			v = string(b)
		case len(limitsFor(base)) > 0 && g.r.Chance(1, 3):
			if g.r.Chance(1, 4) {
				v = hx.Pick(g.r, pow10)
			} else {
				v = hx.Pick(g.r, limitsFor(base))
			}
		case g.long && (base == "string" || base == "log") && g.r.Chance(1, 10):
			v = strings.Repeat(hx.Pick(g.r, []string{"x", "ab", "é", "-", "="}), hx.Pick(g.r, []int{100, 255, 256, 4095, 4096, 30000}))
		case g.long && base != "string" && base != "log" && base != "bool" && g.r.Chance(1, 10):
			v = strings.Repeat("0", hx.Pick(g.r, []int{20, 64, 300})) + hx.Pick(g.r, []string{"7", "1", "127", "", "9"})
		default:
			v = hx.Pick(g.r, pool)
		}
		if strings.ContainsAny(v, "\n") {
			continue
		}
		if g.accepts(o, v) == valid {
			return v
		}
	}
	if valid {
		switch base {
		case "bool":
			return "true"
		case "string", "log":
			return "v"
		}
		return "0"
	}
	if base == "string" {
		return "v" // a string accepts everything
	}
	return "reject"
}

func (g *lineGen) push(bound bool, a ...string) {
	for i, s := range a {
		g.args = append(g.args, s)
		g.bound = append(g.bound, bound && i == 0)
	}
}

func singleStr(o *gopt) string { return string(rune(o.single)) }

// assign emits one assignment to o in a random spelling; ok=false if the option cannot be spelled.
func (g *lineGen) assign(o *gopt, validValue bool) {
	r := g.r
	if o.isBool {
		switch {
		case o.hasName && (o.single == 0 || r.Bool()):
			g.push(true, "--"+o.name)
		case o.single != 0:
			g.push(true, "-"+g.group(o))
		}
		return
	}
	v := g.value(o, validValue)
	if !validValue {
		g.risky = true
	}
	var forms []int
	if o.hasName {
		forms = append(forms, 0, 1)
	}
	if o.single != 0 {
		forms = append(forms, 2, 3, 4)
	}
	if len(forms) == 0 {
		return
	}
	switch hx.Pick(r, forms) {
	case 0:
		g.push(true, "--"+o.name+"="+v)
	case 1:
		g.push(true, "--"+o.name, v)
	case 2:
		g.push(true, "-"+g.groupPrefix()+singleStr(o), v)
	case 3:
		if v == "" || v[0] == '=' {
			g.push(true, "-"+g.groupPrefix()+singleStr(o)+"="+v)
		} else {
			g.push(true, "-"+g.groupPrefix()+singleStr(o)+v)
		}
	case 4:
		g.push(true, "-"+g.groupPrefix()+singleStr(o)+"="+v)
	}
}

// groupPrefix returns zero or more boolean short flags to put in front of a short option.
func (g *lineGen) groupPrefix() string {
	if !g.r.Chance(1, 3) {
		return ""
	}
	var sb strings.Builder
	for i, n := 0, g.r.Range(1, 3); i < n; i++ {
		var cands []*gopt
		for k := range g.opts {
			if g.opts[k].isBool && g.opts[k].single != 0 {
				cands = append(cands, &g.opts[k])
			}
		}
		if len(cands) == 0 {
			break
		}
		sb.WriteString(singleStr(hx.Pick(g.r, cands)))
	}
	return sb.String()
}

func (g *lineGen) group(o *gopt) string {
	pre := g.groupPrefix()
	post := ""
	if g.r.Chance(1, 3) {
		post = g.groupPrefix()
	}
	return pre + singleStr(o) + post
}

var rawArgs = []string{"-", "@", "@nofile", "=", "-=", "--=", "--=x", "---", "-é", "\xff", "-\xff", "--nosuch", "-Q", "--nosuch=1", "-Q=1",
	"-Qx", "--help", "-h", "--version", "-v", "-V", "--Version", "--help=1", "-hx", "-h=", "@.", "--h", "--v", "-\xc3", "-\xef\xbf\xbd", "-😀"}

var posPool = []string{"", "-", "--", "@x", "=x", "-a", "--name=v", "pos", "a b", "\xff\xfe", "日本", "@f0", "@nofile", "--help", "-h", "x", "1",
	"--nosuch", "-Q", "@"}

func genDecl(r *hx.Rng, g *lineGen, usedKeys map[string]bool) {
	var o gopt
	switch {
	case r.Chance(1, 12):
		o.kind = "log"
	default:
		b := &bases[r.Intn(len(bases))]
		if r.Chance(1, 3) && b.name != "bool" {
			// more weight on the kinds that matter for the scanner
			b = baseByName(hx.Pick(r, []string{"bool", "bool", "string", "int8", "int"}))
		}
		o.base = b
		o.slice = r.Chance(1, 3)
		// every slice type of the documented list plus []int / []uint which values.go also handles
		// *[]float32 / *[]float64 are NOT among them: values.go has no case, every Set answers "unhandled type" and the parse
		// is fatal (Cmd.Kind.supported); declared now and then, such a line runs in a child
		if o.slice && (b.name == "float32" || b.name == "float64") {
			if r.Chance(1, 2) {
				o.slice = false
			} else {
				g.risky = true
			}
		}
		o.kind = b.name
		if o.slice {
			o.kind = "[]" + b.name
		}
		o.isBool = b.name == "bool" && !o.slice
		// the declaration route: NewGeneralOption(ptr), NewOption(&GeneralValue{ptr}) (same thing to the parser, also for
		// *bool), or NewOption(user Value around a GeneralValue) — behind which a bool is NOT a flag (kind wbool)
		switch r.Intn(10) {
		case 0, 1, 2, 3:
			o.route = "v"
		case 4, 5:
			o.route = "w"
			if o.isBool {
				o.kind, o.isBool = "wbool", false
			}
		default:
			o.route = "g"
		}
	}
	// names
	mode := r.Intn(10) // 0-3 both, 4-6 single only, 7-9 name only
	if mode <= 6 {
		if g.weird && r.Chance(1, 4) {
			o.single = int64(hx.Pick(r, weirdSingles))
			g.risky = true
		} else {
			o.single = int64(hx.Pick(r, singlePool))
		}
	}
	if mode <= 3 || mode >= 7 {
		o.hasName = true
		if g.weird && r.Chance(1, 4) {
			o.name = hx.Pick(r, weirdNames)
			g.risky = true
		} else {
			o.name = hx.Pick(r, namePool)
		}
	}
	if g.weird && r.Chance(1, 12) {
		o.single, o.hasName, o.name = 0, false, ""
		g.risky = true
	}
	// duplicates are fatal; mostly avoid them
	keys := []string{}
	if o.single != 0 {
		keys = append(keys, string(rune(o.single)))
	}
	if o.hasName {
		keys = append(keys, o.name)
	}
	dup := false
	for _, k := range keys {
		if usedKeys[k] {
			dup = true
		}
	}
	if len(keys) == 2 && keys[0] == keys[1] {
		dup = true
	}
	if dup {
		if g.weird && r.Chance(1, 4) {
			g.risky = true
		} else {
			// a fresh name: o1, o10, o100 … are prefixes of each other; the one-rune names continue in the Greek block
			o.hasName, o.name, o.single = true, fmt.Sprintf("o%d", len(g.opts)), 0
			if r.Bool() {
				o.single = int64(0x391 + len(g.opts))
			}
			keys = []string{o.name}
			if o.single != 0 {
				keys = append(keys, string(rune(o.single)))
			}
		}
	}
	for _, k := range keys {
		usedKeys[k] = true
	}
	// names that make some spelling ambiguous are left to the child path
	if o.hasName && (strings.Contains(o.name, "=") || len(o.name) < 2) {
		g.risky = true
	}
	// initial contents
	if o.kind == "log" || o.slice {
		for i, n := 0, r.Intn(3); i < n; i++ {
			o.defs = append(o.defs, g.value(&o, true))
		}
	} else {
		o.defs = []string{g.value(&o, true)}
	}
	g.opts = append(g.opts, o)
}

// splitFiles replaces runs of g.args by response files (recursively inside the files).
func (g *lineGen) splitFiles(args []string, bound []bool, depth int) []string {
	r := g.r
	if depth == 0 || len(args) == 0 || len(g.files) >= g.maxFiles {
		return args
	}
	out := []string{}
	i := 0
	for i < len(args) {
		if r.Chance(1, 4) && len(g.files) < g.maxFiles {
			j := i + r.Intn(len(args)-i+1)
			if !bound[i] {
				if !(g.mal && r.Chance(1, 3)) {
					out = append(out, args[i])
					i++
					continue
				}
				g.risky = true
			}
			ok := true
			for _, a := range args[i:j] {
				if strings.ContainsAny(a, "\n") {
					ok = false
				}
			}
			if ok {
				name := fmt.Sprintf("f%d", len(g.files))
				g.files = append(g.files, fileSpec{path: name})
				idx := len(g.files) - 1
				content := g.splitFiles(append([]string(nil), args[i:j]...), bound[i:j], depth-1)
				g.files[idx].lines = content
				out = append(out, "@"+name)
				i = j
				continue
			}
		}
		out = append(out, args[i])
		i++
	}
	return out
}

func (g *lineGen) oracle() []string {
	seen := map[string]bool{}
	var out []string
	try := func(raw string) {
		if seen[raw] {
			return
		}
		seen[raw] = true
		for _, k := range []struct{ tag, base string }{{"f32", "float32"}, {"f64", "float64"}, {"dur", "duration"}} {
			// float values are COMPUTED by the model (Cmd.floatVal through SoftFloat.parse); only hexadecimal floats and
			// literals with digit separators are outside that model and still come from strconv through this section
			// and durations by the transcription of time.ParseDuration (Cmd.parseDuration): no oracle entry at all
			if k.tag == "dur" || !strings.Contains(raw, "_") && !strings.Contains(strings.ToLower(raw), "0x") {
				continue
			}
			b := baseByName(k.base)
			v, err := b.parse(raw)
			if err != nil {
				continue
			}
			c := canon(reflect.ValueOf(v))
			out = append(out, k.tag+":"+hx.Hex([]byte(raw))+":"+c)
		}
	}
	needs := false
	for _, o := range g.opts {
		if o.base != nil && (strings.HasPrefix(o.base.name, "float") || o.base.name == "duration") {
			needs = true
			for _, d := range o.defs {
				try(d)
			}
		}
	}
	if !needs {
		return nil
	}
	all := append([]string(nil), g.args...)
	all = append(all, g.args2...)
	for _, f := range g.files {
		all = append(all, f.lines...)
	}
	for _, a := range all {
		try(a)
		if strings.HasPrefix(a, "-") {
			// a value starts behind the (short) group of flags or behind the first `=`
			for i := 1; i <= len(a) && i <= 48; i++ {
				try(a[i:])
			}
			if i := strings.IndexByte(a, '='); i >= 48 {
				try(a[i+1:])
			}
		}
	}
	return out
}

// genVector appends assignments and a tail to g.args / g.bound.
func (g *lineGen) genVector(nitems int) {
	r := g.r
	for i := 0; i < nitems; i++ {
		switch {
		case len(g.opts) == 0:
			// nothing to assign
		case g.mal && r.Chance(1, 6):
			g.push(true, hx.Pick(r, rawArgs))
			g.risky = true
		case g.mal && r.Chance(1, 6): // a value for a boolean
			var bs []*gopt
			for k := range g.opts {
				if g.opts[k].isBool && g.opts[k].hasName {
					bs = append(bs, &g.opts[k])
				}
			}
			if len(bs) > 0 {
				g.push(true, "--"+hx.Pick(r, bs).name+"="+hx.Pick(r, boolPool))
				g.risky = true
			}
		default:
			o := &g.opts[r.Intn(len(g.opts))]
			g.assign(o, !(g.mal && r.Chance(1, 6)))
		}
	}
	// a missing value at the end
	tail := r.Intn(10)
	if g.mal && r.Chance(1, 4) && len(g.opts) > 0 {
		o := &g.opts[r.Intn(len(g.opts))]
		if !o.isBool {
			if o.hasName && r.Bool() {
				g.push(true, "--"+o.name)
				g.risky = true
				tail = 9
			} else if o.single != 0 {
				g.push(true, "-"+singleStr(o))
				g.risky = true
				tail = 9
			}
		}
	}
	npos := r.Intn(5)
	if g.big && r.Chance(1, 3) {
		npos = hx.Pick(r, []int{16, 17, 64, 65, 300})
	}
	switch {
	case tail <= 3: // `--` then anything
		g.push(true, "--")
		for i := 0; i < npos; i++ {
			g.push(false, hx.Pick(r, posPool))
		}
	case tail <= 7: // positionals; the first must not look like an option or a response file to be "good"
		for i := 0; i < npos; i++ {
			p := hx.Pick(r, posPool)
			if i == 0 {
				if !g.mal || r.Chance(2, 3) {
					for (strings.HasPrefix(p, "-") && p != "-") || strings.HasPrefix(p, "@") {
						p = hx.Pick(r, posPool)
					}
				} else if (strings.HasPrefix(p, "-") && p != "-") || strings.HasPrefix(p, "@") {
					g.risky = true
				}
			}
			g.push(i == 0, p)
		}
	}
}

// rawFile renders the lines of a response file as bytes in one of the layouts bufio.Scanner reads back as the same
// lines (LF or CRLF terminators, with or without the terminator of the last line); junk=true adds layouts that
// change the arguments (blank lines, a lone CR, CR inside).
func (g *lineGen) rawFile(lines []string, junk bool) (string, bool) {
	r := g.r
	crlf := r.Bool()
	for _, l := range lines {
		if strings.HasSuffix(l, "\r") {
			crlf = true // only a CRLF terminator keeps a trailing CR of the argument
		}
	}
	term := "\n"
	if crlf {
		term = "\r\n"
	}
	var sb strings.Builder
	for _, l := range lines {
		sb.WriteString(l)
		sb.WriteString(term)
	}
	out := sb.String()
	if n := len(lines); n > 0 && r.Bool() {
		last := lines[n-1]
		switch {
		case crlf:
			out = out[:len(out)-1] // "...\r" at the end of the file: still one line, the CR is dropped
		case last != "" && !strings.HasSuffix(last, "\r"):
			out = out[:len(out)-1]
		}
	}
	if junk {
		switch r.Intn(5) {
		case 0:
			out += "\n"
		case 1:
			out += "\r\n\r\n"
		case 2:
			out = "\n" + out
		case 3:
			out += "\r"
		case 4:
			out += " \n"
		}
	}
	return out, true
}

var fxEntries = []string{"msg", "err", "iferr", "ifnil", "write", "cmdnone", "cmdbad"}
var fxWriters = []string{"def", "out", "fail"}

// axEnds: ends of an `ax` process other than a direct atexit.Exit(n): M / E / I / N = FatalMsg, FatalError, FatalIfError(err),
// FatalIfError(nil); P<incl>:<args> = Parse of the vector on a command line with the options n/name (string), a (flag),
// i/int (int8) - malformed vectors, help and version (exit), valid ones (Parse returns, nothing runs)
var axEnds = func() []string {
	out := []string{"M", "E", "I", "N"}
	for _, v := range [][]string{nil, {"--nosuch"}, {"-Q"}, {"-n"}, {"--name"}, {"-an"}, {"-a=1"}, {"--a"}, {"-i", "300"}, {"-i", "5"}, {"--int=-129"},
		{"--int=0x7f", "p"}, {"-h"}, {"--help"}, {"-v"}, {"-V"}, {"--version"}, {"--Version"}, {"-ah"}, {"-hv"}, {"-vQ"}, {"@nofile"}, {"@."}, {"--", "-Q"},
		{"-", "--nosuch"}, {"-n", "x", "--name"}, {"--name=x", "-a", "pos", "--nosuch"}, {"--help=1"}, {"-a", "-a", "--name", "-h"}} {
		out = append(out, "P0:"+encList(v), "P1:"+encList(v))
	}
	return out
}()

// genAx: a history of atexit.Register / Unregister calls followed by Exit(status).
func genAx(r *hx.Rng) string {
	var sb strings.Builder
	if r.Chance(1, 3) {
		// the process ends through the command line package: an exported fatal entry point, or Parse of a small vector
		sb.WriteString("ax " + hx.Pick(r, axEnds))
	} else {
		fmt.Fprintf(&sb, "ax %d", hx.Pick(r, []int{0, 1, 1, 2, 3, 7, 42, 125}))
	}
	nops := r.Range(0, 9)
	if r.Chance(1, 12) {
		nops = hx.Pick(r, []int{16, 17, 33, 70})
	}
	regs := 0
	for i := 0; i < nops; i++ {
		if regs == 0 || r.Chance(2, 3) {
			act := hx.Pick(r, []string{"p", "p", "p", "s", "e", "n", "t", "z", "x", "g", "u"})
			if act == "u" {
				// unregisters, while the exit is running, a function registered earlier, itself, a later one or none
				act = fmt.Sprintf("u%d", r.Intn(regs+3))
			}
			sb.WriteString(" r:" + act)
			regs++
		} else {
			// the first, the last, any, the same again, one that does not exist
			k := hx.Pick(r, []int{0, regs - 1, r.Intn(regs), r.Intn(regs), regs, regs + 5})
			fmt.Fprintf(&sb, " u%d", k)
		}
	}
	return sb.String()
}

// genLongLine: a response file one of whose lines is around bufio.MaxScanTokenSize (64 KiB) long. The bytes of the file
// are given run-length encoded. The long line is an assignment to a string option, a value, or a positional.
func genLongLine(r *hx.Rng) string {
	hexs := func(s string) string { return hx.Hex([]byte(s)) }
	const m = bufio.MaxScanTokenSize // 65536 in every toolchain so far; the model reads it from Generated/C10Facts.lean
	total := hx.Pick(r, []int{m - 3, m - 2, m - 1, m - 1, m, m, m + 1, m + 2, m + 4464, 2*m - 1, 2 * m, 3*m + 3392})
	term := hx.Pick(r, []string{"\n", "\r\n", ""})
	var pre, post []string // short lines in front of and behind the long one
	if r.Bool() {
		pre = append(pre, hx.Pick(r, []string{"-a", "--list=x", "-lq", "--longv=short", "-a\r"}))
	}
	prefix := hx.Pick(r, []string{"--longv=", "-n", "-n=", "-an", "", "--list=", "VALUE"})
	if prefix == "VALUE" { // the long line is the value of the line in front of it
		pre = append(pre, hx.Pick(r, []string{"--longv", "-n", "-l"}))
		prefix = ""
	}
	if term != "" || r.Bool() {
		// lines behind the long one: they are lost if the error of the scanner is ignored
		if prefix == "" && len(pre) > 0 && !strings.HasPrefix(pre[len(pre)-1], "--longv=") && r.Bool() {
			post = append(post, "pos2", "-a")
		} else {
			post = append(post, hx.Pick(r, []string{"--list=after", "-a", "--longv=after", "-lz"}))
		}
		if term == "" {
			term = "\n"
		}
	}
	fill := hx.Pick(r, []string{"x", "x", "é", "=", "-"})
	n := total - len(prefix)
	if term == "\r\n" {
		n-- // the CR is part of what fills the buffer
	}
	var segs []string
	for _, l := range pre {
		segs = append(segs, hexs(l+"\n"))
	}
	if prefix != "" {
		segs = append(segs, hexs(prefix))
	}
	segs = append(segs, fmt.Sprintf("%d*%s", n/len(fill), hexs(fill)))
	if n%len(fill) != 0 {
		segs = append(segs, hexs("y"))
	}
	if term != "" {
		segs = append(segs, hexs(term))
	}
	for i, l := range post {
		if i == len(post)-1 && r.Bool() {
			segs = append(segs, hexs(l))
		} else {
			segs = append(segs, hexs(l+"\n"))
		}
	}
	var args []string
	if r.Bool() {
		args = append(args, hx.Pick(r, []string{"-a", "--list=first", "-lq", "-al=w"}))
	}
	args = append(args, "@fL")
	if r.Bool() {
		args = append(args, hx.Pick(r, []string{"-a", "--list=last", "--", "p", "-lw"}))
	}
	var sb strings.Builder
	sb.WriteString("pc 0 O 110:" + hexs("longv") + ":string:" + hexs("def") + hx.Pick(r, []string{":g", ":v", ":w"}))
	sb.WriteString(" 97:~:bool:" + hexs("false") + " 108:" + hexs("list") + ":[]string:~")
	sb.WriteString(" F " + hexs("fL") + "=" + strings.Join(segs, "+") + " A")
	for _, a := range args {
		sb.WriteString(" " + hexs(a))
	}
	return sb.String()
}

// genGs: a GeneralValue of a kind whose %v text the model owns, used directly: initial contents, then Set calls (the last
// one may be refused), String() after each.
func genGs(r *hx.Rng) string {
	g := &lineGen{r: r, long: r.Chance(1, 20)}
	names := []string{"bool", "int", "int8", "int16", "int32", "int64", "uint", "uint8", "uint16", "uint32", "uint64", "string", "string", "string"}
	var o gopt
	o.base = baseByName(hx.Pick(r, names))
	o.slice = r.Chance(1, 2)
	o.kind = o.base.name
	if o.slice {
		o.kind = "[]" + o.kind
	}
	var defs []string
	if o.slice {
		for i, n := 0, r.Intn(3); i < n; i++ {
			defs = append(defs, g.value(&o, true))
		}
	} else {
		defs = []string{g.value(&o, true)}
	}
	var sb strings.Builder
	full := r.Bool() // gf: the history goes on after a refused Set
	if full {
		sb.WriteString("gf " + o.kind + " " + encList(defs))
	} else {
		sb.WriteString("gs " + o.kind + " " + encList(defs))
	}
	for i, n := 0, r.Range(0, 6); i < n; i++ {
		if o.base.name == "string" && r.Chance(1, 3) {
			sb.WriteString(" " + hx.Hex([]byte(hx.Pick(r, []string{"", "", ", ", "\"", "a, b", "\\", "%v", "%!s(MISSING)", "\n"}))))
			continue
		}
		if r.Chance(1, 8) && o.base.name != "string" || full && o.base.name != "string" && r.Chance(1, 3) {
			sb.WriteString(" " + hx.Hex([]byte(g.value(&o, false)))) // refused: a gs history ends here
			if full {
				continue
			}
			break
		}
		sb.WriteString(" " + hx.Hex([]byte(g.value(&o, true))))
	}
	return sb.String()
}

func genLine(r *hx.Rng) string {
	if c := *r; c.Chance(1, 60) { // decided on a copy: the stream of every other line stays what it was
		return genGs(r)
	}
	if r.Chance(1, 400) {
		return "fx " + hx.Pick(r, fxEntries) + " " + hx.Pick(r, fxWriters)
	}
	if r.Chance(1, 120) {
		return genAx(r)
	}
	if r.Chance(1, 700) {
		return genLongLine(r)
	}
	g := &lineGen{r: r, weird: r.Chance(1, 12), mal: r.Chance(1, 7), big: r.Chance(1, 120), long: r.Chance(1, 40), maxFiles: 6}
	incl := r.Chance(1, 4)
	used := map[string]bool{"h": true, "help": true}
	if incl {
		used["v"], used["version"], used["V"], used["Version"] = true, true, true, true
	}
	nopts := r.Range(0, 7)
	if g.big || r.Chance(1, 40) {
		nopts = hx.Pick(r, []int{11, 12, 13, 16, 17, 18, 31, 32, 33, 64, 65, 130})
	}
	for i := 0; i < nopts; i++ {
		genDecl(r, g, used)
	}
	// assignments
	nitems := r.Range(0, 8)
	if r.Chance(1, 10) {
		nitems = r.Range(8, 20)
	}
	if g.big {
		nitems = hx.Pick(r, []int{31, 32, 33, 64, 65, 128, 129, 257, 1000, 1100})
		if g.long {
			nitems = 33
		}
	}
	g.genVector(nitems)
	// response files
	args := g.args
	if r.Chance(1, 3) {
		depth, maxFiles := 3, 6
		if g.big || r.Chance(1, 30) {
			depth, maxFiles = 14, 40
		}
		g.maxFiles = maxFiles
		args = g.splitFiles(g.args, g.bound, depth)
	}
	if g.mal && r.Chance(1, 4) && len(g.files) > 0 { // repeated or recursive reference
		f := &g.files[r.Intn(len(g.files))]
		if r.Bool() {
			f.lines = append(f.lines, "@"+hx.Pick(r, g.files).path)
		} else {
			args = append([]string{"@" + f.path}, args...)
		}
		g.risky = true
	}
	if g.mal && r.Chance(1, 5) {
		g.risky = true
		p := r.Intn(len(args) + 1)
		na := append([]string(nil), args[:p]...)
		na = append(na, hx.Pick(r, rawArgs))
		args = append(na, args[p:]...)
	}
	// a second Parse on the same CmdLine
	twice := r.Chance(1, 12) && !g.big
	if twice {
		g.args, g.bound = nil, nil
		g.genVector(r.Range(0, 5))
		if len(g.files) > 0 && r.Chance(1, 3) {
			// the set of loaded files starts empty again: a file of the first vector may be named again
			g.args = append([]string{"@" + hx.Pick(r, g.files).path}, g.args...)
			g.risky = true // its lines may end in the middle of an item
		}
		g.args2 = g.args
	}
	// response files: as a list of lines (the harness writes LF terminated lines) or as bytes
	var fileWords []string
	for _, f := range g.files {
		needRaw := false
		for _, l := range f.lines {
			if strings.HasSuffix(l, "\r") {
				needRaw = true
			}
		}
		junk := g.mal && r.Chance(1, 3)
		if junk {
			g.risky = true // the extra lines are extra arguments; whether that is fatal depends on where they land
		}
		if needRaw || junk || r.Chance(1, 2) {
			raw, _ := g.rawFile(f.lines, junk)
			fileWords = append(fileWords, hx.Hex([]byte(f.path))+"="+hx.Hex([]byte(raw)))
		} else {
			fileWords = append(fileWords, hx.Hex([]byte(f.path))+":"+encList(f.lines))
		}
	}
	// emit
	var sb strings.Builder
	if g.risky || r.Chance(1, 25) {
		sb.WriteString("pc ")
	} else {
		sb.WriteString("pi ")
	}
	if incl {
		sb.WriteString("1")
	} else {
		sb.WriteString("0")
	}
	if len(g.opts) > 0 {
		sb.WriteString(" O")
		for _, o := range g.opts {
			nm := "~"
			if o.hasName {
				nm = hx.Hex([]byte(o.name))
			}
			fmt.Fprintf(&sb, " %d:%s:%s:%s", o.single, nm, o.kind, encList(o.defs))
			if o.route != "" && o.kind != "wbool" {
				sb.WriteString(":" + o.route)
			}
		}
	}
	if len(fileWords) > 0 {
		sb.WriteString(" F " + strings.Join(fileWords, " "))
	}
	g.args = args
	if orc := g.oracle(); len(orc) > 0 {
		sb.WriteString(" R " + strings.Join(orc, " "))
	}
	sb.WriteString(" A")
	for _, a := range args {
		sb.WriteString(" " + hx.Hex([]byte(a)))
	}
	if twice {
		if len(g.args2)%3 != 0 {
			sb.WriteString(" C") // the option variables are also compared after the first Parse
		} else {
			sb.WriteString(" B")
		}
		for _, a := range g.args2 {
			sb.WriteString(" " + hx.Hex([]byte(a)))
		}
	}
	return sb.String()
}

func (area) Gen(r *hx.Rng, n int, _ string, emit func(string)) {
	for i := 0; i < n; i++ {
		emit(genLine(r.Fork()))
	}
}
