// Harness for C10 (command-line parsing): declares a fresh cmdline.CmdLine per line, runs (*CmdLine).Parse on the
// argument vector and prints the final contents of every option variable and the returned remaining arguments.
// Lines the generator marks `pc` are executed in a child process (the fatal path ends in atexit.Exit -> os.Exit).
package main

import (
	"bufio"
	"bytes"
	"context"
	"errors"
	"fmt"
	"hash/fnv"
	"io"
	"math"
	"os"
	"os/exec"
	"path/filepath"
	"reflect"
	"runtime/debug"
	"strconv"
	"strings"
	"time"

	"github.com/richardwilkes/toolbox/atexit"
	"github.com/richardwilkes/toolbox/cmdline"
	"verifharness/hx"
)

// ---------------------------------------------------------------------------------------------- value kinds

type baseKind struct {
	name  string
	typ   reflect.Type
	parse func(string) (any, error) // what values.go is expected to store for a raw string (strconv / time)
}

func pInt(bits int, conv func(int64) any) func(string) (any, error) {
	return func(s string) (any, error) {
		v, err := strconv.ParseInt(s, 0, bits)
		if err != nil {
			return nil, err
		}
		return conv(v), nil
	}
}

func pUint(bits int, conv func(uint64) any) func(string) (any, error) {
	return func(s string) (any, error) {
		v, err := strconv.ParseUint(s, 0, bits)
		if err != nil {
			return nil, err
		}
		return conv(v), nil
	}
}

var bases = []baseKind{
	{"bool", reflect.TypeOf(false), func(s string) (any, error) { v, err := strconv.ParseBool(s); return v, err }},
	{"int", reflect.TypeOf(int(0)), pInt(64, func(v int64) any { return int(v) })},
	{"int8", reflect.TypeOf(int8(0)), pInt(8, func(v int64) any { return int8(v) })},
	{"int16", reflect.TypeOf(int16(0)), pInt(16, func(v int64) any { return int16(v) })},
	{"int32", reflect.TypeOf(int32(0)), pInt(32, func(v int64) any { return int32(v) })},
	{"int64", reflect.TypeOf(int64(0)), pInt(64, func(v int64) any { return v })},
	{"uint", reflect.TypeOf(uint(0)), pUint(64, func(v uint64) any { return uint(v) })},
	{"uint8", reflect.TypeOf(uint8(0)), pUint(8, func(v uint64) any { return uint8(v) })},
	{"uint16", reflect.TypeOf(uint16(0)), pUint(16, func(v uint64) any { return uint16(v) })},
	{"uint32", reflect.TypeOf(uint32(0)), pUint(32, func(v uint64) any { return uint32(v) })},
	{"uint64", reflect.TypeOf(uint64(0)), pUint(64, func(v uint64) any { return v })},
	{"float32", reflect.TypeOf(float32(0)), func(s string) (any, error) {
		v, err := strconv.ParseFloat(s, 32)
		if err != nil {
			return nil, err
		}
		return float32(v), nil
	}},
	{"float64", reflect.TypeOf(float64(0)), func(s string) (any, error) {
		v, err := strconv.ParseFloat(s, 64)
		if err != nil {
			return nil, err
		}
		return v, nil
	}},
	{"string", reflect.TypeOf(""), func(s string) (any, error) { return s, nil }},
	{"duration", reflect.TypeOf(time.Duration(0)), func(s string) (any, error) {
		v, err := time.ParseDuration(s)
		if err != nil {
			return nil, err
		}
		return v, nil
	}},
}

func baseByName(n string) *baseKind {
	for i := range bases {
		if bases[i].name == n {
			return &bases[i]
		}
	}
	return nil
}

// canon is the canonical text of one scalar value.
func canon(v reflect.Value) string {
	switch v.Kind() {
	case reflect.Bool:
		return strconv.FormatBool(v.Bool())
	case reflect.Int, reflect.Int8, reflect.Int16, reflect.Int32, reflect.Int64:
		return strconv.FormatInt(v.Int(), 10)
	case reflect.Uint, reflect.Uint8, reflect.Uint16, reflect.Uint32, reflect.Uint64:
		return strconv.FormatUint(v.Uint(), 10)
	case reflect.Float32:
		return fmt.Sprintf("%08x", math.Float32bits(float32(v.Float())))
	case reflect.Float64:
		return fmt.Sprintf("%016x", math.Float64bits(v.Float()))
	case reflect.String:
		return hx.Hex([]byte(v.String()))
	}
	return "?"
}

// logValue is a user-defined cmdline.Value (declared through NewOption): it records the raw strings and refuses
// "reject" with an error whose kind varies (fresh error, reused sentinel, typed-nil pointer).
type logValue struct {
	log     []string
	errKind int
}

type rejectErr struct{ msg string }

func (e *rejectErr) Error() string {
	if e == nil {
		return "rejected (typed nil)"
	}
	return e.msg
}

var errSentinel = errors.New("rejected (sentinel)")

func (l *logValue) Set(s string) error {
	if s == "reject" {
		switch l.errKind % 3 {
		case 0:
			return errors.New("rejected")
		case 1:
			return errSentinel
		default:
			var e *rejectErr
			return e
		}
	}
	l.log = append(l.log, s)
	return nil
}

func (l *logValue) String() string { return strings.Join(l.log, ",") }

// wrapValue is a user-defined Value that delegates to a GeneralValue: to the package it is NOT a GeneralValue, so even
// around a *bool it is a value-taking option.
type wrapValue struct{ inner *cmdline.GeneralValue }

func (w *wrapValue) Set(s string) error { return w.inner.Set(s) }
func (w *wrapValue) String() string     { return w.inner.String() }

// subCmd is a cmdline.Cmd: its Run receives the fresh CmdLine RunCommand creates for it.
type subCmd struct {
	name string
	run  func(cl *cmdline.CmdLine, args []string) error
}

func (c *subCmd) Name() string                                { return c.name }
func (c *subCmd) Usage() string                               { return "usage of " + c.name }
func (c *subCmd) Run(cl *cmdline.CmdLine, args []string) error { return c.run(cl, args) }

// ---------------------------------------------------------------------------------------------- line format

type decl struct {
	single  int64
	hasName bool
	name    string
	kind    string // base name, "[]"+base name, "log" or "wbool"
	defs    []string
	route   string // g: NewGeneralOption(ptr); v: NewOption(&GeneralValue{ptr}); w: NewOption(user Value wrapping a GeneralValue)
}

type fileSpec struct {
	path  string
	lines []string
	raw   bool   // content given as bytes
	data  string // raw content
}

type op struct {
	child bool
	incl  bool
	decls []decl
	files []fileSpec
	args  []string
	twice bool
	dump  bool // `C` instead of `B`: the option variables are also rendered after the FIRST Parse
	args2 []string
	h     uint64 // hash of the line: source of the harness-side variations that must not change the result
}

func encList(l []string) string {
	if len(l) == 0 {
		return "~"
	}
	p := make([]string, len(l))
	for i, s := range l {
		p[i] = hx.Hex([]byte(s))
	}
	return strings.Join(p, ",")
}

func decList(s string) []string {
	if s == "~" {
		return nil
	}
	p := strings.Split(s, ",")
	out := make([]string, len(p))
	for i, w := range p {
		out[i] = string(hx.UnHex(w))
	}
	return out
}

// unHexRep decodes bytes given as `seg+seg+…` where a segment is hex or `N*hex` (N copies); nil, false if malformed.
func unHexRep(s string) (string, bool) {
	if s == "-" {
		return "", true
	}
	var sb strings.Builder
	for _, seg := range strings.Split(s, "+") {
		n := 1
		if i := strings.IndexByte(seg, '*'); i >= 0 {
			v, err := strconv.Atoi(seg[:i])
			if err != nil || v < 0 || v > 1<<22 {
				return "", false
			}
			n, seg = v, seg[i+1:]
		}
		b := hx.UnHex(seg)
		for ; n > 0; n-- {
			sb.Write(b)
		}
	}
	return sb.String(), true
}

func parseLine(line string) *op {
	f := strings.Fields(line)
	if len(f) < 2 || (f[0] != "pi" && f[0] != "pc") {
		return nil
	}
	hh := fnv.New64a()
	hh.Write([]byte(line)) //nolint:errcheck
	o := &op{child: f[0] == "pc", incl: f[1] == "1", h: hh.Sum64()}
	sec := 0
	for _, w := range f[2:] {
		if sec < 4 {
			switch w {
			case "O":
				sec = 1
				continue
			case "F":
				sec = 2
				continue
			case "R":
				sec = 3
				continue
			case "A":
				sec = 4
				continue
			}
		}
		if sec == 4 && (w == "B" || w == "C") {
			sec = 5
			o.twice = true
			o.dump = w == "C"
			continue
		}
		switch sec {
		case 1:
			p := strings.Split(w, ":")
			if len(p) != 4 && len(p) != 5 {
				return nil
			}
			sg, err := strconv.ParseInt(p[0], 10, 64)
			if err != nil {
				return nil
			}
			d := decl{single: sg, kind: p[2], defs: decList(p[3]), route: "g"}
			if len(p) == 5 {
				d.route = p[4]
			}
			if p[1] != "~" {
				d.hasName = true
				d.name = string(hx.UnHex(p[1]))
			}
			o.decls = append(o.decls, d)
		case 2:
			if i := strings.IndexByte(w, '='); i >= 0 {
				data, ok := unHexRep(w[i+1:])
				if !ok {
					return nil
				}
				o.files = append(o.files, fileSpec{path: string(hx.UnHex(w[:i])), raw: true, data: data})
				break
			}
			p := strings.Split(w, ":")
			if len(p) != 2 {
				return nil
			}
			o.files = append(o.files, fileSpec{path: string(hx.UnHex(p[0])), lines: decList(p[1])})
		case 3: // oracle entries are for the model only
		case 4:
			o.args = append(o.args, string(hx.UnHex(w)))
		case 5:
			o.args2 = append(o.args2, string(hx.UnHex(w)))
		default:
			return nil
		}
	}
	return o
}

// ---------------------------------------------------------------------------------------------- execution

// spare returns a copy of args that is a prefix of a larger array (as os.Args[1:] cut from a bigger slice would be):
// Parse splices response files into its argument slice, which must not depend on the spare capacity.
func spare(args []string, extra int) []string {
	backing := make([]string, len(args)+extra)
	copy(backing, args)
	for i := len(args); i < len(backing); i++ {
		backing[i] = "SPARE-CAPACITY"
	}
	return backing[:len(args):len(backing)]
}

var extras = []int{0, 0, 1, 2, 3, 7, 16, 64, 1000}

// execute obtains a CmdLine (directly from New, or the one RunCommand hands to a sub-command), declares the options
// through the route each declaration names, runs Parse and renders the result. On the fatal path it does not return.
func execute(o *op) string {
	if !o.incl && o.h>>44&3 == 0 {
		// the sub-command route: the CmdLine comes from RunCommand -> newWithCmd (no default options)
		parent := cmdline.New(o.h>>46&1 == 1)
		out := "run-not-called"
		name := "sub"
		parent.AddCommand(&subCmd{name: "other", run: func(*cmdline.CmdLine, []string) error { out = "wrong-command"; return nil }})
		parent.AddCommand(&subCmd{name: name, run: func(cl *cmdline.CmdLine, args []string) error {
			out = executeOn(cl, o, args)
			return nil
		}})
		var err error
		if len(o.args) == 1 && o.args[0] == "-h" && !o.twice && o.h>>47&1 == 1 {
			err = parent.RunCommand([]string{"help", name}) // the built-in help command runs the command with -h
		} else {
			err = parent.RunCommand(append([]string{name}, o.args...))
		}
		if err != nil {
			return "runcommand-error"
		}
		return out
	}
	return executeOn(cmdline.New(o.incl), o, spare(o.args, extras[int(o.h>>16)%len(extras)]))
}

func executeOn(cl *cmdline.CmdLine, o *op, args []string) string {
	h := o.h
	bit := func() bool { b := h&1 == 1; h = h>>1 | h<<63; return b }
	if o.child && bit() {
		cl.SetWriter(os.Stdout)
	}
	renderers := make([]func() string, 0, len(o.decls))
	for k, d := range o.decls {
		var opt *cmdline.Option
		if d.kind == "log" {
			lv := &logValue{log: append([]string(nil), d.defs...), errKind: int(o.h>>8) + k}
			opt = cl.NewOption(lv)
			renderers = append(renderers, func() string {
				p := make([]string, len(lv.log))
				for i, s := range lv.log {
					p[i] = hx.Hex([]byte(s))
				}
				return "[" + strings.Join(p, ",") + "]"
			})
		} else {
			kind, route := d.kind, d.route
			if kind == "wbool" {
				kind, route = "bool", "w"
			}
			slice := strings.HasPrefix(kind, "[]")
			b := baseByName(strings.TrimPrefix(kind, "[]"))
			if b == nil {
				return "bad-op"
			}
			var ptr reflect.Value
			if slice {
				ptr = reflect.New(reflect.SliceOf(b.typ))
				for _, raw := range d.defs {
					v, err := b.parse(raw)
					if err != nil {
						return "bad-op"
					}
					ptr.Elem().Set(reflect.Append(ptr.Elem(), reflect.ValueOf(v)))
				}
			} else {
				ptr = reflect.New(b.typ)
				if len(d.defs) != 1 {
					return "bad-op"
				}
				v, err := b.parse(d.defs[0])
				if err != nil {
					return "bad-op"
				}
				ptr.Elem().Set(reflect.ValueOf(v))
			}
			switch route {
			case "v":
				opt = cl.NewOption(&cmdline.GeneralValue{Value: ptr.Interface()})
			case "w":
				if d.kind == "bool" {
					return "bad-op" // a wrapped bool is not a flag: the line must say wbool
				}
				opt = cl.NewOption(&wrapValue{inner: &cmdline.GeneralValue{Value: ptr.Interface()}})
			default:
				opt = cl.NewGeneralOption(ptr.Interface())
			}
			renderers = append(renderers, func() string {
				e := ptr.Elem()
				if slice {
					p := make([]string, e.Len())
					for i := range p {
						p[i] = canon(e.Index(i))
					}
					return "[" + strings.Join(p, ",") + "]"
				}
				return canon(e)
			})
		}
		// the setters of Option in varying order; a repeated SetSingle / SetName replaces the earlier one; SetUsage,
		// SetArg and SetDefault must not influence parsing
		setSingle := func() {
			if d.single != 0 {
				if bit() {
					opt.SetSingle('Z').SetSingle(0)
				}
				opt.SetSingle(rune(d.single))
			}
		}
		setName := func() {
			if d.hasName {
				if bit() && len(d.name) > 1 {
					opt.SetName("replaced-name")
				}
				opt.SetName(d.name)
			}
		}
		if bit() {
			opt.SetUsage(fmt.Sprintf("usage text of option %d", k))
		}
		if bit() {
			opt.SetArg("ARG")
		}
		if bit() {
			setName()
			setSingle()
		} else {
			setSingle()
			setName()
		}
		if bit() {
			opt.SetDefault("shown default")
		}
	}
	rest := cl.Parse(args)
	var sb strings.Builder
	state := func(rest []string) {
		sb.WriteString("ok")
		for _, r := range renderers {
			sb.WriteByte(' ')
			sb.WriteString(r())
		}
		sb.WriteString(" |")
		for _, s := range rest {
			sb.WriteByte(' ')
			sb.WriteString(hx.Hex([]byte(s)))
		}
	}
	var rest1 []string
	first := ""
	if o.twice {
		rest1 = append([]string(nil), rest...)
		if o.dump {
			state(rest1)
			first = sb.String()
			sb.Reset()
		}
		rest = cl.Parse(spare(o.args2, extras[int(o.h>>24)%len(extras)]))
	}
	state(rest)
	if o.twice {
		sb.WriteString(" ||")
		for _, s := range rest1 {
			sb.WriteByte(' ')
			sb.WriteString(hx.Hex([]byte(s)))
		}
		if o.dump {
			sb.WriteString(" ||| " + first)
		}
	}
	return sb.String()
}

var workDir string

func ensureDir() {
	if workDir != "" {
		return
	}
	d, err := os.MkdirTemp("", "c10-")
	if err != nil {
		panic(err)
	}
	workDir = d
	// if an in-process line takes the fatal path the harness dies through atexit.Exit: do not leave the directory behind
	atexit.Register(func() { _ = os.RemoveAll(d) })
	if err = os.Chdir(d); err != nil {
		panic(err)
	}
}

func writeFiles(o *op) {
	for _, f := range o.files {
		content := f.data
		if !f.raw {
			var sb strings.Builder
			for _, l := range f.lines {
				sb.WriteString(l)
				sb.WriteByte('\n')
			}
			content = sb.String()
		}
		if err := os.WriteFile(filepath.Join(workDir, f.path), []byte(content), 0o600); err != nil {
			panic(err)
		}
	}
}

func removeFiles(o *op) {
	for _, f := range o.files {
		_ = os.Remove(filepath.Join(workDir, f.path))
	}
}

const versionMark = "VERSIONMARK"
const fxMark = "FXMARK"

// registerExitFuncs registers the marker function and, depending on the line, exit functions that panic in various
// ways: atexit.Exit must still run the others and exit with the requested status.
func registerExitFuncs(h uint64) {
	variant := int(h>>32) % 6
	boom := func() {
		switch variant {
		case 1:
			panic("exit function panics with a string")
		case 2:
			panic(errors.New("exit function panics with an error"))
		case 3:
			var m map[string]int
			m["x"] = 1 // runtime error
		case 4:
			var e *rejectErr
			panic(e)
		case 5:
			panic(nil) //nolint:govet
		}
	}
	atexit.RecoveryHandler = nil // the recovered panics of the exit functions are not part of the observation
	// a function that is registered and unregistered again must not run
	id := atexit.Register(func() { fmt.Println("UNREGISTERED-RAN") })
	defer atexit.Unregister(id)
	if variant != 0 && h>>40&1 == 0 {
		atexit.Register(boom) // registered first: runs after the marker
	}
	atexit.Register(func() {
		fmt.Println("ATEXIT")
		os.Stdout.Sync() //nolint:errcheck
	})
	if variant != 0 && h>>40&1 == 1 {
		atexit.Register(boom) // registered last: runs before the marker
	}
}

type failingWriter struct{}

func (failingWriter) Write([]byte) (int, error) { return 0, errors.New("write fails") }

// runFx drives the exported fatal entry points: fx <msg|err|iferr|ifnil|write> <def|out|fail>
func runFx(f []string) {
	cl := cmdline.New(false)
	switch f[2] {
	case "out":
		cl.SetWriter(os.Stdout)
	case "fail":
		cl.SetWriter(failingWriter{})
	}
	switch f[1] {
	case "msg":
		cl.FatalMsg(fxMark)
	case "err":
		cl.FatalError(errors.New(fxMark))
	case "iferr":
		cl.FatalIfError(errors.New(fxMark))
	case "ifnil":
		cl.FatalIfError(nil)
	case "write":
		fmt.Fprint(cl, fxMark) //nolint:errcheck
	case "cmdnone", "cmdbad": // RunCommand reports a missing / unknown command name as an error, it does not exit
		cl.AddCommand(&subCmd{name: "sub", run: func(*cmdline.CmdLine, []string) error { fmt.Println("RAN"); return nil }})
		args := []string{"nosuch", "x"}
		if f[1] == "cmdnone" {
			args = nil
		}
		if err := cl.RunCommand(args); err == nil {
			fmt.Println("\nR no-error")
			return
		}
	}
	fmt.Println("\nR returned")
}

// runAx drives the atexit registry: ax <status> <op>…; `r:<act>` registers a function (numbered by the ordinal of its
// registration) that prints F<number> and then acts (p nothing; s/e/n/t/z panic with a string, an error, a runtime
// error, a typed-nil pointer, nil; x calls Exit again; g registers function 900+number; u<k> unregisters the k-th
// registration), `u<k>` unregisters the id the k-th Register returned (an id never handed out if there is no such
// call). Then Exit(status), which must not return.
func runAx(f []string, h uint64) {
	// an Exit that recurses without bound must die at once (a Go stack may grow to 1 GB, which takes many seconds)
	debug.SetMaxStack(32 << 20)
	if h&1 == 1 {
		atexit.RecoveryHandler = nil
	}
	// how the process ends: a number = atexit.Exit(number) called directly; M / E / I / N = FatalMsg, FatalError,
	// FatalIfError(err), FatalIfError(nil); P<incl>:<args> = Parse of that vector on a command line with the options
	// n/name (string), a (flag), i/int (int8)
	status := 1
	var finish func()
	switch term := f[1]; {
	case term == "M" || term == "E" || term == "I" || term == "N":
		finish = func() {
			cl := cmdline.New(false)
			switch term {
			case "M":
				cl.FatalMsg(fxMark)
			case "E":
				cl.FatalError(errors.New(fxMark))
			case "I":
				cl.FatalIfError(errors.New(fxMark))
			case "N":
				cl.FatalIfError(nil)
			}
		}
	case strings.HasPrefix(term, "P"):
		p := strings.Split(term[1:], ":")
		if len(p) != 2 {
			fmt.Println("R bad-op")
			return
		}
		args := decList(p[1])
		finish = func() {
			cl := cmdline.New(p[0] == "1")
			name, flag, num := "d", false, int8(7)
			cl.NewGeneralOption(&name).SetSingle('n').SetName("name")
			cl.NewGeneralOption(&flag).SetSingle('a')
			cl.NewGeneralOption(&num).SetSingle('i').SetName("int")
			cl.Parse(args)
		}
	default:
		st, err := strconv.Atoi(term)
		if err != nil {
			fmt.Println("R bad-op")
			return
		}
		status = st
		finish = func() { atexit.Exit(st) }
	}
	var ids []int
	idOf := func(k int) int {
		if k >= 0 && k < len(ids) {
			return ids[k]
		}
		mx := 0
		for _, id := range ids {
			mx = max(mx, id)
		}
		return mx + 1000 + k
	}
	n := 0
	for _, w := range f[2:] {
		switch {
		case strings.HasPrefix(w, "r:"):
			k, act := n, w[2:]
			n++
			ids = append(ids, atexit.Register(func() {
				fmt.Printf("F%d\n", k)
				os.Stdout.Sync() //nolint:errcheck
				switch {
				case act == "s":
					panic("exit function panics with a string")
				case act == "e":
					panic(errors.New("exit function panics with an error"))
				case act == "n":
					var m map[string]int
					m["x"] = 1 // runtime error
				case act == "t":
					var e *rejectErr
					panic(e)
				case act == "z":
					panic(nil) //nolint:govet
				case act == "x":
					atexit.Exit(status + 1)
				case act == "g":
					atexit.Register(func() { fmt.Printf("F%d\n", 900+k) })
				case strings.HasPrefix(act, "u"):
					if j, e := strconv.Atoi(act[1:]); e == nil {
						atexit.Unregister(idOf(j))
					}
				}
			}))
		case strings.HasPrefix(w, "u"):
			j, e := strconv.Atoi(w[1:])
			if e != nil {
				fmt.Println("R bad-op")
				return
			}
			atexit.Unregister(idOf(j))
		default:
			fmt.Println("R bad-op")
			return
		}
	}
	finish()
	fmt.Println("\nR returned")
}

func runChild(line string) {
	hh := fnv.New64a()
	hh.Write([]byte(line)) //nolint:errcheck
	if f := strings.Fields(line); len(f) >= 2 && f[0] == "ax" {
		runAx(f, hh.Sum64())
		return
	}
	cmdline.AppVersion = versionMark
	cmdline.BuildNumber = "B"
	cmdline.VCSModified = false
	registerExitFuncs(hh.Sum64())
	if f := strings.Fields(line); len(f) == 3 && f[0] == "fx" {
		runFx(f)
		return
	}
	o := parseLine(line)
	if o == nil {
		fmt.Println("R bad-op")
		return
	}
	fmt.Println("\nR " + hx.Safe(func() string { return execute(o) }))
}

// hangs counts confirmed hangs of this process; after three the rest of the stream is skipped.
var hangs int

func viaChild(line string) string {
	if hangs >= 3 {
		return "skipped-after-crash"
	}
	out := childOnce(line, 5*time.Second)
	if out != "child-timeout" {
		return out
	}
	if hangs == 0 {
		// a loaded machine can starve a child for seconds: try once more with a generous limit before calling it a hang
		out = childOnce(line, 20*time.Second)
	}
	if out == "child-timeout" {
		hangs++
	}
	return out
}

func childOnce(line string, limit time.Duration) string {
	ctx, cancel := context.WithTimeout(context.Background(), limit)
	defer cancel()
	cmd := exec.CommandContext(ctx, os.Args[0], "child") // the line goes through stdin: it may exceed the argv limit
	cmd.Stdin = strings.NewReader(line)
	cmd.Dir = workDir
	var so, se bytes.Buffer
	cmd.Stdout = &so
	cmd.Stderr = &se
	err := cmd.Run()
	if ctx.Err() != nil {
		return "child-timeout"
	}
	status := 0
	if err != nil {
		var ee *exec.ExitError
		if errors.As(err, &ee) {
			status = ee.ExitCode()
		} else {
			return "child-error"
		}
	}
	result := ""
	ranAtexit := false
	version := ""
	for _, l := range strings.Split(so.String(), "\n") {
		switch {
		case strings.HasPrefix(l, "R "):
			result = l[2:]
		case l == "ATEXIT":
			ranAtexit = true
		case l == versionMark:
			version = "version"
		case l == versionMark+"-B":
			version = "longversion"
		}
	}
	if strings.Contains(so.String(), "UNREGISTERED-RAN") {
		return "child:unregistered-exit-function-ran"
	}
	if strings.HasPrefix(line, "ax ") {
		if result != "" {
			return result
		}
		var ran []string
		for _, l := range strings.Split(so.String(), "\n") {
			if len(l) > 1 && l[0] == 'F' {
				if _, e := strconv.Atoi(l[1:]); e == nil {
					ran = append(ran, l[1:])
				}
			}
		}
		if len(ran) == 0 {
			return fmt.Sprintf("exit %d run ~", status)
		}
		return fmt.Sprintf("exit %d run %s", status, strings.Join(ran, ","))
	}
	if strings.HasPrefix(line, "fx ") {
		where := "none"
		switch {
		case strings.Contains(so.String(), fxMark):
			where = "out"
		case strings.Contains(se.String(), fxMark):
			where = "err"
		}
		switch {
		case status == 0 && result == "returned" && !ranAtexit:
			return "returned:" + where
		case status == 1 && ranAtexit && result == "":
			return "fatal:" + where
		}
		return fmt.Sprintf("child:status=%d:atexit=%v:result=%q", status, ranAtexit, result)
	}
	usage := strings.Contains(se.String(), "Usage: ") || strings.Contains(so.String(), "Usage: ")
	switch {
	case status == 0 && result != "" && !ranAtexit:
		return result
	case status == 1 && ranAtexit && result == "" && usage:
		return "help"
	case status == 1 && ranAtexit && result == "":
		return "fatal"
	case status == 0 && ranAtexit && result == "" && version != "":
		return version
	}
	return fmt.Sprintf("child:status=%d:atexit=%v:result=%q", status, ranAtexit, result)
}

// runGs drives a GeneralValue directly: gs|gf <kind> <initial contents> <raw>…; String() at the start and after every Set,
// up to the first Set that fails (gs) or through all of them (gf) (kinds whose %v text the model owns: bool, the integer kinds, string, and their slices)
func runGs(f []string) string {
	if len(f) < 3 {
		return "bad-op"
	}
	slice := strings.HasPrefix(f[1], "[]")
	b := baseByName(strings.TrimPrefix(f[1], "[]"))
	if b == nil || strings.HasPrefix(b.name, "float") || b.name == "duration" {
		return "bad-op"
	}
	defs := decList(f[2])
	var ptr reflect.Value
	if slice {
		ptr = reflect.New(reflect.SliceOf(b.typ))
		for _, raw := range defs {
			v, err := b.parse(raw)
			if err != nil {
				return "bad-op"
			}
			ptr.Elem().Set(reflect.Append(ptr.Elem(), reflect.ValueOf(v)))
		}
	} else {
		if len(defs) != 1 {
			return "bad-op"
		}
		v, err := b.parse(defs[0])
		if err != nil {
			return "bad-op"
		}
		ptr = reflect.New(b.typ)
		ptr.Elem().Set(reflect.ValueOf(v))
	}
	gv := &cmdline.GeneralValue{Value: ptr.Interface()}
	out := []string{hx.Hex([]byte(gv.String()))}
	for _, w := range f[3:] {
		if err := gv.Set(string(hx.UnHex(w))); err != nil {
			if f[0] == "gf" { // the history goes on: what the failing Set left in the variable is compared too
				out = append(out, "err:"+hx.Hex([]byte(gv.String())))
				continue
			}
			out = append(out, "err")
			break
		}
		out = append(out, hx.Hex([]byte(gv.String())))
	}
	return strings.Join(out, " ")
}

type area struct{}

func (area) Run(line string) string {
	if hangs >= 3 {
		return "skipped-after-crash"
	}
	ensureDir()
	if strings.HasPrefix(line, "ax ") {
		if len(strings.Fields(line)) < 2 {
			return "bad-op"
		}
		return viaChild(line)
	}
	if strings.HasPrefix(line, "fx ") {
		if len(strings.Fields(line)) != 3 {
			return "bad-op"
		}
		return viaChild(line)
	}
	if strings.HasPrefix(line, "gs ") || strings.HasPrefix(line, "gf ") {
		return hx.Safe(func() string { return runGs(strings.Fields(line)) })
	}
	o := parseLine(line)
	if o == nil {
		return "bad-op"
	}
	writeFiles(o)
	defer removeFiles(o)
	if o.child {
		return viaChild(line)
	}
	// in-process with a watchdog: a looping Parse must not stall the stream
	ch := make(chan string, 1)
	go func() { ch <- hx.Safe(func() string { return execute(o) }) }()
	select {
	case r := <-ch:
		return r
	case <-time.After(8 * time.Second):
	}
	// starved or hung? ask a child (the goroutine may still finish; its result is then discarded)
	out := childOnce(line, 15*time.Second)
	if out == "child-timeout" {
		hangs = 3
		return "hang"
	}
	return out
}

func main() {
	if len(os.Args) == 2 && os.Args[1] == "facts" {
		// constants of the Go toolchain this harness was built with, for lean/Generated/C10Facts.lean
		fmt.Printf("maxScanTokenSize %d\n", bufio.MaxScanTokenSize)
		return
	}
	if len(os.Args) == 2 && os.Args[1] == "child" {
		line, err := io.ReadAll(os.Stdin)
		if err != nil {
			os.Exit(4)
		}
		runChild(string(line))
		return
	}
	defer func() {
		if workDir != "" {
			_ = os.Chdir("/")
			_ = os.RemoveAll(workDir)
		}
	}()
	hx.Main(map[string]hx.Area{"parse": area{}})
}
