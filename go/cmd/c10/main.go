// Harness for C10 (command-line parsing): declares a fresh cmdline.CmdLine per line, runs (*CmdLine).Parse on the
// argument vector and prints the final contents of every option variable and the returned remaining arguments.
// Lines the generator marks `pc` are executed in a child process (the fatal path ends in atexit.Exit -> os.Exit).
package main

import (
	"bytes"
	"context"
	"errors"
	"fmt"
	"math"
	"os"
	"os/exec"
	"path/filepath"
	"reflect"
	"strconv"
	"strings"
	"time"

	"github.com/richardwilkes/toolbox/atexit"
	"github.com/richardwilkes/toolbox/cmdline"
	"verifharness/hx"
)

// ---------------------------------------------------------------------------------------------- value kinds

type baseKind struct {
	name  string
	typ   reflect.Type
	parse func(string) (any, error) // what values.go is expected to store for a raw string (strconv / time)
}

func pInt(bits int, conv func(int64) any) func(string) (any, error) {
	return func(s string) (any, error) {
		v, err := strconv.ParseInt(s, 0, bits)
		if err != nil {
			return nil, err
		}
		return conv(v), nil
	}
}

func pUint(bits int, conv func(uint64) any) func(string) (any, error) {
	return func(s string) (any, error) {
		v, err := strconv.ParseUint(s, 0, bits)
		if err != nil {
			return nil, err
		}
		return conv(v), nil
	}
}

var bases = []baseKind{
	{"bool", reflect.TypeOf(false), func(s string) (any, error) { v, err := strconv.ParseBool(s); return v, err }},
	{"int", reflect.TypeOf(int(0)), pInt(64, func(v int64) any { return int(v) })},
	{"int8", reflect.TypeOf(int8(0)), pInt(8, func(v int64) any { return int8(v) })},
	{"int16", reflect.TypeOf(int16(0)), pInt(16, func(v int64) any { return int16(v) })},
	{"int32", reflect.TypeOf(int32(0)), pInt(32, func(v int64) any { return int32(v) })},
	{"int64", reflect.TypeOf(int64(0)), pInt(64, func(v int64) any { return v })},
	{"uint", reflect.TypeOf(uint(0)), pUint(64, func(v uint64) any { return uint(v) })},
	{"uint8", reflect.TypeOf(uint8(0)), pUint(8, func(v uint64) any { return uint8(v) })},
	{"uint16", reflect.TypeOf(uint16(0)), pUint(16, func(v uint64) any { return uint16(v) })},
	{"uint32", reflect.TypeOf(uint32(0)), pUint(32, func(v uint64) any { return uint32(v) })},
	{"uint64", reflect.TypeOf(uint64(0)), pUint(64, func(v uint64) any { return v })},
	{"float32", reflect.TypeOf(float32(0)), func(s string) (any, error) {
		v, err := strconv.ParseFloat(s, 32)
		if err != nil {
			return nil, err
		}
		return float32(v), nil
	}},
	{"float64", reflect.TypeOf(float64(0)), func(s string) (any, error) {
		v, err := strconv.ParseFloat(s, 64)
		if err != nil {
			return nil, err
		}
		return v, nil
	}},
	{"string", reflect.TypeOf(""), func(s string) (any, error) { return s, nil }},
	{"duration", reflect.TypeOf(time.Duration(0)), func(s string) (any, error) {
		v, err := time.ParseDuration(s)
		if err != nil {
			return nil, err
		}
		return v, nil
	}},
}

func baseByName(n string) *baseKind {
	for i := range bases {
		if bases[i].name == n {
			return &bases[i]
		}
	}
	return nil
}

// canon is the canonical text of one scalar value.
func canon(v reflect.Value) string {
	switch v.Kind() {
	case reflect.Bool:
		return strconv.FormatBool(v.Bool())
	case reflect.Int, reflect.Int8, reflect.Int16, reflect.Int32, reflect.Int64:
		return strconv.FormatInt(v.Int(), 10)
	case reflect.Uint, reflect.Uint8, reflect.Uint16, reflect.Uint32, reflect.Uint64:
		return strconv.FormatUint(v.Uint(), 10)
	case reflect.Float32:
		return fmt.Sprintf("%08x", math.Float32bits(float32(v.Float())))
	case reflect.Float64:
		return fmt.Sprintf("%016x", math.Float64bits(v.Float()))
	case reflect.String:
		return hx.Hex([]byte(v.String()))
	}
	return "?"
}

// logValue is a user-defined cmdline.Value (declared through NewOption): it records the raw strings.
type logValue struct{ log []string }

func (l *logValue) Set(s string) error {
	if s == "reject" {
		return errors.New("rejected")
	}
	l.log = append(l.log, s)
	return nil
}

func (l *logValue) String() string { return strings.Join(l.log, ",") }

// ---------------------------------------------------------------------------------------------- line format

type decl struct {
	single  int64
	hasName bool
	name    string
	kind    string // base name, "[]"+base name, or "log"
	defs    []string
}

type fileSpec struct {
	path  string
	lines []string
}

type op struct {
	child bool
	incl  bool
	decls []decl
	files []fileSpec
	args  []string
}

func encList(l []string) string {
	if len(l) == 0 {
		return "~"
	}
	p := make([]string, len(l))
	for i, s := range l {
		p[i] = hx.Hex([]byte(s))
	}
	return strings.Join(p, ",")
}

func decList(s string) []string {
	if s == "~" {
		return nil
	}
	p := strings.Split(s, ",")
	out := make([]string, len(p))
	for i, w := range p {
		out[i] = string(hx.UnHex(w))
	}
	return out
}

func parseLine(line string) *op {
	f := strings.Fields(line)
	if len(f) < 2 || (f[0] != "pi" && f[0] != "pc") {
		return nil
	}
	o := &op{child: f[0] == "pc", incl: f[1] == "1"}
	sec := 0
	for _, w := range f[2:] {
		if sec < 4 {
			switch w {
			case "O":
				sec = 1
				continue
			case "F":
				sec = 2
				continue
			case "R":
				sec = 3
				continue
			case "A":
				sec = 4
				continue
			}
		}
		switch sec {
		case 1:
			p := strings.Split(w, ":")
			if len(p) != 4 {
				return nil
			}
			sg, err := strconv.ParseInt(p[0], 10, 64)
			if err != nil {
				return nil
			}
			d := decl{single: sg, kind: p[2], defs: decList(p[3])}
			if p[1] != "~" {
				d.hasName = true
				d.name = string(hx.UnHex(p[1]))
			}
			o.decls = append(o.decls, d)
		case 2:
			p := strings.Split(w, ":")
			if len(p) != 2 {
				return nil
			}
			o.files = append(o.files, fileSpec{path: string(hx.UnHex(p[0])), lines: decList(p[1])})
		case 3: // oracle entries are for the model only
		case 4:
			o.args = append(o.args, string(hx.UnHex(w)))
		default:
			return nil
		}
	}
	return o
}

// ---------------------------------------------------------------------------------------------- execution

// execute declares the options, runs Parse and renders the result. On the fatal path it does not return.
func execute(o *op) string {
	cl := cmdline.New(o.incl)
	renderers := make([]func() string, 0, len(o.decls))
	for _, d := range o.decls {
		var opt *cmdline.Option
		if d.kind == "log" {
			lv := &logValue{log: append([]string(nil), d.defs...)}
			opt = cl.NewOption(lv)
			renderers = append(renderers, func() string {
				p := make([]string, len(lv.log))
				for i, s := range lv.log {
					p[i] = hx.Hex([]byte(s))
				}
				return "[" + strings.Join(p, ",") + "]"
			})
		} else {
			slice := strings.HasPrefix(d.kind, "[]")
			b := baseByName(strings.TrimPrefix(d.kind, "[]"))
			if b == nil {
				return "bad-op"
			}
			var ptr reflect.Value
			if slice {
				ptr = reflect.New(reflect.SliceOf(b.typ))
				for _, raw := range d.defs {
					v, err := b.parse(raw)
					if err != nil {
						return "bad-op"
					}
					ptr.Elem().Set(reflect.Append(ptr.Elem(), reflect.ValueOf(v)))
				}
			} else {
				ptr = reflect.New(b.typ)
				if len(d.defs) != 1 {
					return "bad-op"
				}
				v, err := b.parse(d.defs[0])
				if err != nil {
					return "bad-op"
				}
				ptr.Elem().Set(reflect.ValueOf(v))
			}
			opt = cl.NewGeneralOption(ptr.Interface())
			renderers = append(renderers, func() string {
				e := ptr.Elem()
				if slice {
					p := make([]string, e.Len())
					for i := range p {
						p[i] = canon(e.Index(i))
					}
					return "[" + strings.Join(p, ",") + "]"
				}
				return canon(e)
			})
		}
		if d.single != 0 {
			opt.SetSingle(rune(d.single))
		}
		if d.hasName {
			opt.SetName(d.name)
		}
	}
	args := append([]string(nil), o.args...)
	rest := cl.Parse(args)
	var sb strings.Builder
	sb.WriteString("ok")
	for _, r := range renderers {
		sb.WriteByte(' ')
		sb.WriteString(r())
	}
	sb.WriteString(" |")
	for _, s := range rest {
		sb.WriteByte(' ')
		sb.WriteString(hx.Hex([]byte(s)))
	}
	return sb.String()
}

var workDir string

func ensureDir() {
	if workDir != "" {
		return
	}
	d, err := os.MkdirTemp("", "c10-")
	if err != nil {
		panic(err)
	}
	workDir = d
	// if an in-process line takes the fatal path the harness dies through atexit.Exit: do not leave the directory behind
	atexit.Register(func() { _ = os.RemoveAll(d) })
	if err = os.Chdir(d); err != nil {
		panic(err)
	}
}

func writeFiles(o *op) {
	for _, f := range o.files {
		var sb strings.Builder
		for _, l := range f.lines {
			sb.WriteString(l)
			sb.WriteByte('\n')
		}
		if err := os.WriteFile(filepath.Join(workDir, f.path), []byte(sb.String()), 0o600); err != nil {
			panic(err)
		}
	}
}

func removeFiles(o *op) {
	for _, f := range o.files {
		_ = os.Remove(filepath.Join(workDir, f.path))
	}
}

const versionMark = "VERSIONMARK"

func runChild(line string) {
	o := parseLine(line)
	if o == nil {
		fmt.Println("R bad-op")
		return
	}
	cmdline.AppVersion = versionMark
	cmdline.BuildNumber = "B"
	cmdline.VCSModified = false
	atexit.Register(func() {
		fmt.Println("ATEXIT")
		os.Stdout.Sync() //nolint:errcheck
	})
	fmt.Println("R " + hx.Safe(func() string { return execute(o) }))
}

// hangSeen is set once a child has timed out twice in a row: later lines then get a single short attempt.
var hangSeen bool

func viaChild(line string) string {
	out := childOnce(line, 5*time.Second)
	if out != "child-timeout" || hangSeen {
		return out
	}
	// a loaded machine can starve a child for seconds: try once more with a generous limit before calling it a hang
	out = childOnce(line, 40*time.Second)
	if out == "child-timeout" {
		hangSeen = true
	}
	return out
}

func childOnce(line string, limit time.Duration) string {
	ctx, cancel := context.WithTimeout(context.Background(), limit)
	defer cancel()
	cmd := exec.CommandContext(ctx, os.Args[0], "child", line)
	cmd.Dir = workDir
	var so, se bytes.Buffer
	cmd.Stdout = &so
	cmd.Stderr = &se
	err := cmd.Run()
	if ctx.Err() != nil {
		return "child-timeout"
	}
	status := 0
	if err != nil {
		var ee *exec.ExitError
		if errors.As(err, &ee) {
			status = ee.ExitCode()
		} else {
			return "child-error"
		}
	}
	result := ""
	ranAtexit := false
	version := ""
	for _, l := range strings.Split(so.String(), "\n") {
		switch {
		case strings.HasPrefix(l, "R "):
			result = l[2:]
		case l == "ATEXIT":
			ranAtexit = true
		case l == versionMark:
			version = "version"
		case l == versionMark+"-B":
			version = "longversion"
		}
	}
	switch {
	case status == 0 && result != "" && !ranAtexit:
		return result
	case status == 1 && ranAtexit && result == "" && strings.Contains(se.String(), "Usage: "):
		return "help"
	case status == 1 && ranAtexit && result == "":
		return "fatal"
	case status == 0 && ranAtexit && result == "" && version != "":
		return version
	}
	return fmt.Sprintf("child:status=%d:atexit=%v:result=%q", status, ranAtexit, result)
}

type area struct{}

func (area) Run(line string) string {
	o := parseLine(line)
	if o == nil {
		return "bad-op"
	}
	ensureDir()
	writeFiles(o)
	defer removeFiles(o)
	if o.child {
		return viaChild(line)
	}
	return execute(o)
}

func main() {
	if len(os.Args) == 3 && os.Args[1] == "child" {
		runChild(os.Args[2])
		return
	}
	defer func() {
		if workDir != "" {
			_ = os.Chdir("/")
			_ = os.RemoveAll(workDir)
		}
	}()
	hx.Main(map[string]hx.Area{"parse": area{}})
}
