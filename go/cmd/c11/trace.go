package main

import (
	"errors"
	"fmt"
	"runtime"
	"strconv"
	"strings"

	"github.com/richardwilkes/toolbox/errs"
	"verifharness/hx"
)

// Area `trace`: the WHOLE text of Detail(trim) / %v / %+v over real frames, compared with the Lean transcription of
// StackTrace (Model/ErrsTrace.lean: frame loop, filter, file shortening, callStack's buffer, Caused-by recursion).
//
// The model needs the frames as input.  They are taken INDEPENDENTLY of the library: every constructor call sits on the
// same source line as a call of site(), which records what runtime.Callers sees there (function, file, line of every
// frame).  To make the frames a function of the line alone, every constructor call runs on a fresh goroutine through a
// fixed trampoline, so the generator (which writes the frames into the line) and the runner (which ignores them and
// repeats the calls) see the same stack.  Only the library's own frames above the creation site (`lib`: errs.Newf above
// New, errs.Append above WrapTyped …) are read from the recorded stack itself - their line numbers are facts of the
// library source, and they must all lie inside the library.  Frames with unusual file names come from the //line
// directives of probes_line.go.

type tframe struct {
	fn, file string
	line     int
}

var siteFrames []tframe

//go:noinline
func site() {
	pcs := make([]uintptr, 8192)
	n := runtime.Callers(2, pcs)
	siteFrames = symbolise(pcs[:n])
}

func symbolise(pcs []uintptr) []tframe {
	if len(pcs) == 0 {
		return nil
	}
	frames := runtime.CallersFrames(pcs)
	out := make([]tframe, 0, len(pcs))
	for {
		f, more := frames.Next()
		if f.Function != "" {
			out = append(out, tframe{f.Function, f.File, f.Line})
		}
		if !more {
			break
		}
	}
	return out
}

// the creating functions: site() and the constructor on ONE source line

//go:noinline
func tNew(msg string) error { site(); return errs.New(msg) }

//go:noinline
func tNewf(msg string) error { site(); return errs.Newf("%s", msg) }

//go:noinline
func tCause(msg string, c error) error { site(); return errs.NewWithCause(msg, c) }

//go:noinline
func tCausef(msg string, c error) error { site(); return errs.NewWithCausef(c, "%s", msg) }

//go:noinline
func tWrap(c error) error { site(); return errs.Wrap(c) }

//go:noinline
func tWrapTyped(c error) error { site(); return errs.WrapTyped(c) }

//go:noinline
func tAppendAcc(c error) error { site(); return errs.Append(c) }

//go:noinline
func tAppendArg(c error) error { site(); return errs.Append(nil, c) }

//go:noinline
func tPanic(c error) { site(); panic(c) }

// tRecover panics with c under errs.Recovery and returns what the handler received.  The recorded stack is
// errs.Recovery, runtime.gopanic, and then the stack of the panicking function (site() on the line of the panic).
//
//go:noinline
func tRecover(c error) (got error) {
	if c == nil {
		return nil // panic(nil) is a runtime.PanicNilError of its own: not exercised
	}
	func() {
		defer errs.Recovery(func(err error) { got = err })
		tPanic(c)
	}()
	return got
}

//go:noinline
func construct(ctor, msg string, c error) error {
	switch ctor {
	case "recover":
		return tRecover(c)
	case "new":
		return tNew(msg)
	case "newf":
		return tNewf(msg)
	case "cause":
		return tCause(msg, c)
	case "causef":
		return tCausef(msg, c)
	case "wrap":
		return tWrap(c)
	case "wraptyped":
		return tWrapTyped(c)
	case "appendacc":
		return tAppendAcc(c)
	case "appendarg":
		return tAppendArg(c)
	case "plain":
		return errors.New(msg)
	case "fwrap":
		return &fwrap{msg: msg, inner: c}
	case "nil":
		return nil
	case "tnil":
		return (*errs.Error)(nil)
	case "fnil":
		return (*fptr)(nil)
	}
	panic("bad ctor " + ctor)
}

//go:noinline
func deepT(d int, k func() error) error {
	if d <= 0 {
		return k()
	}
	return deepT(d-1, k)
}

// pass-through frames with function names of every shape
type tRecv struct{ _ int }

//go:noinline
func (t *tRecv) Pass(k func() error) error { return k() }

type tVal struct{ _ int }

//go:noinline
func (t tVal) Pass(k func() error) error { return k() }

//go:noinline
func genPass[T any](_ T, k func() error) error { return k() }

//go:noinline
func plainPass(k func() error) error { return k() }

var mainHook func() error
var mainHookResult error

// viaMain puts main.main itself on the stack (its file name is `_testmain.go`, see the end of main.go): the one frame the
// library filters by function AND file.
func viaMain(k func() error) error {
	mainHook = k
	main()
	return mainHookResult
}

var probes = map[string]func(func() error) error{
	"plain":   plainPass,
	"ptr":     (&tRecv{}).Pass,
	"val":     tVal{}.Pass,
	"generic": func(k func() error) error { return genPass(0, k) },
	"closure": func(k func() error) error { return func() error { return k() }() },
	"main":    viaMain,
	// probes_line.go
	"lpA": lpA, "lpObj": lpObj, "lpZzz": lpZzz, "lpOther": lpOther, "lpNoDot": lpNoDot, "lpRoot": lpRoot, "lpDotDir": lpDotDir,
	"lpRootObj": lpRootObj, "lpObjObj": lpObjObj, "lpRel": lpRel, "lpRelDeep": lpRelDeep, "lpHidden": lpHidden, "lpUni": lpUni,
	"lpMainDot": lpMainDot, "lpTrail": lpTrail, "lpObjOnly": lpObjOnly, "lpDouble": lpDouble, "lpObjFile": lpObjFile,
	"lpTwoDots": lpTwoDots, "lpInner": lpInner, "lpTestmain": lpTestmain,
}

var probeNames = []string{"plain", "ptr", "val", "generic", "closure", "main", "lpA", "lpObj", "lpZzz", "lpOther", "lpNoDot",
	"lpRoot", "lpDotDir", "lpRootObj", "lpObjObj", "lpRel", "lpRelDeep", "lpHidden", "lpUni", "lpMainDot", "lpTrail",
	"lpObjOnly", "lpDouble", "lpObjFile", "lpTwoDots", "lpInner", "lpTestmain"}

type tlevel struct {
	ctor, probe, msg string
	depth            int
}

// runLevel performs one constructor call on a fresh goroutine: closure <- probe frame <- closure <- deepT x depth <- trampoline.
func runLevel(lv tlevel, cur error) (res error, st []tframe, panicked bool) {
	done := make(chan struct{})
	p := probes[lv.probe]
	if p == nil {
		panic("bad probe " + lv.probe)
	}
	go func() {
		defer close(done)
		defer func() {
			if r := recover(); r != nil {
				panicked = true
			}
		}()
		siteFrames = nil
		res = deepT(lv.depth, func() error { return p(func() error { return construct(lv.ctor, lv.msg, cur) }) })
		st = siteFrames
	}()
	<-done
	return res, st, panicked
}

// libFrames returns the leading frames of the recorded stack that lie inside the library (plus runtime.gopanic after them).
func libFrames(e *errs.Error) []tframe {
	all := symbolise(e.RawStackTrace())
	k := 0
	for k < len(all) && strings.HasPrefix(all[k].fn, errsPkg) {
		k++
	}
	// an error made inside errs.Recovery: the runtime's panic machinery sits between the library and the panicking function
	for k > 0 && k < len(all) && all[k].fn == "runtime.gopanic" {
		k++
	}
	return all[:k]
}

func encFrames(fs []tframe) string {
	if len(fs) == 0 {
		return "_"
	}
	var sb strings.Builder
	for i, f := range fs {
		if i > 0 {
			sb.WriteByte(';')
		}
		sb.WriteString(hx.Hex([]byte(f.fn)))
		sb.WriteByte(',')
		sb.WriteString(hx.Hex([]byte(f.file)))
		sb.WriteByte(',')
		sb.WriteString(strconv.Itoa(f.line))
	}
	return sb.String()
}

func encPrefixes(ps []string) string {
	parts := make([]string, len(ps))
	for i, p := range ps {
		parts[i] = hx.Hex([]byte(p))
	}
	return "P" + strings.Join(parts, ",")
}

func decPrefixes(w string) []string {
	if w == "P" {
		return []string{}
	}
	var out []string
	for _, p := range strings.Split(w[1:], ",") {
		out = append(out, string(hx.UnHex(p)))
	}
	return out
}

type traceArea struct{}

// stackBuf is the size of the library's callStack buffer, MEASURED (not read from the source): the number of entries an
// error records when it is created under a stack far deeper than any buffer one would choose.  It is written into every
// line (`B<n>`), and the model cuts the recorded stack there.
var stackBuf = 0

const veryDeep = 20000

func measureBuffer() int {
	if stackBuf == 0 {
		res, _, _ := runLevel(tlevel{"new", "plain", "m", veryDeep}, nil)
		if e, ok := res.(*errs.Error); ok && e != nil {
			stackBuf = len(e.RawStackTrace())
		}
	}
	return stackBuf
}

// the library's ACTUAL default filter list (read from the variable at start-up, not copied)
var defaultPrefixes = append([]string(nil), errs.RuntimePrefixesToFilter...)

var prefixSets = [][]string{
	defaultPrefixes, defaultPrefixes, defaultPrefixes, defaultPrefixes,
	{},
	{"runtime.", "testing."},
	{"main.lp"},
	{"main."},
	{""},
	{"main.tNew"},
	{"main.tNewX", "main.construct"},
	{errsPkg, "main.(*tRecv)", "main.tVal"},
	{"runtime.goexit", "main.genPass["},
	{"main.main"},
	{errsPkg + "Append"},
	{"untime.", "estmain"},
}

var traceMsgs = []string{"", "a", "boom", "line1\nline2", "    [main.fake] x.go:1", "Caused by: x", "café ✓", "\n", "<no detail>"}

func (traceArea) emitLine(trim bool, prefixes []string, extra int, lvs []tlevel, emit func(string)) {
	var sb strings.Builder
	sb.WriteString("trace ")
	if trim {
		sb.WriteString("1 ")
	} else {
		sb.WriteString("0 ")
	}
	sb.WriteString(encPrefixes(prefixes))
	sb.WriteByte(' ')
	sb.WriteString(strconv.Itoa(extra))
	sb.WriteString(" B" + strconv.Itoa(measureBuffer()))
	sb.WriteString(" R" + hx.Hex([]byte(recoveryMessage)))
	var cur error
	for _, lv := range lvs {
		res, st, _ := runLevel(lv, cur)
		var lib []tframe
		if e, ok := res.(*errs.Error); ok && e != nil {
			lib = libFrames(e)
		}
		cur = res
		sb.WriteByte(' ')
		sb.WriteString(strings.Join([]string{lv.ctor, lv.probe, strconv.Itoa(lv.depth), hx.Hex([]byte(lv.msg)), encFrames(lib), encFrames(st)}, ":"))
	}
	emit(sb.String())
}

var startCtors = []string{"new", "new", "newf", "plain", "plain", "nil", "tnil", "fnil"}
var nextCtors = []string{"cause", "cause", "causef", "wrap", "wraptyped", "fwrap", "appendacc", "appendarg", "cause", "recover"}

func (a traceArea) Gen(r *hx.Rng, n int, tier string, emit func(string)) {
	lines := 0
	out := func(trim bool, prefixes []string, extra int, lvs ...tlevel) {
		a.emitLine(trim, prefixes, extra, lvs, emit)
		lines++
	}
	// fixed boundary cases first (they play the part of the corpus: frames cannot be written by hand)
	for _, trim := range []bool{true, false} {
		for _, p := range probeNames {
			out(trim, defaultPrefixes, 0, tlevel{"new", p, "m", 0})
		}
		for _, ps := range prefixSets[4:] {
			out(trim, ps, 0, tlevel{"newf", "lpObj", "m", 1})
			out(trim, ps, 0, tlevel{"plain", "plain", "p", 0}, tlevel{"appendacc", "ptr", "", 0})
			out(trim, ps, 0, tlevel{"new", "main", "", 0})
		}
		for _, c := range []string{"new", "newf", "cause", "causef", "wrap", "wraptyped", "appendacc", "appendarg", "recover"} {
			out(trim, defaultPrefixes, 0, tlevel{"plain", "plain", "inner", 0}, tlevel{c, "lpZzz", "outer", 2})
			out(trim, defaultPrefixes, 2, tlevel{"new", "lpRel", "inner", 0}, tlevel{c, "lpDouble", "outer", 0})
			out(trim, defaultPrefixes, 0, tlevel{"new", "val", "", 0}, tlevel{"fwrap", "plain", "fw", 0}, tlevel{c, "generic", "", 0})
			out(trim, defaultPrefixes, 0, tlevel{"tnil", "plain", "", 0}, tlevel{c, "closure", "", 0})
		}
		// around the buffer of callStack (the trampoline adds a handful of frames)
		if b := measureBuffer(); b >= 32 && b <= 4096 {
			for _, d := range []int{-17, -12, -9, -8, -7, -6, -5, -4, -3, -2, -1, 0, 1, 88} {
				out(trim, defaultPrefixes, 0, tlevel{"new", "lpObj", "deep", b + d})
			}
			out(trim, defaultPrefixes, 0, tlevel{"newf", "lpObj", "deep", b - 7}, tlevel{"causef", "plain", "outer", b - 6})
		}
	}
	if tier == "thorough" {
		out(true, defaultPrefixes, 0, tlevel{"new", "plain", "very deep", 3000})
	}
	for lines < n {
		trim := r.Chance(2, 3)
		ps := hx.Pick(r, prefixSets)
		var lvs []tlevel
		nl := r.Range(1, 4)
		for i := 0; i < nl; i++ {
			c := hx.Pick(r, nextCtors)
			if i == 0 {
				c = hx.Pick(r, startCtors)
			}
			d := r.Intn(4)
			if b := measureBuffer(); r.Chance(1, 60) && b >= 32 && b <= 4096 {
				d = r.Range(b-17, b+3)
			}
			lvs = append(lvs, tlevel{c, hx.Pick(r, probeNames), hx.Pick(r, traceMsgs), d})
		}
		extra := 0
		if r.Chance(1, 4) {
			extra = r.Range(1, 3)
		}
		out(trim, ps, extra, lvs...)
	}
}

func (traceArea) Run(line string) string {
	f := strings.Fields(line)
	if len(f) < 6 || f[0] != "trace" || !strings.HasPrefix(f[4], "B") || !strings.HasPrefix(f[5], "R") {
		return "bad-op"
	}
	trim := f[1] == "1"
	prefixes := decPrefixes(f[2])
	extra := hx.Atoi(f[3])
	var cur error
	for _, w := range f[6:] {
		p := strings.Split(w, ":")
		if len(p) != 6 {
			return "bad-op"
		}
		res, _, panicked := runLevel(tlevel{ctor: p[0], probe: p[1], depth: hx.Atoi(p[2]), msg: string(hx.UnHex(p[3]))}, cur)
		if panicked {
			return "panic"
		}
		cur = res
	}
	e, ok := cur.(*errs.Error)
	switch {
	case cur == nil:
		return "nil"
	case !ok:
		return "nonref"
	case e == nil:
		return "tn"
	}
	if extra > 0 {
		more := make([]error, extra)
		for i := range more {
			more[i] = errors.New("extra" + strconv.Itoa(i))
		}
		e = errs.Append(e, more...)
		if e == nil {
			return "tn"
		}
	}
	saved := errs.RuntimePrefixesToFilter
	errs.RuntimePrefixesToFilter = prefixes
	defer func() { errs.RuntimePrefixesToFilter = saved }()
	d := e.Detail(trim)
	verb := "%+v"
	if trim {
		verb = "%v"
	}
	if got := fmt.Sprintf(verb, e); got != d {
		return "FAIL-fmt " + verb + " differs from Detail"
	}
	if trim && e.Error() != d {
		return "FAIL-fmt Error() differs from Detail(true)"
	}
	return "D:" + hx.Hex([]byte(d))
}
